#!/bin/sh
# Build the framework from files on disk only (offline): all Lean models, proofs and drivers,
# and every harness binary against /repo's current tree with the hook cfg on.
set -e
cd "$(dirname "$0")"
export CARGO_NET_OFFLINE=true
for f in registry/C*.json; do
  pid=$(basename "$f" .json)
  python3 tools/gen_consts.py "$pid" >/dev/null || true
done
CLAIMED=$(python3 - <<'PY'
import json,glob
print(" ".join(sorted(json.load(open(f))["property_id"] for f in glob.glob("registry/C*.json") if json.load(open(f)).get("claimed"))))
PY
)
cd lean
TARGETS=""
for pid in $CLAIMED; do TARGETS="$TARGETS Lumina.Props.$pid drv_$pid"; done
# shellcheck disable=SC2086
lake build $TARGETS
cd ../harness
[ -f Cargo.lock ] || cp /repo/Cargo.lock Cargo.lock
# lumina's own crates are always rebuilt from /repo's current tree (a restored target dir may hold
# artifacts of another tree: lumina-node's unhashed rlib is shared between build units)
cargo clean --offline -p lumina-node -p celestia-types -p celestia-grpc -p celestia-grpc-macros -p lumina-utils -p celestia-proto -p verif-harness 2>/dev/null || true
BINS=""
for pid in $CLAIMED; do BINS="$BINS --bin $(echo "$pid" | tr 'C' 'c')"; done
# shellcheck disable=SC2086
cargo build --offline $BINS
echo "setup ok: $CLAIMED"

#!/bin/sh
# run every claimed check serially; summary in .work/run_all.log
cd /verif
LOG=.work/run_all_${1:-quick}.log; : > $LOG
for pid in $(python3 - <<'PY'
import json,glob
print(" ".join(sorted(json.load(open(f))["property_id"] for f in glob.glob("registry/C*.json") if json.load(open(f)).get("claimed"))))
PY
); do
  s=$(date +%s)
  out=$(./check "$pid" --tier "${1:-quick}" 2>&1 | grep -E "^\[check|^VIOLATION|^KNOWN-FINDING" )
  rc=$?
  e=$(date +%s)
  echo "$pid $((e-s))s :: $out" | tr '\n' ' ' >> $LOG
  echo >> $LOG
done
echo DONE >> $LOG

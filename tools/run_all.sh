#!/bin/sh
# run every claimed check serially; summary in .work/run_all.log
cd /verif
: > .work/run_all.log
for pid in $(python3 - <<'PY'
import json,glob
print(" ".join(sorted(json.load(open(f))["property_id"] for f in glob.glob("registry/C*.json") if json.load(open(f)).get("claimed"))))
PY
); do
  s=$(date +%s)
  out=$(./check "$pid" --tier "${1:-quick}" 2>&1 | grep -E "^\[check|^VIOLATION|^KNOWN-FINDING" )
  rc=$?
  e=$(date +%s)
  echo "$pid $((e-s))s :: $out" | tr '\n' ' ' >> .work/run_all.log
  echo >> .work/run_all.log
done
echo DONE >> .work/run_all.log

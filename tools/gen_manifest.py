#!/usr/bin/env python3
"""Regenerate /verif/MANIFEST.json from registry/*.json (one file per claimed property).

A property is CLAIMED iff registry/Cxx.json has "claimed": true.  Every other property of
properties.jsonl is listed under not_applicable with the reason recorded in
registry/Cxx.json["not_claimed_reason"] or a default "not built yet" reason.
"""
import json, os, subprocess

VERIF = os.path.dirname(os.path.dirname(os.path.abspath(__file__)))


def main():
    props = [json.loads(l) for l in open(os.path.join(VERIF, "properties.jsonl")) if l.strip()]
    checks, na = [], []
    try:
        hooks = subprocess.run(["git", "-C", "/repo", "log", "--format=%H %s"], capture_output=True, text=True).stdout
        hook_commits = [l.split()[0] for l in hooks.splitlines() if " verif-hook:" in l]
    except Exception:
        hook_commits = []
    for p in props:
        pid = p["id"]
        rp = os.path.join(VERIF, "registry", pid + ".json")
        reg = json.load(open(rp)) if os.path.exists(rp) else {}
        if reg.get("claimed"):
            checks.append({
                "property_id": pid,
                "quick_cmd": f"./check {pid} --tier quick",
                "thorough_cmd": f"./check {pid} --tier thorough",
                "evidence_file": f"/verif/evidence/{pid}.json",
                "replay_cmd_template": f"./check {pid} --replay {{path}}",
                "engine": "lean4-model+correspondence",
                "level_claimed": {"category": reg.get("level", "proof"), "text": reg["level_text"],
                                  "design_ref": reg.get("design_ref", "DESIGN.md section 7")},
                "level_note": reg["level_note"],
                "technique": reg["technique"],
            })
        else:
            na.append({"property_id": pid,
                       "reason": reg.get("not_claimed_reason",
                                         "not claimed yet: model/theorems/correspondence for this property are not built "
                                         "(planned in DESIGN.md section 7); no technique other than Lean proof is substituted")})
    man = {
        "version": 1,
        "setup_cmd": "./setup.sh",
        "hooks": {
            "guard": "--cfg eigerco_lumina_verif",
            "enable": "harness/.cargo/config.toml sets rustflags = [\"--cfg\", \"eigerco_lumina_verif\"] for the harness build of /repo's crates (path dependencies); nothing in /repo is built with it otherwise",
            "baseline_off_cmd": "cd /repo/$(cat /w/out/cargo_root.txt) && (cargo nextest run --workspace --no-fail-fast --tool-config-file pb:/w/lib/nextest.toml --profile pb --test-threads 8 --offline || cargo test --workspace --no-fail-fast --offline)",
            "source_commits": hook_commits,
            "add_only": True,
        },
        "engines": [{
            "name": "lean4-model+correspondence",
            "path": "/verif/check",
            "serves_properties": [c["property_id"] for c in checks],
            "kind_free_text": "Lean 4 theorems (lean/Lumina/Props/Cxx.lean) over hand-written executable models; models tied to /repo on every run by regenerated constants (tools/gen_consts.py) and by a differential correspondence run (harness/src/bin/cxx.rs executes the real code, lean/Driver/Cxx.lean the model, ./check diffs and evaluates specOK on implementation outputs)",
        }],
        "checks": checks,
        "not_applicable": na,
        "notes": "See DESIGN.md. known_findings.json lists genuine defects recorded rather than repaired; seeded/ holds confirmed property-breaking patches used to test the checks.",
    }
    with open(os.path.join(VERIF, "MANIFEST.json"), "w") as f:
        json.dump(man, f, indent=1)
    print(f"claimed {len(checks)} / {len(props)}")


if __name__ == "__main__":
    main()

#!/usr/bin/env python3
"""Prepare an independent 'seeded breaking change' task for property Cxx [variant n]:
scratch worktree of /repo at /tmp/seed/<id>-<n>/wt, OUT dir, and a prompt file that contains ONLY
the property's text (nothing from /verif)."""
import json, os, subprocess, sys
pid = sys.argv[1]
n = sys.argv[2] if len(sys.argv) > 2 else "1"
extra = sys.argv[3] if len(sys.argv) > 3 else ""
base = f"/tmp/seed/{pid}-{n}"
os.makedirs(base + "/out", exist_ok=True)
if not os.path.exists(base + "/wt"):
    subprocess.run(["git", "-C", "/repo", "worktree", "add", "-q", base + "/wt", "HEAD"], check=True)
p = next(json.loads(l) for l in open("/verif/properties.jsonl") if json.loads(l)["id"] == pid)
crates = sorted({f.split("/")[0] for f in p["anchors"]["files"]})
cr = {"types": "celestia-types", "node": "lumina-node", "grpc": "celestia-grpc", "utils": "lumina-utils", "proto": "celestia-proto"}
txt = f"""Specifics for your task:
- Worktree: {base}/wt (a git worktree of eigerco/lumina). OUT directory: {base}/out.
- Use `export CARGO_TARGET_DIR=/tmp/seed/target` (a pre-warmed build dir SHARED with a few other agents: cargo serialises on a lock, so a command may wait; never delete it) and `--offline` for every cargo command; use generous timeouts (20-40 min) for builds and test runs.
- Property {pid} - "{p['title']}": {p['statement']}
  (Quantified over: {p['quantifier']['text']})
- The code it is anchored in: {', '.join(p['anchors']['files'])} (crate(s): {', '.join(cr.get(c, c) for c in crates)}). Run the affected crate's existing tests with e.g. `cargo nextest run -p <crate> --offline --features test-utils` (lumina-node and celestia-types have a `test-utils` feature; some lumina-node integration tests need a network and fail on the unmodified tree too: compare with the unmodified tree, what matters is that you introduce no NEW failures).
- The repository contains blocks guarded by `#[cfg(eigerco_lumina_verif)]`: ignore them (they are not compiled in a normal build); do not put your change there.
{extra}
"""
open(base + "/prompt.txt", "w").write(txt)
print(base)

#!/bin/sh
# usage: run_some.sh <tier> <logname> C47 C46 ...
cd /verif
TIER=$1; LOG=.work/$2.log; shift 2
: > $LOG
for pid in "$@"; do
  s=$(date +%s)
  out=$(./check "$pid" --tier "$TIER" 2>&1 | grep -E "^\[check|^VIOLATION|^KNOWN-FINDING")
  e=$(date +%s)
  echo "$pid $((e-s))s :: $out" | tr '\n' ' ' >> $LOG
  echo >> $LOG
done
echo DONE >> $LOG

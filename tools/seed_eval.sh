#!/bin/bash
# Confirm a seeded change and run the check(s) against it.
#   tools/seed_eval.sh C17-1 "<crates>" "<demo cmd run inside the worktree>" [extra check ids...]
# 1. with the change applied: the affected crates' existing tests (baseline-stable ones) must pass
# 2. the demo must FAIL with the change and PASS without it
# 3. VERIF_REPO=<worktree> ./check Cxx must print VIOLATION
set -u
ID="$1"; CRATES="$2"; DEMO="$3"; shift 3
PID="${ID%%-*}"
B=/tmp/seed/$ID; WT=$B/wt; LOG=$B/eval.log
export CARGO_TARGET_DIR=${SEED_TARGET:-/tmp/seed/target-eval}
: > "$LOG"
cd "$WT" || exit 2
echo "== git status" >> "$LOG"; git status --short >> "$LOG"
PK=""; FE=""; for c in $CRATES; do PK="$PK -p $c"; case $c in celestia-types|lumina-node) FE="$FE,$c/test-utils";; esac; done
[ -n "$FE" ] && PK="$PK --features ${FE#,}"
touch node/src/lib.rs types/src/lib.rs grpc/src/lib.rs utils/src/lib.rs 2>/dev/null  # lumina-node rlib is unhashed: force THIS tree's lib
echo "== tests with change: cargo nextest run $PK" >> "$LOG"
# shellcheck disable=SC2086
cargo nextest run $PK --no-fail-fast --tool-config-file pb:/w/lib/nextest.toml --profile pb --test-threads 8 --offline >> "$B/nextest.log" 2>&1
cp "$WT/target/nextest/pb/junit.xml" "$B/junit.xml" 2>/dev/null || cp "$CARGO_TARGET_DIR/nextest/pb/junit.xml" "$B/junit.xml"
python3 - "$B/junit.xml" $CRATES >> "$LOG" <<'PY'
import ast, json, sys
import xml.etree.ElementTree as ET
b = json.load(open("/root/.vp/BASELINE.json")); st = b["stable_pass"]
st = set(ast.literal_eval(st) if isinstance(st, str) else st)
crates = sys.argv[2:]
res = {}
for tc in ET.parse(sys.argv[1]).getroot().iter("testcase"):
    res[f"{tc.get('classname')}::{tc.get('name')}"] = tc.find("failure") is None and tc.find("error") is None
mine = {t for t in st if t.split("::")[0] in crates}
failed = sorted(t for t in mine if t in res and not res[t]); missing = sorted(t for t in mine if t not in res)
newtests_failed = sorted(t for t, ok in res.items() if not ok and t not in st)
print(f"baseline-stable tests of {crates}: {len(mine)}; failed with change: {failed}; missing: {len(missing)}")
print(f"non-baseline failing tests (demo or network tests): {newtests_failed[:12]}")
PY
echo "== demo WITH change: $DEMO" >> "$LOG"
( eval "$DEMO" ) > "$B/demo_with.log" 2>&1; echo "rc=$?" >> "$LOG"; grep -E "test result|passed|failed|FAIL|panicked" "$B/demo_with.log" | tail -5 >> "$LOG"
git apply -R "$B/out/patch.diff" || echo "REVERSE-APPLY FAILED" >> "$LOG"
touch node/src/lib.rs types/src/lib.rs grpc/src/lib.rs utils/src/lib.rs 2>/dev/null
echo "== demo WITHOUT change" >> "$LOG"
( eval "$DEMO" ) > "$B/demo_without.log" 2>&1; echo "rc=$?" >> "$LOG"; grep -E "test result|passed|failed|FAIL|panicked" "$B/demo_without.log" | tail -5 >> "$LOG"
git apply "$B/out/patch.diff" || echo "RE-APPLY FAILED" >> "$LOG"
unset CARGO_TARGET_DIR
cd /verif || exit 2
# run the check against the patch applied to /repo's CURRENT head (hooks/fixes may have been added since the seed's worktree was made)
WH=$B/wt-head
git -C /repo worktree remove --force "$WH" 2>/dev/null
git -C /repo worktree add -q "$WH" HEAD
if git -C "$WH" apply "$B/out/patch.diff" 2>>"$LOG"; then CW="$WH"; echo "== patch applied to current /repo HEAD $(git -C /repo rev-parse --short HEAD)" >> "$LOG"; else CW="$WT"; echo "== PATCH DOES NOT APPLY to current HEAD; using the seed's own worktree" >> "$LOG"; fi
for P in "$PID" "$@"; do
  echo "== VERIF_REPO=$CW ./check $P" >> "$LOG"
  VERIF_REPO="$CW" ./check "$P" 2>&1 | grep -E "^\[check|^VIOLATION|^KNOWN|^--- .* failed" >> "$LOG"
done
git -C /repo worktree remove --force "$WH" 2>/dev/null
echo "== done" >> "$LOG"
cat "$LOG"

#!/usr/bin/env python3
"""Record, in every registry/Cxx.json, the token-stream hashes of the Rust files the property is
anchored in AS REVIEWED NOW ("reviewed_source_hashes"); ./check then lists files that changed since
(informational, DESIGN.md 2c)."""
import glob, hashlib, json, os, re, sys
sys.path.insert(0, os.path.dirname(os.path.abspath(__file__)))
import gen_consts
V = os.path.dirname(os.path.dirname(os.path.abspath(__file__)))
for l in open(os.path.join(V, "properties.jsonl")):
    p = json.loads(l)
    rp = os.path.join(V, "registry", p["id"] + ".json")
    if not os.path.exists(rp):
        continue
    reg = json.load(open(rp))
    out = {}
    for pat in p["anchors"]["files"]:
        files = sorted(glob.glob(os.path.join("/repo", pat))) if "*" in pat else [os.path.join("/repo", pat)]
        for f in files:
            try:
                src = gen_consts.strip_comments(open(f).read())
            except OSError:
                continue
            toks = re.findall(r"[A-Za-z_][A-Za-z0-9_]*|\d+|\S", src)
            out[os.path.relpath(f, "/repo")] = hashlib.sha256(" ".join(toks).encode()).hexdigest()[:16]
    reg["reviewed_source_hashes"] = out
    json.dump(reg, open(rp, "w"), indent=1)
print("ok")

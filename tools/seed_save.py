#!/usr/bin/env python3
"""Copy a confirmed seeded change from /tmp/seed/<id> to /verif/seeded/<id> with the confirmation log.
usage: seed_save.py C26-1 caught|missed "note" """
import json, os, shutil, sys
sid, verdict, note = sys.argv[1], sys.argv[2], (sys.argv[3] if len(sys.argv) > 3 else "")
src, dst = f"/tmp/seed/{sid}", f"/verif/seeded/{sid}"
os.makedirs(dst, exist_ok=True)
shutil.copy(f"{src}/out/patch.diff", f"{dst}/patch.diff")
if os.path.isdir(f"{dst}/demo"):
    shutil.rmtree(f"{dst}/demo")
shutil.copytree(f"{src}/out/demo", f"{dst}/demo")
m = json.load(open(f"{src}/out/meta.json"))
m["property"] = sid.split("-")[0]
m["caught"] = verdict == "caught"
m["confirmation_log"] = open(f"{src}/eval.log").read() if os.path.exists(f"{src}/eval.log") else ""
m["confirmation_note"] = note
json.dump(m, open(f"{dst}/meta.json", "w"), indent=1)
print("saved", dst)

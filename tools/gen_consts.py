#!/usr/bin/env python3
"""Rust-source -> Lean constants translator (DESIGN.md section 2a).

For a property Cxx, reads registry/Cxx.json["consts"], finds each constant in the
*current* /repo working tree, evaluates its initialiser and (re)writes
lean/Lumina/Gen/Cxx.lean.  A constant that can no longer be found or evaluated is
NOT defaulted: it is left out (so that every theorem quoting it stops compiling) and
reported on stderr / in the returned problem list: that is a broken tie.

Entry forms in "consts":
  {"file": "types/src/nmt.rs", "name": "NS_SIZE"}                       plain const
  {"file": ..., "name": "X", "as": "LEAN_NAME"}                         rename
  {"file": ..., "name": "X", "search": ["other/file.rs"]}               extra files for referenced consts
  {"file": ..., "regex": "TrustLevelRatio::new\\((\\d+), (\\d+)\\)", "as": ["A","B"]}
        literal(s) captured by a regex (first match), each group must be an integer expression
  {"file": ..., "fn_match": "subtree_root_threshold", "as": "SUBTREE_ROOT_THRESHOLD_TABLE"}
        not supported generically; use "regex_all"
  {"file": ..., "regex_all": "AppVersion::V(\\d+) => (\\d+)", "as": "NAME"}   list of tuples of ints
"""
import json, os, re, sys

REPO = os.environ.get("VERIF_REPO", "/repo")
VERIF = os.path.dirname(os.path.dirname(os.path.abspath(__file__)))

INT_TYPES = r"(?:u8|u16|u32|u64|u128|usize|i8|i16|i32|i64|i128|isize)"
TYPE_MAX = {"u8": 2**8 - 1, "u16": 2**16 - 1, "u32": 2**32 - 1, "u64": 2**64 - 1, "usize": 2**64 - 1,
            "u128": 2**128 - 1, "i8": 2**7 - 1, "i16": 2**15 - 1, "i32": 2**31 - 1, "i64": 2**63 - 1,
            "isize": 2**63 - 1, "i128": 2**127 - 1}


class Unevaluable(Exception):
    pass


def strip_comments(src):
    src = re.sub(r"//[^\n]*", "", src)
    src = re.sub(r"/\*.*?\*/", "", src, flags=re.S)
    return src


def read(path):
    with open(os.path.join(REPO, path)) as f:
        return strip_comments(f.read())


def find_const(name, files):
    pat = re.compile(r"\b(?:const|static)\s+" + re.escape(name) + r"\s*:\s*([^=;]+?)=\s*(.*?);", re.S)
    for f in files:
        try:
            src = read(f)
        except OSError:
            continue
        m = pat.search(src)
        if m:
            return m.group(1).strip(), m.group(2).strip(), f
    raise Unevaluable(f"constant {name} not found in {files}")


def eval_expr(expr, files, depth=0):
    """returns python int / list / str / ('dur_ms', int)"""
    if depth > 20:
        raise Unevaluable("recursion")
    e = expr.strip()
    # string literal
    m = re.fullmatch(r'"((?:[^"\\]|\\.)*)"', e)
    if m:
        return m.group(1)
    # byte string literal
    m = re.fullmatch(r'b"((?:[^"\\]|\\.)*)"', e)
    if m:
        return list(m.group(1).encode())
    # Duration
    m = re.fullmatch(r"Duration::from_(secs|millis|micros|nanos)\((.*)\)", e, re.S)
    if m:
        v = eval_expr(m.group(2), files, depth + 1)
        mult = {"secs": 10**9, "millis": 10**6, "micros": 10**3, "nanos": 1}[m.group(1)]
        return ("dur_ns", v * mult)
    # array repeat [x; N]
    m = re.fullmatch(r"\[(.*);(.*)\]", e, re.S)
    if m and "," not in m.group(1):
        return [eval_expr(m.group(1), files, depth + 1)] * eval_expr(m.group(2), files, depth + 1)
    # array literal
    if e.startswith("[") and e.endswith("]"):
        inner = e[1:-1].strip()
        if not inner:
            return []
        return [eval_expr(x, files, depth + 1) for x in split_top(inner)]
    # integer arithmetic
    s = e
    s = re.sub(r"\bas\s+" + INT_TYPES + r"\b", "", s)
    s = re.sub(r"\b(" + INT_TYPES + r")::MAX\b", lambda m: str(TYPE_MAX[m.group(1)]), s)
    s = re.sub(r"\b(0x[0-9a-fA-F_]+|[0-9][0-9_]*)(" + INT_TYPES + r")?\b",
               lambda m: m.group(1).replace("_", ""), s)

    def ident(m):
        name = m.group(0)
        if re.fullmatch(r"0x[0-9a-fA-F]+|\d+", name):
            return name
        last = name.split("::")[-1]
        _, ex, f = find_const(last, files)
        v = eval_expr(ex, [f] + [x for x in files if x != f], depth + 1)
        if isinstance(v, tuple):
            v = v[1]
        if not isinstance(v, int):
            raise Unevaluable(f"{name} is not an integer")
        return str(v)

    s = re.sub(r"\b(?!0x)[A-Za-z_][A-Za-z0-9_]*(?:::[A-Za-z_][A-Za-z0-9_]*)*\b", ident, s)
    s = s.replace("/", "//")
    if not re.fullmatch(r"[0-9a-fA-Fx\s+\-*/()<>%|&^]+", s):
        raise Unevaluable(f"cannot evaluate `{expr}` (reduced to `{s}`)")
    try:
        return int(eval(s, {"__builtins__": {}}, {}))
    except Exception as ex:  # noqa
        raise Unevaluable(f"cannot evaluate `{expr}`: {ex}")


def split_top(s):
    out, depth, cur = [], 0, ""
    for ch in s:
        if ch in "([{":
            depth += 1
        elif ch in ")]}":
            depth -= 1
        if ch == "," and depth == 0:
            out.append(cur)
            cur = ""
        else:
            cur += ch
    if cur.strip():
        out.append(cur)
    return out


def lean_value(v):
    if isinstance(v, tuple) and v[0] == "dur_ns":
        return "Nat", str(v[1])
    if isinstance(v, bool):
        return "Bool", "true" if v else "false"
    if isinstance(v, int):
        if v < 0:
            return "Int", f"({v})"
        return "Nat", str(v)
    if isinstance(v, str):
        return "String", json.dumps(v)
    if isinstance(v, list):
        if v and isinstance(v[0], (list, tuple)):
            n = len(v[0])
            ty = " × ".join(["Nat"] * n)
            return f"List ({ty})", "[" + ", ".join("(" + ", ".join(str(x) for x in t) + ")" for t in v) + "]"
        return "List Nat", "[" + ", ".join(str(x) for x in v) + "]"
    raise Unevaluable(f"no Lean form for {v!r}")


def generate(pid):
    reg = json.load(open(os.path.join(VERIF, "registry", pid + ".json")))
    problems, defs = [], []
    for c in reg.get("consts", []):
        files = [c["file"]] + c.get("search", [])
        try:
            if "regex" in c:
                src = read(c["file"])
                m = re.search(c["regex"], src, re.S)
                if not m:
                    raise Unevaluable(f"regex {c['regex']!r} not found in {c['file']}")
                names = c["as"] if isinstance(c["as"], list) else [c["as"]]
                for nm, g in zip(names, m.groups()):
                    defs.append((nm, eval_expr(g, files), c["file"]))
            elif "regex_all" in c:
                src = read(c["file"])
                ms = re.findall(c["regex_all"], src, re.S)
                if not ms:
                    raise Unevaluable(f"regex_all {c['regex_all']!r} not found in {c['file']}")
                rows = [tuple(eval_expr(g, files) for g in (t if isinstance(t, tuple) else (t,))) for t in ms]
                defs.append((c["as"], rows, c["file"]))
            else:
                _, ex, f = find_const(c["name"], files)
                defs.append((c.get("as", c["name"]), eval_expr(ex, [f] + [x for x in files if x != f]), f))
        except (Unevaluable, OSError) as ex:
            problems.append(f"{c.get('name', c.get('as'))}: {ex}")
    lines = [f"-- GENERATED on every run by tools/gen_consts.py from the current /repo tree. Do not edit.",
             f"namespace Lumina.Gen.{pid}", ""]
    for nm, v, f in defs:
        try:
            ty, val = lean_value(v)
            unit = " (nanoseconds)" if isinstance(v, tuple) else ""
            lines.append(f"/-- `{nm}` from `{f}`{unit} -/")
            lines.append(f"def {nm} : {ty} := {val}")
        except Unevaluable as ex:
            problems.append(f"{nm}: {ex}")
    for p in problems:
        lines.append(f"-- BROKEN TIE: {p}")
    lines += ["", f"end Lumina.Gen.{pid}", ""]
    text = "\n".join(lines)
    path = os.path.join(VERIF, "lean", "Lumina", "Gen", pid + ".lean")
    old = open(path).read() if os.path.exists(path) else None
    if old != text:
        with open(path, "w") as f:
            f.write(text)
    return problems, {nm: (v[1] if isinstance(v, tuple) else v) for nm, v, _ in defs}


if __name__ == "__main__":
    rc = 0
    for pid in sys.argv[1:]:
        probs, vals = generate(pid)
        for p in probs:
            print(f"BROKEN-TIE {pid} {p}", file=sys.stderr)
            rc = 1
        print(json.dumps({pid: vals}))
    sys.exit(rc)

#!/usr/bin/env python3
"""Per-property source coverage of the ANCHORED Rust code by the quick-tier correspondence run.

Driven by tools/coverage.sh (which builds the instrumented harness, runs every claimed property's
binary exactly as ./check does for the quick tier, and merges the profiles).  This script turns
`llvm-cov export` JSON into, per property:

  * per anchored FILE  (anchors.files of properties.jsonl, globs allowed): line and region coverage of
    the non-test, non-`cfg(eigerco_lumina_verif)`, non-`test-utils` code;
  * per anchored FUNCTION (identifiers of anchors.mechanism[].name that name a `fn` in the `where`
    file(s), plus the hand list tools/coverage_anchors.json): region/line coverage and the list of
    uncovered regions ("branches") with their source text;
  * the functions of the anchored files that the run never entered.

Regions are attributed to functions by SOURCE EXTENT (the function's `fn … { … }` span found by a small
Rust-aware brace matcher), not by symbol name: closures / async blocks inside a function count towards
it, all monomorphisations are merged (a region is covered if any instantiation executed it), and no
demangler is needed.  Stable rustc has no branch coverage; a "region" is rustc's MIR-derived code
region, so both arms of an `if`/`match`/`?` are separate regions — that is the branch-level signal.

usage:
  coverage.py anchors                      # print the mechanism -> fn matching (no coverage data needed)
  coverage.py report --cov DIR --llvm-bin DIR --target DIR [--only C01,C02] [--baseline FILE]
"""
import argparse, bisect, fnmatch, glob, json, os, re, subprocess, sys, time

VERIF = os.path.dirname(os.path.dirname(os.path.abspath(__file__)))
REPO = os.environ.get("VERIF_REPO", "/repo")
NOTES = os.path.join(VERIF, "design_notes")
OVERRIDES = os.path.join(VERIF, "tools", "coverage_anchors.json")
LOW = 70.0  # % regions of the anchored functions below which a property is flagged

# ----------------------------------------------------------------------------------------------
# Rust source: blank out comments / strings, find fn / impl / trait / mod extents and cfg'd items
# ----------------------------------------------------------------------------------------------

def blank_noncode(src):
    """same length as src; comments, string/char literals replaced by spaces (newlines kept)"""
    out = list(src)
    n, i = len(src), 0

    def blank(a, b):
        for k in range(a, b):
            if out[k] != "\n":
                out[k] = " "

    while i < n:
        c = src[i]
        if c == "/" and i + 1 < n and src[i + 1] == "/":
            j = src.find("\n", i)
            j = n if j < 0 else j
            blank(i, j); i = j
        elif c == "/" and i + 1 < n and src[i + 1] == "*":
            depth, j = 1, i + 2
            while j < n and depth:
                if src.startswith("/*", j): depth += 1; j += 2
                elif src.startswith("*/", j): depth -= 1; j += 2
                else: j += 1
            blank(i, j); i = j
        elif c == '"' or (c in "br" and re.match(r'(?:b|r|br)#*"', src[i:i + 12]) and (i == 0 or not (src[i - 1].isalnum() or src[i - 1] == "_"))):
            m = re.match(r'(b?)(r?)(#*)"', src[i:i + 12])
            raw, hashes = bool(m.group(2)), m.group(3)
            j = i + m.end()
            if raw:
                e = src.find('"' + hashes, j)
                j = n if e < 0 else e + 1 + len(hashes)
            else:
                while j < n and src[j] != '"':
                    j += 2 if src[j] == "\\" else 1
                j += 1
            blank(i, min(j, n)); i = j
        elif c == "'":
            m = re.match(r"'(?:\\(?:x[0-9a-fA-F]{2}|u\{[0-9a-fA-F_]+\}|.)|[^\\'])'", src[i:i + 14])
            if m:
                blank(i, i + m.end()); i += m.end()
            else:
                i += 1  # lifetime
        else:
            i += 1
    return "".join(out)


class RustFile:
    def __init__(self, path):
        self.path = path
        self.src = open(path, encoding="utf-8", errors="replace").read()
        self.code = blank_noncode(self.src)
        self.lines = self.src.split("\n")
        self.line_starts = [0]
        for m in re.finditer("\n", self.src):
            self.line_starts.append(m.end())
        self._match = self._brace_table()
        self.blocks = self._blocks()       # impl / trait / mod: (start, end, kind, type, trait)
        self.fns = self._fns()             # dict per fn
        self.excluded = self._excluded()   # [(start, end, why)]

    def pos(self, off):
        ln = bisect.bisect_right(self.line_starts, off) - 1
        return ln + 1, off - self.line_starts[ln] + 1

    def off(self, line, col):
        if line - 1 >= len(self.line_starts):
            return len(self.src)
        return self.line_starts[line - 1] + col - 1

    def _brace_table(self):
        st, tab = [], {}
        for m in re.finditer(r"[{}]", self.code):
            if m.group() == "{":
                st.append(m.start())
            elif st:
                tab[st.pop()] = m.start()
        return tab

    def _body_after(self, start):
        """first `{` at (paren,bracket)-depth 0 after `start`, unless a `;` comes first: (open, close) or None"""
        d = 0
        for i in range(start, len(self.code)):
            c = self.code[i]
            if c in "([": d += 1
            elif c in ")]": d -= 1
            elif c == ";" and d == 0: return None
            elif c == "{" and d == 0:
                return (i, self._match.get(i, len(self.code) - 1))
            elif c == "}" and d == 0: return None
        return None

    @staticmethod
    def _strip_generics(s):
        out, d = [], 0
        for ch in s:
            if ch == "<": d += 1
            elif ch == ">": d = max(0, d - 1)
            elif d == 0: out.append(ch)
        return "".join(out)

    def _blocks(self):
        res = []
        for m in re.finditer(r"\b(impl|trait|mod)\b", self.code):
            b = self._body_after(m.end())
            if not b:
                continue
            hdr = self.code[m.end():b[0]]
            kind = m.group(1)
            ty = tr = None
            if kind == "impl":
                h = self._strip_generics(hdr).split(" where ")[0].split("\nwhere")[0]
                if re.search(r"\bfor\b", h):
                    a, bb = re.split(r"\bfor\b", h, 1)
                    tr = (re.findall(r"[A-Za-z_]\w*", a) or [None])[-1]
                    ty = (re.findall(r"[A-Za-z_]\w*", bb.replace("dyn ", "").replace("&", " ")) or [None])
                    ty = self._last_path_ident(bb)
                else:
                    ty = self._last_path_ident(h)
            else:
                ids = re.findall(r"[A-Za-z_]\w*", hdr)
                ty = ids[0] if ids else None
            res.append({"start": m.start(), "end": b[1], "kind": kind, "type": ty, "trait": tr})
        return res

    @staticmethod
    def _last_path_ident(s):
        s = s.replace("dyn ", " ").replace("&", " ").replace("mut ", " ")
        m = re.search(r"([A-Za-z_]\w*(?:\s*::\s*[A-Za-z_]\w*)*)", s)
        if not m:
            return None
        return re.split(r"\s*::\s*", m.group(1))[-1]

    def _fns(self):
        res = []
        for m in re.finditer(r"\bfn\s+([A-Za-z_]\w*)", self.code):
            b = self._body_after(m.end())
            if not b:
                continue
            # start of the item = start of the line holding `fn` (visibility / async / const qualifiers)
            ls = self.code.rfind("\n", 0, m.start()) + 1
            enc = [x for x in self.blocks if x["start"] < m.start() and x["end"] >= b[1] and x["kind"] in ("impl", "trait")]
            enc.sort(key=lambda x: x["start"])
            q = enc[-1] if enc else None
            res.append({"name": m.group(1), "start": ls, "body": b[0], "end": b[1],
                        "type": q["type"] if q else None, "trait": q["trait"] if q else None,
                        "line": self.pos(m.start())[0], "end_line": self.pos(b[1])[0]})
        for f in res:
            f["parent"] = None
            for g in res:
                if g is not f and g["start"] < f["start"] and g["end"] > f["end"]:
                    if f["parent"] is None or g["start"] > f["parent"]["start"]:
                        f["parent"] = g
        return res

    EXCL = [
        (r"#\s*\[\s*cfg\s*\(\s*eigerco_lumina_verif\s*\)\s*\]", "verif-hook"),
        (r"#\s*\[\s*cfg\s*\(\s*test\s*\)\s*\]", "cfg(test)"),
        (r"#\s*\[\s*cfg\s*\(\s*any\s*\(\s*test\s*,\s*feature\s*=\s*\"test-utils\"\s*\)\s*\)\s*\]", "test-utils"),
        (r"#\s*\[\s*cfg\s*\(\s*feature\s*=\s*\"test-utils\"\s*\)\s*\]", "test-utils"),
    ]

    def _excluded(self):
        res = []
        for rx, why in self.EXCL:
            # attributes contain a string literal in two cases: match on the raw source, check it is code
            for m in re.finditer(rx, self.src):
                if self.code[m.start()] != "#":
                    continue
                d, end = 0, None
                i = m.end()
                while i < len(self.code):
                    c = self.code[i]
                    if c in "([": d += 1
                    elif c in ")]": d -= 1
                    elif c == ";" and d == 0: end = i; break
                    elif c == "{" and d == 0: end = self._match.get(i, len(self.code) - 1); break
                    i += 1
                res.append((m.start(), end if end is not None else len(self.code), why))
        return res

    def is_excluded(self, off):
        return any(a <= off <= b for a, b, _ in self.excluded)

    def fn_label(self, f):
        q = f["type"]
        s = (q + "::" if q else "") + f["name"]
        if f["trait"]:
            s += f" [{f['trait']}]"
        return s


_rf_cache = {}

def rust_file(path):
    if path not in _rf_cache:
        _rf_cache[path] = RustFile(path)
    return _rf_cache[path]

# ----------------------------------------------------------------------------------------------
# anchors: files, mechanism -> functions
# ----------------------------------------------------------------------------------------------

def expand_files(patterns):
    out = []
    for p in patterns:
        full = os.path.join(REPO, p)
        hits = sorted(glob.glob(full)) if any(ch in p for ch in "*?[") else ([full] if os.path.isfile(full) else [])
        for h in hits:
            if os.path.basename(h) == "test_utils.rs":   # whole module is gated by feature "test-utils" in lib.rs
                continue
            if os.path.isfile(h) and h.endswith(".rs") and h not in out:
                out.append(h)
    return out


def load_overrides():
    if os.path.exists(OVERRIDES):
        return json.load(open(OVERRIDES))
    return {}


def find_fns(files, name, qual):
    hits = []
    for fp in files:
        rf = rust_file(fp)
        for f in rf.fns:
            if (name != "*" and f["name"] != name) or rf.is_excluded(f["start"]):
                continue
            if name == "*" and f["parent"] is not None:
                continue
            if qual and qual not in (f["type"], f["trait"]):
                continue
            hits.append((fp, f))
    return hits


def anchored_functions(prop, overrides):
    """[(file, fn dict, why)], unmatched mechanism strings"""
    a = prop["anchors"]
    all_files = expand_files(a["files"])
    ov = overrides.get(prop["id"], {})
    res, seen, unmatched = [], set(), []

    def add(fp, f, why):
        k = (fp, f["start"])
        if k not in seen:
            seen.add(k)
            res.append((fp, f, why))

    drop = set(ov.get("drop", []))
    for mech in a.get("mechanism", []):
        where = expand_files([mech.get("where", "")]) or all_files
        got, qual = False, None
        for tok in re.findall(r"[A-Za-z_]\w*(?:::[A-Za-z_]\w*)*", mech["name"]):
            parts = tok.split("::")
            name = parts[-1]
            q = parts[-2] if len(parts) > 1 else None
            if q:
                qual = q
            if name in drop or tok in drop:
                continue
            cands = None
            for files in (where, all_files):
                for qq in ([q] if q else [qual, None]):
                    if qq is None and q is None and not re.match(r"[a-z_][a-z0-9_]*$", name):
                        continue
                    h = find_fns(files, name, qq)
                    if h:
                        cands = h; break
                if cands:
                    break
            if not cands:
                continue
            # a bare lowercase word that names many unrelated fns (e.g. `new`, `hash`) is noise unless qualified
            if q is None and len(cands) > 3 and not any(c[1]["type"] == qual for c in cands):
                continue
            for fp, f in cands:
                add(fp, f, mech["name"])
                got = True
        if not got:
            unmatched.append(mech["name"])
    for ent in ov.get("exclude", []):
        for fp, f in find_fns(expand_files([ent[0]]), ent[1], ent[2] if len(ent) > 2 else None):
            seen.add((fp, f["start"]))
            res[:] = [x for x in res if not (x[0] == fp and x[1]["start"] == f["start"])]
    for ent in ov.get("add", []):
        fpat, name = ent[0], ent[1]
        qual = ent[2] if len(ent) > 2 else None
        h = find_fns(expand_files([fpat]), name, qual)
        if not h:
            unmatched.append(f"override {fpat}:{name} (not found)")
        for fp, f in h:
            add(fp, f, "hand list (tools/coverage_anchors.json)")
    return res, unmatched

# ----------------------------------------------------------------------------------------------
# llvm-cov export -> regions / lines
# ----------------------------------------------------------------------------------------------

def export(llvm_bin, binary, profdata, files):
    cmd = [os.path.join(llvm_bin, "llvm-cov"), "export", "-format=text", "-skip-expansions",
           "-instr-profile=" + profdata, binary] + files
    p = subprocess.run(cmd, stdout=subprocess.PIPE, stderr=subprocess.PIPE)
    if p.returncode != 0:
        raise RuntimeError("llvm-cov export failed: " + p.stderr.decode()[-2000:])
    return json.loads(p.stdout)["data"][0]


def file_regions(data):
    """{file: {(ls,cs,le,ce): max count}} over all function records (all instantiations), code regions only"""
    out = {}
    for fn in data.get("functions", []):
        names = fn["filenames"]
        for r in fn["regions"]:
            ls, cs, le, ce, cnt, fid, _efid, kind = r[:8]
            if kind != 0:
                continue
            fname = names[fid] if fid < len(names) else names[0]
            d = out.setdefault(fname, {})
            k = (ls, cs, le, ce)
            if cnt > d.get(k, -1):
                d[k] = cnt
    return out


def file_lines(data):
    """{file: {line: count}} for mapped (executable) lines, llvm-cov's own line rule over segments"""
    out = {}
    for f in data.get("files", []):
        segs = f["segments"]
        lines = {}
        by_line = {}
        for s in segs:
            by_line.setdefault(s[0], []).append(s)
        if not segs:
            out[f["filename"]] = lines
            continue
        wrapped = None
        last = segs[-1][0]
        for ln in range(segs[0][0], last + 1):
            here = by_line.get(ln, [])
            mapped = bool(wrapped and wrapped[3]) or any(s[3] and s[4] for s in here)
            # a line wholly inside a counted region, or on which a counted region starts
            cnt = 0
            if wrapped and wrapped[3]:
                cnt = wrapped[2]
            starts = [s for s in here if s[3] and s[4] and not s[5]]
            if starts:
                m = max(s[2] for s in starts)
                # llvm: if the line starts regions, use max of (wrapped count if the wrapped region continues, region entries)
                cnt = max(cnt, m) if (wrapped and wrapped[3]) else m
            if mapped and (starts or (wrapped and wrapped[3] and not wrapped[5])):
                lines[ln] = cnt
            if here:
                wrapped = here[-1]
        out[f["filename"]] = lines
    return out


def pct(c, t):
    return round(100.0 * c / t, 1) if t else None


def snippet(rf, ls, cs, le, ce, width=90):
    try:
        if ls == le:
            s = rf.lines[ls - 1][cs - 1:ce - 1]
        else:
            s = rf.lines[ls - 1][cs - 1:].rstrip() + " …"
        s = " ".join(s.split())
        if not s.strip():
            s = " ".join(rf.lines[ls - 1].split())
        return s[:width]
    except IndexError:
        return ""


def analyse_property(prop, overrides, data):
    a = prop["anchors"]
    files = expand_files(a["files"])
    regs, lns = file_regions(data), file_lines(data)
    fns, unmatched = anchored_functions(prop, overrides)
    res = {"files": [], "functions": [], "unmatched_mechanisms": unmatched, "never_entered": []}

    for fp in files:
        rf = rust_file(fp)
        r = {k: v for k, v in regs.get(fp, {}).items() if not rf.is_excluded(rf.off(k[0], k[1]))}
        l = {k: v for k, v in lns.get(fp, {}).items() if not rf.is_excluded(rf.off(k, 1 + len(rf.lines[k - 1]) - len(rf.lines[k - 1].lstrip())) if k - 1 < len(rf.lines) else 0)}
        rel = os.path.relpath(fp, REPO)
        res["files"].append({
            "file": rel,
            "regions": len(r), "regions_covered": sum(1 for v in r.values() if v > 0),
            "lines": len(l), "lines_covered": sum(1 for v in l.values() if v > 0),
            "instrumented": fp in regs,
        })
        res["files"][-1]["regions_pct"] = pct(res["files"][-1]["regions_covered"], len(r))
        res["files"][-1]["lines_pct"] = pct(res["files"][-1]["lines_covered"], len(l))
        # functions of the file never entered (outermost only)
        anchored_here = {f["start"] for (p, f, _) in fns if p == fp}
        for f in rf.fns:
            if f["parent"] is not None or rf.is_excluded(f["start"]):
                continue
            fr = [v for k, v in r.items() if f["start"] <= rf.off(k[0], k[1]) <= f["end"]]
            if fr and not any(v > 0 for v in fr):
                res["never_entered"].append({"file": rel, "fn": rf.fn_label(f), "line": f["line"],
                                             "regions": len(fr), "anchored": f["start"] in anchored_here})

    tot_r = tot_c = tot_l = tot_lc = tot_q = tot_qc = 0
    for fp, f, why in fns:
        rf = rust_file(fp)
        r = {k: v for k, v in regs.get(fp, {}).items()
             if f["start"] <= rf.off(k[0], k[1]) <= f["end"] and not rf.is_excluded(rf.off(k[0], k[1]))}
        l = {k: v for k, v in lns.get(fp, {}).items() if f["line"] <= k <= f["end_line"]}
        unc = sorted(k for k, v in r.items() if v == 0)
        # the error arm of a `?` is its own region (source text exactly `?`): mostly infrastructure errors
        # (redb I/O, closed channels) that no generated input can produce; reported separately
        isq = {k for k in r if snippet(rf, *k).strip() == "?"}
        nq_t = len(r) - len(isq)
        nq_c = sum(1 for k, v in r.items() if v > 0 and k not in isq)
        ent = {
            "file": os.path.relpath(fp, REPO), "fn": rf.fn_label(f), "line": f["line"], "end_line": f["end_line"],
            "mechanism": why,
            "regions": len(r), "regions_covered": len(r) - len(unc), "regions_pct": pct(len(r) - len(unc), len(r)),
            "lines": len(l), "lines_covered": sum(1 for v in l.values() if v > 0),
            "regions_noq": nq_t, "regions_noq_covered": nq_c,
            "uncovered": [{"at": f"{k[0]}:{k[1]}-{k[2]}:{k[3]}", "src": snippet(rf, *k)} for k in unc],
        }
        ent["lines_pct"] = pct(ent["lines_covered"], ent["lines"])
        # how much of the function rustc mapped at all: code lines of the source extent vs lines carrying a region.
        # Some bodies (seen on async fns such as syncer::Worker::fetch_next_batch) get regions only for the entry,
        # closures and inner async blocks; their percentages say little about the branches of the body.
        code_lines = sum(1 for ln in range(f["line"], f["end_line"] + 1)
                         if ln - 1 < len(rf.lines) and rf.code[rf.line_starts[ln - 1]:rf.line_starts[ln - 1] + len(rf.lines[ln - 1])].strip(" \t{}();,"))
        ent["source_code_lines"] = code_lines
        ent["sparse"] = bool(code_lines >= 12 and ent["lines"] < 0.4 * code_lines)
        res["functions"].append(ent)
        tot_r += len(r); tot_c += len(r) - len(unc); tot_l += ent["lines"]; tot_lc += ent["lines_covered"]
        tot_q += nq_t; tot_qc += nq_c
    res["anchored_total"] = {"regions": tot_r, "regions_covered": tot_c, "regions_pct": pct(tot_c, tot_r),
                             "regions_noq": tot_q, "regions_noq_covered": tot_qc, "regions_noq_pct": pct(tot_qc, tot_q),
                             "lines": tot_l, "lines_covered": tot_lc, "lines_pct": pct(tot_lc, tot_l)}
    fr = sum(x["regions"] for x in res["files"]); fc = sum(x["regions_covered"] for x in res["files"])
    fl = sum(x["lines"] for x in res["files"]); flc = sum(x["lines_covered"] for x in res["files"])
    res["files_total"] = {"regions": fr, "regions_covered": fc, "regions_pct": pct(fc, fr),
                          "lines": fl, "lines_covered": flc, "lines_pct": pct(flc, fl)}
    return res

# ----------------------------------------------------------------------------------------------
# report
# ----------------------------------------------------------------------------------------------

def fmt_pct(c, t):
    return "–" if not t else f"{100.0 * c / t:.0f} % ({c}/{t})"


def render(cov, baseline, reading):
    meta = cov["meta"]
    P = cov["properties"]
    o = []
    o.append("# Coverage of the anchored Rust code by the quick-tier correspondence runs\n")
    o.append("GENERATED by `tools/coverage.sh` (`tools/coverage.py report`) — do not edit outside the READING block; "
             "machine-readable copy: `design_notes/coverage.json`.\n")
    o.append(f"* measured: {meta['date']}; lumina `{meta['repo_head']}`; verif `{meta['verif_head']}`; "
             f"`{meta['rustc']}`; profile tools: `{meta['llvm_cov']}`")
    o.append("* run per property: `<bin> --seed 1 --tier quick --out <dir> [--corpus corpus/Cxx]` (what `./check Cxx` runs), "
             "instrumented crates: celestia-types, celestia-proto, celestia-grpc, lumina-node, lumina-utils, verif-harness")
    o.append("* counted: rustc code regions (both arms of every `if`/`match`/`?` are separate regions; stable rustc has no "
             "separate branch coverage) and lines, after removing `#[cfg(test)]`, `test-utils`-gated items and the "
             "`#[cfg(eigerco_lumina_verif)]` hook blocks; all monomorphisations merged")
    o.append("* **anchored fns** = functions named in `anchors.mechanism` of `properties.jsonl` that could be matched to a `fn` "
             "(closures/async blocks inside count towards it) plus the hand list `tools/coverage_anchors.json`; "
             "**files** = every file of `anchors.files`\n")
    o.append("<!-- READING:BEGIN -->")
    o.append(reading.strip("\n") if reading else "## Reading\n\n(to be written)")
    o.append("<!-- READING:END -->\n")

    o.append("## Summary\n")
    hdr = "| property | anchored fns | regions of anchored fns | same without bare `?` arms | lines of anchored fns | regions of anchored files | lines of anchored files | ops | run s |"
    sep = "|---|---|---|---|---|---|---|---|---|"
    if baseline:
        hdr = hdr + " before (anchored fn regions) |"
        sep += "---|"
    o += [hdr, sep]
    for pid in sorted(P):
        p = P[pid]
        if "error" in p:
            o.append(f"| {pid} | – | error: {p['error'][:80]} | | | | | | |" + (" |" if baseline else ""))
            continue
        at, ft = p["anchored_total"], p["files_total"]
        flag = " **LOW**" if at["regions"] and at["regions_pct"] < LOW else ""
        row = (f"| {pid} | {len(p['functions'])} | {fmt_pct(at['regions_covered'], at['regions'])}{flag} | "
               f"{fmt_pct(at.get('regions_noq_covered', 0), at.get('regions_noq', 0))} | "
               f"{fmt_pct(at['lines_covered'], at['lines'])} | {fmt_pct(ft['regions_covered'], ft['regions'])} | "
               f"{fmt_pct(ft['lines_covered'], ft['lines'])} | {p.get('ops', '')} | {p.get('run_seconds', '')} |")
        if baseline:
            b = baseline.get("properties", {}).get(pid, {}).get("anchored_total")
            cell = ""
            if b and (b["regions_covered"], b["regions"]) != (at["regions_covered"], at["regions"]):
                cell = fmt_pct(b["regions_covered"], b["regions"])
            row += f" {cell} |"
        o.append(row)
    o.append("")

    for pid in sorted(P):
        p = P[pid]
        o.append(f"## {pid} — {p['title']}\n")
        if "error" in p:
            o.append(f"error: {p['error']}\n")
            continue
        o.append("| file | regions | lines |")
        o.append("|---|---|---|")
        for f in p["files"]:
            note = "" if f["instrumented"] else " (no instrumented code reached the binary: proc-macro / not linked)"
            o.append(f"| `{f['file']}`{note} | {fmt_pct(f['regions_covered'], f['regions'])} | {fmt_pct(f['lines_covered'], f['lines'])} |")
        o.append("")
        if p["functions"]:
            o.append("| anchored function | regions | lines | uncovered regions (line:col source) |")
            o.append("|---|---|---|---|")
            for f in sorted(p["functions"], key=lambda x: (x["file"], x["line"])):
                unc = f["uncovered"]
                cells = [f"{u['at'].split('-')[0]} `{u['src'].replace('|', '¦').replace('`', chr(39))[:70]}`" for u in unc[:8]]
                if len(unc) > 8:
                    cells.append(f"… +{len(unc) - 8} more")
                sp = f" **sparse: rustc mapped {f['lines']} of {f.get('source_code_lines')} code lines**" if f.get("sparse") else ""
                o.append(f"| `{f['fn']}` ({f['file']}:{f['line']}){sp} | {fmt_pct(f['regions_covered'], f['regions'])} | "
                         f"{fmt_pct(f['lines_covered'], f['lines'])} | {'<br>'.join(cells)} |")
            o.append("")
        if p["unmatched_mechanisms"]:
            o.append("Mechanism strings with no matching `fn` (file-level numbers only): "
                     + "; ".join(f"“{m}”" for m in p["unmatched_mechanisms"]) + "\n")
        ne = p["never_entered"]
        if ne:
            byf = {}
            for x in ne:
                byf.setdefault(x["file"], []).append(("**" + x["fn"] + "**") if x["anchored"] else x["fn"])
            o.append("Functions of the anchored files never entered (anchored ones bold): "
                     + "; ".join(f"`{k}`: " + ", ".join(v[:40]) + (f", … +{len(v) - 40}" if len(v) > 40 else "") for k, v in byf.items()) + "\n")
    return "\n".join(o) + "\n"


def git_head(d):
    try:
        return subprocess.run(["git", "-C", d, "rev-parse", "--short", "HEAD"], stdout=subprocess.PIPE).stdout.decode().strip()
    except Exception:
        return "?"


def main():
    ap = argparse.ArgumentParser()
    ap.add_argument("cmd", choices=["anchors", "report", "render"])
    ap.add_argument("--cov", default=os.path.join(VERIF, ".work", "cov"))
    ap.add_argument("--llvm-bin")
    ap.add_argument("--target", default=os.path.join(VERIF, ".work", "target-cov"))
    ap.add_argument("--only")
    ap.add_argument("--baseline", default=os.path.join(NOTES, "coverage.baseline.json"))
    ap.add_argument("--out-json", default=os.path.join(NOTES, "coverage.json"))
    ap.add_argument("--out-md", default=os.path.join(NOTES, "COVERAGE.md"))
    a = ap.parse_args()

    props = {}
    for l in open(os.path.join(VERIF, "properties.jsonl")):
        if l.strip():
            p = json.loads(l); props[p["id"]] = p
    claimed = sorted(json.load(open(f))["property_id"] for f in glob.glob(os.path.join(VERIF, "registry", "C*.json"))
                     if json.load(open(f)).get("claimed"))
    only = a.only.split(",") if a.only else None
    overrides = load_overrides()

    if a.cmd == "anchors":
        for pid in claimed:
            if only and pid not in only: continue
            fns, un = anchored_functions(props[pid], overrides)
            print(pid)
            for fp, f, why in fns:
                print(f"   {os.path.relpath(fp, REPO)}:{f['line']}-{f['end_line']}  {rust_file(fp).fn_label(f)}    <- {why[:60]}")
            for u in un:
                print(f"   UNMATCHED: {u}")
        return

    md_old = open(a.out_md).read() if os.path.exists(a.out_md) else ""
    m = re.search(r"<!-- READING:BEGIN -->\n(.*?)<!-- READING:END -->", md_old, re.S)
    reading = m.group(1) if m else ""
    baseline = json.load(open(a.baseline)) if os.path.exists(a.baseline) else None

    if a.cmd == "render":
        cov = json.load(open(a.out_json))
        open(a.out_md, "w").write(render(cov, baseline, reading))
        return

    # report: merge into an existing coverage.json when --only is given
    cov = {"meta": {}, "properties": {}}
    if only and os.path.exists(a.out_json):
        cov = json.load(open(a.out_json))
    runinfo = {}
    ri = os.path.join(a.cov, "runs.json")
    if os.path.exists(ri):
        runinfo = json.load(open(ri))
    cov["meta"].update({
        "date": time.strftime("%Y-%m-%d"), "repo_head": git_head(REPO), "verif_head": git_head(VERIF),
        "rustc": subprocess.run(["rustc", "+stable", "-V"], stdout=subprocess.PIPE).stdout.decode().strip(),
        "llvm_cov": subprocess.run([os.path.join(a.llvm_bin, "llvm-cov"), "--version"], stdout=subprocess.PIPE).stdout.decode().split("\n")[1].strip()
                    + " (" + a.llvm_bin + ")",
        "low_threshold_pct": LOW,
    })
    for pid in claimed:
        if only and pid not in only: continue
        prop = props[pid]
        ent = {"title": prop["title"]}
        binary = os.path.join(a.target, "debug", pid.lower())
        profdata = os.path.join(a.cov, "prof", pid + ".profdata")
        try:
            if not os.path.exists(profdata):
                raise RuntimeError("no profile (harness run failed?) " + str(runinfo.get(pid, "")))
            data = export(a.llvm_bin, binary, profdata, expand_files(prop["anchors"]["files"]))
            ent.update(analyse_property(prop, overrides, data))
        except Exception as e:  # noqa
            ent["error"] = str(e)
        ent.update({k: v for k, v in runinfo.get(pid, {}).items() if k in ("ops", "run_seconds", "harness_rc")})
        cov["properties"][pid] = ent
        at = ent.get("anchored_total", {})
        print(f"[coverage] {pid}: anchored fns {len(ent.get('functions', []))} regions {at.get('regions_pct')} % "
              f"files regions {ent.get('files_total', {}).get('regions_pct')} % {ent.get('error', '')}", flush=True)
    json.dump(cov, open(a.out_json, "w"), indent=1, sort_keys=True)
    open(a.out_md, "w").write(render(cov, baseline, reading))


if __name__ == "__main__":
    main()

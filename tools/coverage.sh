#!/bin/bash
# Source-based coverage of the ANCHORED Rust code by each property's quick-tier correspondence run.
#
#   tools/coverage.sh                      all claimed properties: build, run, merge, report, clean up
#   tools/coverage.sh --only C11,C30       subset (report entries of the others are kept)
#   tools/coverage.sh --keep               keep .work/target-cov and the raw profiles (several GB) for a re-run
#   tools/coverage.sh --no-build           reuse the kept instrumented binaries
#   tools/coverage.sh --save-baseline      also copy the resulting coverage.json to coverage.baseline.json
#                                          (the "before" column of later reports)
#
# Output: design_notes/COVERAGE.md + design_notes/coverage.json (tools/coverage.py does the analysis).
#
# How: the harness is built into ITS OWN target dir (.work/target-cov; harness/target is not touched) with
# the stable toolchain and RUSTC_WRAPPER=tools/cov_rustc_wrapper.sh, which adds `-C instrument-coverage`
# to lumina's crates and the harness only (third-party crates, build scripts and proc-macros stay
# uninstrumented).  The harness's own .cargo/config.toml still supplies `--cfg eigerco_lumina_verif`
# (RUSTFLAGS is deliberately NOT set: it would override build.rustflags).  Each property's binary is run
# exactly as ./check runs it for the quick tier, with its own LLVM_PROFILE_FILE.  Profiles are merged and
# exported with an llvm-profdata/llvm-cov that understands the stable compiler's profile format: the first
# of the installed rustup toolchains' llvm-tools that merges a probe profile written by `rustc +stable`.
set -u
VERIF=/verif
HARNESS=$VERIF/harness
COV=$VERIF/.work/cov
TARGET=$VERIF/.work/target-cov
ONLY=""; KEEP=0; BUILD=1; SAVEBASE=0; SEED=1; TIER=quick
while [ $# -gt 0 ]; do
  case "$1" in
    --only) ONLY="$2"; shift ;;
    --keep) KEEP=1 ;;
    --no-build) BUILD=0 ;;
    --save-baseline) SAVEBASE=1 ;;
    --seed) SEED="$2"; shift ;;
    *) echo "unknown argument $1" >&2; exit 2 ;;
  esac
  shift
done
mkdir -p "$COV/prof" "$COV/run"

# ---- 1. llvm tools matching the stable compiler -------------------------------------------------------
probe=$COV/probe; rm -rf "$probe"; mkdir -p "$probe"
printf 'fn main(){ if std::env::args().count()>5 { println!("x") } }\n' > "$probe/p.rs"
( cd "$probe" && rustc +stable -C instrument-coverage p.rs -o p 2>/dev/null && LLVM_PROFILE_FILE=$probe/p.profraw ./p )
LLVM_BIN=""
for d in "$HOME"/.rustup/toolchains/stable-*/lib/rustlib/*/bin "$HOME"/.rustup/toolchains/*/lib/rustlib/*/bin /usr/lib/llvm-*/bin /usr/bin; do
  [ -x "$d/llvm-profdata" ] && [ -x "$d/llvm-cov" ] || continue
  if "$d/llvm-profdata" merge -sparse "$probe/p.profraw" -o "$probe/p.profdata" 2>/dev/null \
     && "$d/llvm-cov" export "$probe/p" -instr-profile="$probe/p.profdata" >/dev/null 2>&1; then
    LLVM_BIN=$d; break
  fi
done
if [ -z "$LLVM_BIN" ]; then
  echo "[coverage] no installed llvm-profdata/llvm-cov can read profiles of $(rustc +stable -V)" >&2; exit 3
fi
echo "[coverage] compiler: $(rustc +stable -V); llvm tools: $LLVM_BIN ($("$LLVM_BIN/llvm-cov" --version | sed -n 2p | xargs))"

# ---- 2. claimed properties ---------------------------------------------------------------------------
PIDS=$(python3 - "$ONLY" <<'PY'
import json, glob, sys
only = sys.argv[1].split(",") if sys.argv[1] else None
ids = sorted(json.load(open(f))["property_id"] for f in glob.glob("/verif/registry/C*.json") if json.load(open(f)).get("claimed"))
print(" ".join(i for i in ids if not only or i in only))
PY
)

# ---- 3. instrumented build ---------------------------------------------------------------------------
if [ $BUILD = 1 ]; then
  bins=""; for p in $PIDS; do bins="$bins --bin $(echo "$p" | tr A-Z a-z)"; done
  echo "[coverage] building instrumented harness into $TARGET"
  ( cd "$HARNESS" && env -u RUSTFLAGS CARGO_TARGET_DIR="$TARGET" RUSTC_WRAPPER=$VERIF/tools/cov_rustc_wrapper.sh \
      LLVM_PROFILE_FILE="$COV/prof/build-%p.profraw" cargo +stable build --offline $bins ) > "$COV/build.log" 2>&1
  rc=$?
  tail -2 "$COV/build.log"
  [ $rc = 0 ] || { echo "[coverage] build failed, see $COV/build.log" >&2; exit 4; }
fi

# ---- 4. run every property exactly as ./check does (quick tier), one profile set per property ----------
for p in $PIDS; do
  b=$TARGET/debug/$(echo "$p" | tr A-Z a-z)
  w=$COV/run/$p; rm -rf "$w"; mkdir -p "$w"; rm -f "$COV"/prof/"$p"-*.profraw "$COV/prof/$p.profdata"
  args="--seed $SEED --tier $TIER --out $w"
  [ -d "$VERIF/corpus/$p" ] && args="$args --corpus $VERIF/corpus/$p"
  s=$(date +%s.%N)
  LLVM_PROFILE_FILE="$COV/prof/$p-%p-%m.profraw" timeout 3600 "$b" $args > "$w/harness.out" 2>&1
  rc=$?
  e=$(date +%s.%N)
  "$LLVM_BIN/llvm-profdata" merge -sparse "$COV"/prof/"$p"-*.profraw -o "$COV/prof/$p.profdata" 2> "$w/merge.err" || rc="$rc/merge-failed"
  python3 - "$p" "$rc" "$s" "$e" "$w" "$COV/runs.json" <<'PY'
import json, os, sys
p, rc, s, e, w, out = sys.argv[1:]
d = json.load(open(out)) if os.path.exists(out) else {}
ops = None
try:
    ops = json.load(open(os.path.join(w, "stats.json"))).get("evaluations")
except Exception:
    pass
d[p] = {"harness_rc": rc, "run_seconds": round(float(e) - float(s), 1), "ops": ops}
json.dump(d, open(out, "w"), indent=1, sort_keys=True)
print(f"[coverage] ran {p}: rc={rc} ops={ops} {d[p]['run_seconds']}s")
PY
done

# ---- 5. report ---------------------------------------------------------------------------------------
python3 $VERIF/tools/coverage.py report --cov "$COV" --llvm-bin "$LLVM_BIN" --target "$TARGET" ${ONLY:+--only "$ONLY"} || exit 5
[ $SAVEBASE = 1 ] && cp $VERIF/design_notes/coverage.json $VERIF/design_notes/coverage.baseline.json

# ---- 6. clean up (several GB) ------------------------------------------------------------------------
if [ $KEEP = 0 ]; then
  rm -rf "$TARGET" "$COV/prof" "$COV/run" "$COV/probe"
  echo "[coverage] removed $TARGET and the raw profiles"
fi
echo "[coverage] wrote design_notes/COVERAGE.md and design_notes/coverage.json"

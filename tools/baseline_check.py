#!/usr/bin/env python3
"""Compare a nextest junit.xml (guard OFF run of /repo's suite) with /root/.vp/BASELINE.json:
every test in BASELINE's stable_pass list must pass.  usage: baseline_check.py junit.xml"""
import ast, json, sys
import xml.etree.ElementTree as ET

b = json.load(open("/root/.vp/BASELINE.json"))
stable = b["stable_pass"]
if isinstance(stable, str):
    stable = ast.literal_eval(stable)
stable = set(stable)
root = ET.parse(sys.argv[1]).getroot()
res = {}
for tc in root.iter("testcase"):
    tid = f"{tc.get('classname')}::{tc.get('name')}"
    ok = tc.find("failure") is None and tc.find("error") is None
    res[tid] = ok
missing = sorted(t for t in stable if t not in res)
failed = sorted(t for t in stable if t in res and not res[t])
print(f"stable baseline tests: {len(stable)}; ran: {len(res)}; stable passed: {sum(1 for t in stable if res.get(t))}")
print(f"stable tests FAILED now ({len(failed)}):")
for t in failed:
    print("  ", t)
print(f"stable tests MISSING from run ({len(missing)}):")
for t in missing[:20]:
    print("  ", t)
sys.exit(1 if failed or missing else 0)

#!/bin/sh
# RUSTC_WRAPPER used by tools/coverage.sh: cargo calls `<wrapper> <rustc> <args…>`.
# Adds `-C instrument-coverage` ONLY to lumina's own library crates and to the verif harness
# (lib + bins; generic/inlined lumina functions are monomorphised there), never to third-party
# dependencies, build scripts or proc-macros (those would run instrumented at compile time and
# drop *.profraw files into /repo).
rustc="$1"; shift
case "${CARGO_PKG_NAME:-}" in
  celestia-types|celestia-proto|celestia-grpc|lumina-node|lumina-utils|verif-harness)
    for a in "$@"; do
      case "$a" in
        build_script_*|proc-macro) exec "$rustc" "$@" ;;
      esac
    done
    exec "$rustc" "$@" -C instrument-coverage
    ;;
esac
exec "$rustc" "$@"

//! Helpers shared by the group-D property binaries (C04, C05, C06): seeded ODS/EDS generation with the
//! real codec, line formats for squares, roots and NMT proofs, error canonicalisation.
//! Included with `#[path = "../d_common.rs"] mod d_common;`.
#![allow(dead_code)]

use celestia_types::consts::appconsts::SHARE_SIZE;
use celestia_types::nmt::{NS_SIZE, Namespace, NamespaceProof, NamespacedHash, NamespacedHashExt, NamespacedSha2Hasher};
use celestia_types::{AppVersion, DataAvailabilityHeader, Error, ExtendedDataSquare, Share};
use nmt_rs::simple_merkle::proof::Proof as NmtProof;
use verif_harness::*;

pub type NmtNamespaceProof = nmt_rs::nmt_proof::NamespaceProof<NamespacedSha2Hasher, NS_SIZE>;

pub const HEIGHT: u64 = 7;

/// a valid v0 namespace with `n` random trailing id bytes
pub fn user_ns(rng: &mut Rng) -> Namespace {
    let n = rng.usize(1, 10);
    let mut id = vec![0u8; 10];
    for b in id.iter_mut().skip(10 - n) {
        *b = rng.byte();
    }
    // keep it above the primary reserved range so that it sorts after PFB/TX
    if id[..9].iter().all(|b| *b == 0) {
        id[8] = 1;
    }
    Namespace::new_v0(&id).unwrap()
}

/// one ODS share: namespace ‖ info byte (version 0, random sequence-start bit) ‖ random payload
pub fn ods_share(rng: &mut Rng, ns: &Namespace) -> Vec<u8> {
    let mut s = Vec::with_capacity(SHARE_SIZE);
    s.extend_from_slice(ns.as_bytes());
    s.push(rng.below(2) as u8);
    s.extend_from_slice(&rng.bytes(SHARE_SIZE - NS_SIZE - 1));
    s
}

/// `k*k` ODS shares whose namespaces are non-decreasing in row-major order (hence sorted along every row
/// and every column): reserved namespaces first, then 1..many user namespaces in runs of random length,
/// then (sometimes) tail padding.  Returns the shares and the distinct namespaces used.
pub fn gen_ods(rng: &mut Rng, k: usize) -> (Vec<Vec<u8>>, Vec<Namespace>) {
    gen_ods_users(rng, k, None)
}

/// S10 size-threshold stress: as [`gen_ods`], with the number of user namespaces given (`Some(n)`: up to one
/// namespace per share, i.e. `k` distinct namespaces in one row; `None`: the default 1..9 for the whole square)
pub fn gen_ods_users(rng: &mut Rng, k: usize, users: Option<usize>) -> (Vec<Vec<u8>>, Vec<Namespace>) {
    let total = k * k;
    let mut nss: Vec<Namespace> = vec![];
    if rng.chance(2, 3) {
        nss.push(Namespace::TRANSACTION);
    }
    if rng.chance(2, 3) {
        nss.push(Namespace::PAY_FOR_BLOB);
    }
    if rng.chance(1, 3) {
        nss.push(Namespace::PRIMARY_RESERVED_PADDING);
    }
    let users = match users {
        Some(n) => n.max(1),
        None => rng.usize(1, (total / 2).clamp(1, 9)),
    };
    let mut us: Vec<Namespace> = (0..users).map(|_| user_ns(rng)).collect();
    us.sort();
    us.dedup();
    nss.extend(us);
    if rng.chance(1, 2) {
        nss.push(Namespace::TAIL_PADDING);
    }
    if nss.len() > total {
        nss.truncate(total);
    }
    // run lengths: every namespace at least one share, the rest distributed at random
    let mut runs = vec![1usize; nss.len()];
    for _ in 0..(total - nss.len()) {
        let i = rng.usize(0, nss.len() - 1);
        runs[i] += 1;
    }
    let mut shares = Vec::with_capacity(total);
    for (ns, n) in nss.iter().zip(runs.iter()) {
        for _ in 0..*n {
            shares.push(ods_share(rng, ns));
        }
    }
    (shares, nss)
}

pub fn app() -> AppVersion {
    AppVersion::latest()
}

/// extended square through the real `ExtendedDataSquare::from_ods` (real leopard codec)
pub fn gen_eds(rng: &mut Rng, eds_width: usize) -> (ExtendedDataSquare, Vec<Namespace>) {
    gen_eds_users(rng, eds_width, None)
}

/// S10: as [`gen_eds`] with the number of user namespaces given (see [`gen_ods_users`])
pub fn gen_eds_users(rng: &mut Rng, eds_width: usize, users: Option<usize>) -> (ExtendedDataSquare, Vec<Namespace>) {
    let (ods, nss) = gen_ods_users(rng, eds_width / 2, users);
    (ExtendedDataSquare::from_ods(ods, app()).expect("generated ODS must extend"), nss)
}

/// `eds w=<width> data=<share>,<share>,…` (row-major raw shares)
pub fn eds_line(eds: &ExtendedDataSquare) -> String {
    let raw: Vec<Vec<u8>> = eds.data_square().iter().map(|s| s.to_vec()).collect();
    format!("eds w={} data={}", eds.square_width(), hxl(&raw))
}

pub fn parse_eds_line(line: &str) -> Option<ExtendedDataSquare> {
    let shares = unhxl(arg(line, "data")?)?;
    ExtendedDataSquare::new(shares, "Leopard".to_string(), app()).ok()
}

pub fn nh(h: &NamespacedHash) -> Vec<u8> {
    h.to_vec()
}

/// `ok rows=<90-byte roots> cols=<…>`
pub fn dah_line(dah: &DataAvailabilityHeader) -> String {
    let rows: Vec<Vec<u8>> = dah.row_roots().iter().map(nh).collect();
    let cols: Vec<Vec<u8>> = dah.column_roots().iter().map(nh).collect();
    format!("ok rows={} cols={}", hxl(&rows), hxl(&cols))
}

/// fields of a proof: `start=.. end=.. nodes=.. ign=0|1 leaf=<hex|->`
pub fn proof_fields(p: &NamespaceProof) -> String {
    let nodes: Vec<Vec<u8>> = p.siblings().iter().map(nh).collect();
    format!(
        "start={} end={} nodes={} ign={} leaf={}",
        p.start_idx(),
        p.end_idx(),
        hxl(&nodes),
        p.max_ns_ignored() as u8,
        p.leaf().map(|l| hx(&nh(l))).unwrap_or_else(|| "-".into()),
    )
}

/// build a proof value directly (bypassing the wire format): all nodes must be 90 bytes.
/// `absent`: 0 = presence, 1 = absence with `leaf` (90 bytes), 2 = absence without leaf.
pub fn build_proof(start: u32, end: u32, nodes: &[Vec<u8>], ign: bool, absent: u8, leaf: &[u8]) -> Option<NamespaceProof> {
    let siblings: Option<Vec<NamespacedHash>> = nodes.iter().map(|n| NamespacedHash::from_raw(n).ok()).collect();
    let proof = NmtProof { siblings: siblings?, range: start..end };
    let p = match absent {
        0 => NmtNamespaceProof::PresenceProof { proof, ignore_max_ns: ign },
        1 => NmtNamespaceProof::AbsenceProof { proof, ignore_max_ns: ign, leaf: Some(NamespacedHash::from_raw(leaf).ok()?) },
        _ => NmtNamespaceProof::AbsenceProof { proof, ignore_max_ns: ign, leaf: None },
    };
    Some(p.into())
}

pub fn proof_from_line(line: &str) -> Option<NamespaceProof> {
    let start = arg_u64(line, "start")? as u32;
    let end = arg_u64(line, "end")? as u32;
    let nodes = unhxl(arg(line, "nodes")?)?;
    let ign = arg_u64(line, "ign")? == 1;
    let leaf = arg_hex(line, "leaf")?;
    let absent = arg_u64(line, "absent").unwrap_or(if leaf.is_empty() { 0 } else { 1 }) as u8;
    build_proof(start, end, &nodes, ign, absent, &leaf)
}

pub fn share_of(data: &[u8], parity: bool) -> Option<Share> {
    if parity { Share::parity(data).ok() } else { Share::from_raw(data).ok() }
}

/// canonical error kind: the variant name, for `RangeProofError` the inner variant name too
pub fn err_kind(e: &Error) -> String {
    match e {
        Error::RangeProofError(r) => {
            let d = format!("{r:?}");
            let v = d.split(['(', ' ', '{']).next().unwrap_or("").to_string();
            format!("RangeProofError:{v}")
        }
        Error::UnsupportedNamespaceVersion(n) => format!("UnsupportedNamespaceVersion({n})"),
        other => {
            let d = format!("{other:?}");
            d.split(['(', ' ', '{']).next().unwrap_or("").to_string()
        }
    }
}

pub fn res_line(r: Result<(), Error>) -> String {
    match r {
        Ok(()) => "ok".into(),
        Err(e) => format!("err {}", err_kind(&e)),
    }
}

/// a random well-formed 90-byte namespaced hash with `min <= max`
pub fn random_node(rng: &mut Rng) -> Vec<u8> {
    let mut a = user_ns(rng);
    let mut b = user_ns(rng);
    if a > b {
        std::mem::swap(&mut a, &mut b);
    }
    let mut v = a.as_bytes().to_vec();
    v.extend_from_slice(b.as_bytes());
    v.extend_from_slice(&rng.bytes(32));
    v
}

/// a 90-byte namespaced hash with `min > max`
pub fn unordered_node(rng: &mut Rng) -> Vec<u8> {
    let mut a = user_ns(rng);
    let mut b = user_ns(rng);
    while a == b {
        b = user_ns(rng);
    }
    if a < b {
        std::mem::swap(&mut a, &mut b);
    }
    let mut v = a.as_bytes().to_vec();
    v.extend_from_slice(b.as_bytes());
    v.extend_from_slice(&rng.bytes(32));
    v
}

//! Shared by the C01/C02/C03 binaries (included with `#[path]`, not part of the library):
//! line-protocol forms of validator sets and commits, conversion to the real tendermint /
//! celestia types, signing, and the signature oracle (computed with the real
//! `verify_signature` over the real `vote_sign_bytes`).
#![allow(dead_code)]

use celestia_types::block::CommitExt;
use ed25519_consensus::SigningKey;
use tendermint::block::{Commit, CommitSig, Id as BlockId, parts};
use tendermint::crypto::default::signature::Verifier;
use tendermint::validator::{Info, Set};
use tendermint::{Hash, PublicKey, Signature, Time, account, chain, vote};
use verif_harness::*;

pub const MAX_TOTAL_VOTING_POWER: u64 = (i64::MAX / 8) as u64;

#[derive(Clone, Debug, PartialEq, Eq)]
pub struct LVal {
    pub pk: Vec<u8>,
    pub addr: Vec<u8>,
    pub power: u64,
}

#[derive(Clone, Debug, PartialEq, Eq)]
pub struct LSet {
    pub vals: Vec<LVal>,
    pub total: u64,
    /// built with the struct literal (pub fields) instead of `Set::new`
    pub raw: bool,
    pub prop: bool,
}

/// flag: 0 absent, 1 nil, 2 commit
#[derive(Clone, Debug, PartialEq, Eq)]
pub struct LSig {
    pub flag: u8,
    pub addr: Vec<u8>,
    pub ts: i128,
    pub sig: Option<Vec<u8>>,
}

#[derive(Clone, Debug, PartialEq, Eq)]
pub struct LCommit {
    pub height: u64,
    pub round: u32,
    pub bid: Option<Vec<u8>>,
    pub pst: u32,
    pub psh: Option<Vec<u8>>,
    pub sigs: Vec<LSig>,
}

pub fn key_from(rng: &mut Rng) -> SigningKey {
    let b: [u8; 32] = rng.bytes(32).try_into().unwrap();
    SigningKey::from(b)
}

pub fn pk_of(k: &SigningKey) -> Vec<u8> {
    k.verification_key().to_bytes().to_vec()
}

pub fn addr_of_pk(pk: &[u8]) -> Vec<u8> {
    let p = PublicKey::from_raw_ed25519(pk).expect("valid ed25519 key");
    account::Id::from(p).as_bytes().to_vec()
}

pub fn time_of(ns: i128) -> Time {
    let secs = ns.div_euclid(1_000_000_000) as i64;
    let nanos = ns.rem_euclid(1_000_000_000) as u32;
    Time::from_unix_timestamp(secs, nanos).expect("time in range")
}

pub fn hash_of(b: &Option<Vec<u8>>) -> Hash {
    match b {
        Some(x) => Hash::Sha256(x.clone().try_into().expect("32-byte hash")),
        None => Hash::None,
    }
}

pub fn hash_bytes(h: &Hash) -> Option<Vec<u8>> {
    match h {
        Hash::Sha256(b) => Some(b.to_vec()),
        Hash::None => None,
    }
}

pub fn ohx(b: &Option<Vec<u8>>) -> String {
    match b {
        Some(x) => hex::encode(x),
        None => "-".into(),
    }
}

pub fn unohx(s: &str) -> Option<Option<Vec<u8>>> {
    if s == "-" { Some(None) } else { hex::decode(s).ok().map(Some) }
}

// ---------- line forms ----------

pub fn fmt_set(s: &LSet, pre: &str) -> String {
    let vals = if s.vals.is_empty() {
        "-".to_string()
    } else {
        s.vals
            .iter()
            .map(|v| format!("{}:{}:{}", hex::encode(&v.pk), hex::encode(&v.addr), v.power))
            .collect::<Vec<_>>()
            .join(",")
    };
    format!("{pre}vals={vals} {pre}total={} {pre}raw={} {pre}prop={}", s.total, s.raw as u8, s.prop as u8)
}

pub fn parse_set(line: &str, pre: &str) -> Option<LSet> {
    let vs = arg(line, &format!("{pre}vals"))?;
    let mut vals = vec![];
    if vs != "-" {
        for item in vs.split(',') {
            let p: Vec<&str> = item.split(':').collect();
            if p.len() != 3 {
                return None;
            }
            vals.push(LVal { pk: hex::decode(p[0]).ok()?, addr: hex::decode(p[1]).ok()?, power: p[2].parse().ok()? });
        }
    }
    Some(LSet {
        vals,
        total: arg_u64(line, &format!("{pre}total"))?,
        raw: arg_u64(line, &format!("{pre}raw"))? == 1,
        prop: arg_u64(line, &format!("{pre}prop"))? == 1,
    })
}

pub fn fmt_commit(c: &LCommit, pre: &str) -> String {
    let sigs = if c.sigs.is_empty() {
        "-".to_string()
    } else {
        c.sigs
            .iter()
            .map(|s| {
                if s.flag == 0 {
                    "0".to_string()
                } else {
                    format!("{}:{}:{}:{}", s.flag, hex::encode(&s.addr), s.ts, ohx(&s.sig))
                }
            })
            .collect::<Vec<_>>()
            .join(",")
    };
    format!(
        "{pre}ch={} {pre}round={} {pre}bid={} {pre}pst={} {pre}psh={} {pre}sigs={sigs}",
        c.height,
        c.round,
        ohx(&c.bid),
        c.pst,
        ohx(&c.psh)
    )
}

pub fn parse_commit(line: &str, pre: &str) -> Option<LCommit> {
    let ss = arg(line, &format!("{pre}sigs"))?;
    let mut sigs = vec![];
    if ss != "-" {
        for item in ss.split(',') {
            if item == "0" {
                sigs.push(LSig { flag: 0, addr: vec![], ts: 0, sig: None });
                continue;
            }
            let p: Vec<&str> = item.split(':').collect();
            if p.len() != 4 {
                return None;
            }
            let flag: u8 = p[0].parse().ok()?;
            if flag != 1 && flag != 2 {
                return None;
            }
            sigs.push(LSig { flag, addr: hex::decode(p[1]).ok()?, ts: p[2].parse().ok()?, sig: unohx(p[3])? });
        }
    }
    Some(LCommit {
        height: arg_u64(line, &format!("{pre}ch"))?,
        round: arg_u64(line, &format!("{pre}round"))? as u32,
        bid: unohx(arg(line, &format!("{pre}bid"))?)?,
        pst: arg_u64(line, &format!("{pre}pst"))? as u32,
        psh: unohx(arg(line, &format!("{pre}psh"))?)?,
        sigs,
    })
}

// ---------- to the real types ----------

pub fn to_info(v: &LVal) -> Info {
    Info {
        address: account::Id::new(v.addr.clone().try_into().expect("20-byte address")),
        pub_key: PublicKey::from_raw_ed25519(&v.pk).expect("valid ed25519 key"),
        power: vote::Power::try_from(v.power).expect("power fits i64"),
        name: None,
        proposer_priority: 0_i64.into(),
    }
}

pub fn to_set(s: &LSet) -> Set {
    let infos: Vec<Info> = s.vals.iter().map(to_info).collect();
    let proposer = if s.prop { infos.first().cloned().or_else(|| Some(dummy_info())) } else { None };
    if s.raw {
        Set { validators: infos, proposer, total_voting_power: vote::Power::try_from(s.total).expect("total fits i64") }
    } else {
        Set::new(infos, proposer)
    }
}

fn dummy_info() -> Info {
    let k = SigningKey::from([7u8; 32]);
    let pk = pk_of(&k);
    to_info(&LVal { addr: addr_of_pk(&pk), pk, power: 1 })
}

/// the line form of a real set (order as stored, total as stored)
pub fn of_set(s: &Set, raw: bool) -> LSet {
    LSet {
        vals: s
            .validators()
            .iter()
            .map(|i| LVal { pk: i.pub_key.to_bytes(), addr: i.address.as_bytes().to_vec(), power: i.power() })
            .collect(),
        total: s.total_voting_power().value(),
        raw,
        prop: s.proposer().is_some(),
    }
}

pub fn to_commit(c: &LCommit) -> Commit {
    Commit {
        height: c.height.try_into().expect("height fits i64"),
        round: c.round.try_into().expect("round fits i32"),
        block_id: BlockId {
            hash: hash_of(&c.bid),
            part_set_header: parts::Header::new(c.pst, hash_of(&c.psh)).expect("part set header"),
        },
        signatures: c
            .sigs
            .iter()
            .map(|s| {
                let validator_address = if s.flag == 0 {
                    account::Id::new([0; 20])
                } else {
                    account::Id::new(s.addr.clone().try_into().expect("20-byte address"))
                };
                let signature = s.sig.as_ref().map(|b| Signature::new(b).expect("64 bytes").expect("non-empty"));
                match s.flag {
                    0 => CommitSig::BlockIdFlagAbsent,
                    1 => CommitSig::BlockIdFlagNil { validator_address, timestamp: time_of(s.ts), signature },
                    _ => CommitSig::BlockIdFlagCommit { validator_address, timestamp: time_of(s.ts), signature },
                }
            })
            .collect(),
    }
}

pub fn of_commit(c: &Commit) -> LCommit {
    LCommit {
        height: c.height.value(),
        round: c.round.value(),
        bid: hash_bytes(&c.block_id.hash),
        pst: c.block_id.part_set_header.total,
        psh: hash_bytes(&c.block_id.part_set_header.hash),
        sigs: c
            .signatures
            .iter()
            .map(|s| match s {
                CommitSig::BlockIdFlagAbsent => LSig { flag: 0, addr: vec![], ts: 0, sig: None },
                CommitSig::BlockIdFlagNil { validator_address, timestamp, signature } => LSig {
                    flag: 1,
                    addr: validator_address.as_bytes().to_vec(),
                    ts: timestamp.unix_timestamp_nanos(),
                    sig: signature.as_ref().map(|x| x.as_bytes().to_vec()),
                },
                CommitSig::BlockIdFlagCommit { validator_address, timestamp, signature } => LSig {
                    flag: 2,
                    addr: validator_address.as_bytes().to_vec(),
                    ts: timestamp.unix_timestamp_nanos(),
                    sig: signature.as_ref().map(|x| x.as_bytes().to_vec()),
                },
            })
            .collect(),
    }
}

pub fn chain_of(s: &str) -> chain::Id {
    s.try_into().expect("valid chain id")
}

// ---------- independent canonical-vote encoding ----------
//
// What a validator signs is CometBFT's CanonicalVote (protobuf, length-delimited):
//   1 type (varint; precommit = 2)   2 height (sfixed64)   3 round (sfixed64)
//   4 block_id { 1 hash (bytes), 2 part_set_header { 1 total (uint32), 2 hash (bytes) } }
//   5 timestamp { 1 seconds (int64), 2 nanos (int32) }   6 chain_id (string)
// proto3: zero / empty scalars are omitted; a present sub-message is always written.
// This encoder is written by hand from the CometBFT wire format and uses neither lumina's
// `vote_sign_bytes` nor tendermint-rs' `Vote`/`CanonicalVote`; commits are SIGNED over it and an
// independent validity bit is computed over it with ed25519-consensus directly, so that the
// sign bytes produced by the code under test are themselves checked (a dropped chain id, a
// wrong height/round/timestamp, … makes the two oracles differ).

fn pb_varint(mut v: u64, out: &mut Vec<u8>) {
    loop {
        let b = (v & 0x7f) as u8;
        v >>= 7;
        if v == 0 {
            out.push(b);
            break;
        }
        out.push(b | 0x80);
    }
}

fn pb_bytes_field(tag: u8, b: &[u8], out: &mut Vec<u8>) {
    out.push(tag << 3 | 2);
    pb_varint(b.len() as u64, out);
    out.extend_from_slice(b);
}

/// canonical precommit vote bytes for entry `idx` of the commit given in line form
pub fn canonical_vote_bytes(chain: &str, c: &LCommit, idx: usize) -> Option<Vec<u8>> {
    let e = c.sigs.get(idx)?;
    if e.flag == 0 {
        return None;
    }
    let mut m = vec![];
    m.extend_from_slice(&[0x08, 0x02]); // type = SIGNED_MSG_TYPE_PRECOMMIT
    if c.height != 0 {
        m.push(2 << 3 | 1);
        m.extend_from_slice(&(c.height as i64).to_le_bytes());
    }
    if c.round != 0 {
        m.push(3 << 3 | 1);
        m.extend_from_slice(&(c.round as i64).to_le_bytes());
    }
    let zero_id = c.bid.is_none() && c.psh.is_none() && c.pst == 0;
    if !zero_id {
        let mut psh = vec![];
        if c.pst != 0 {
            psh.push(0x08);
            pb_varint(c.pst as u64, &mut psh);
        }
        if let Some(h) = &c.psh {
            pb_bytes_field(2, h, &mut psh);
        }
        let mut bid = vec![];
        if let Some(h) = &c.bid {
            pb_bytes_field(1, h, &mut bid);
        }
        pb_bytes_field(2, &psh, &mut bid);
        pb_bytes_field(4, &bid, &mut m);
    }
    let secs = e.ts.div_euclid(1_000_000_000) as i64;
    let nanos = e.ts.rem_euclid(1_000_000_000) as i64;
    let mut ts = vec![];
    if secs != 0 {
        ts.push(0x08);
        pb_varint(secs as u64, &mut ts);
    }
    if nanos != 0 {
        ts.push(0x10);
        pb_varint(nanos as u64, &mut ts);
    }
    pb_bytes_field(5, &ts, &mut m);
    if !chain.is_empty() {
        pb_bytes_field(6, chain.as_bytes(), &mut m);
    }
    let mut out = vec![];
    pb_varint(m.len() as u64, &mut out);
    out.extend(m);
    Some(out)
}

/// sign entry `idx` of `commit` (as it stands) with `key` over the INDEPENDENT canonical vote
/// bytes, store the signature in the entry
pub fn sign_entry(commit: &mut Commit, chain: &chain::Id, idx: usize, key: &SigningKey) {
    let Some(bytes) = canonical_vote_bytes(chain.as_str(), &of_commit(commit), idx) else { return };
    let sig = key.sign(&bytes).to_bytes();
    match &mut commit.signatures[idx] {
        CommitSig::BlockIdFlagAbsent => {}
        CommitSig::BlockIdFlagNil { signature, .. } | CommitSig::BlockIdFlagCommit { signature, .. } => {
            *signature = Some(Signature::new(sig).unwrap().unwrap());
        }
    }
}

/// THE INDEPENDENT ORACLE: entry `j`'s signature under the raw ed25519 key `pk`, verified with
/// ed25519-consensus directly over the independently encoded canonical vote
pub fn sig_ok_indep(pk: &[u8], commit: &Commit, chain: &chain::Id, j: usize) -> bool {
    let lc = of_commit(commit);
    let Some(sig) = lc.sigs.get(j).and_then(|e| e.sig.clone()) else { return false };
    let Some(bytes) = canonical_vote_bytes(chain.as_str(), &lc, j) else { return false };
    let (Ok(pk), Ok(sig)) = (<[u8; 32]>::try_from(pk), <[u8; 64]>::try_from(sig.as_slice())) else { return false };
    let Ok(vk) = ed25519_consensus::VerificationKey::try_from(pk) else { return false };
    vk.verify(&ed25519_consensus::Signature::from(sig), &bytes).is_ok()
}

/// independent bits for light verification: entry j under validator j
pub fn light_ibits(set: &Set, commit: &Commit, chain: &chain::Id) -> Vec<u8> {
    (0..commit.signatures.len())
        .map(|j| match set.validators().get(j) {
            Some(info) => sig_ok_indep(&info.pub_key.to_bytes(), commit, chain, j) as u8,
            None => 0,
        })
        .collect()
}

/// independent bits for trusting verification
pub fn trusting_ibits(set: &Set, commit: &Commit, chain: &chain::Id) -> Vec<u8> {
    (0..commit.signatures.len())
        .map(|j| {
            let Some(a) = commit.signatures[j].validator_address() else { return 0 };
            match set.validators().iter().find(|v| v.address == a) {
                Some(info) => sig_ok_indep(&info.pub_key.to_bytes(), commit, chain, j) as u8,
                None => 0,
            }
        })
        .collect()
}

/// THE ORACLE: does the signature carried by entry `j` of `commit` verify, with the real code,
/// under validator `info`'s key for the real vote sign bytes of entry `j`?
pub fn sig_ok(info: &Info, commit: &Commit, chain: &chain::Id, j: usize) -> bool {
    let sig = match commit.signatures.get(j) {
        Some(CommitSig::BlockIdFlagCommit { signature: Some(s), .. })
        | Some(CommitSig::BlockIdFlagNil { signature: Some(s), .. }) => s.clone(),
        _ => return false,
    };
    let Ok(bytes) = commit.vote_sign_bytes(chain, j) else { return false };
    info.verify_signature::<Verifier>(&bytes, &sig).is_ok()
}

/// oracle bits for light verification: entry j under validator j
pub fn light_bits(set: &Set, commit: &Commit, chain: &chain::Id) -> Vec<u8> {
    (0..commit.signatures.len())
        .map(|j| match set.validators().get(j) {
            Some(info) => sig_ok(info, commit, chain, j) as u8,
            None => 0,
        })
        .collect()
}

/// oracle bits for trusting verification: entry j under the first validator of the set with
/// the address written in entry j
pub fn trusting_bits(set: &Set, commit: &Commit, chain: &chain::Id) -> Vec<u8> {
    (0..commit.signatures.len())
        .map(|j| {
            let Some(a) = commit.signatures[j].validator_address() else { return 0 };
            match set.validators().iter().find(|v| v.address == a) {
                Some(info) => sig_ok(info, commit, chain, j) as u8,
                None => 0,
            }
        })
        .collect()
}

/// canonical error kind of a celestia_types::Error coming out of commit verification / validate / verify
pub fn err_kind(e: &celestia_types::Error) -> String {
    use celestia_types::{Error as E, ValidationError as Va, VerificationError as Ve};
    match e {
        E::Verification(Ve::NotEnoughVotingPower(a, b)) => format!("not-enough {a} {b}"),
        E::Validation(Va::NotEnoughVotingPower(a, b)) => format!("val-not-enough {a} {b}"),
        E::Verification(Ve::Other(m)) => {
            let m = m.as_str();
            let k = if m.starts_with("validators signature len") {
                "len-mismatch"
            } else if m.starts_with("height (") {
                "height-mismatch"
            } else if m.starts_with("u64 overflow") {
                "needed-overflow"
            } else if m.starts_with("division error") {
                "needed-div0"
            } else if m.starts_with("No signature in CommitSig") {
                "no-signature"
            } else if m.starts_with("Double vote") {
                "double-vote"
            } else if m.starts_with("untrusted header height(") {
                "height-not-greater"
            } else if m.starts_with("untrusted header has different chain") {
                "chain-id"
            } else if m.starts_with("untrusted header time") {
                "time-not-after"
            } else if m.starts_with("new untrusted header has a time from the future") {
                "time-future"
            } else if m.starts_with("expected old header next validators") {
                "next-validators"
            } else if m.starts_with("expected new header to point to last header hash") {
                "last-header-hash"
            } else if m.starts_with("untrusted header height (") {
                "not-adjacent"
            } else {
                return format!("verification-other({})", m.replace(' ', "_"));
            };
            k.to_string()
        }
        E::Validation(Va::Other(m)) => {
            let m = m.as_str();
            let k = if m.starts_with("version block") {
                "version-block"
            } else if m.starts_with("chain id") {
                "chain-id-len"
            } else if m.starts_with("height == 0") {
                "height-zero"
            } else if m.starts_with("last_block_id == Some") {
                "genesis-last-block-id"
            } else if m.starts_with("last_block_id == None") {
                "missing-last-block-id"
            } else if m.starts_with("block_id is zero") {
                "block-id-zero"
            } else if m.starts_with("no signatures in commit") {
                "no-signatures"
            } else if m.starts_with("no signature in commit sig") {
                "commit-sig-no-signature"
            } else if m.starts_with("signature (") {
                "commit-sig-length"
            } else if m.starts_with("validatiors is empty") {
                "validators-empty"
            } else if m.starts_with("proposer is none") {
                "proposer-none"
            } else if m.starts_with("validator_set hash") {
                "validators-hash"
            } else if m.starts_with("dah hash") {
                "dah-hash"
            } else if m.starts_with("commit height") {
                "commit-height"
            } else if m.starts_with("commit block_id hash") {
                "commit-block-id-hash"
            } else if m.starts_with("column_roots len") {
                "dah-cols-rows"
            } else if m.starts_with("row_roots len") && m.contains("< minimum") {
                "dah-too-small"
            } else if m.starts_with("row_roots len") && m.contains("> maximum") {
                "dah-too-big"
            } else {
                return format!("validation-other({})", m.replace(' ', "_"));
            };
            k.to_string()
        }
        E::Tendermint(t) => {
            let m = t.to_string();
            if m.contains("signature") { "sig-invalid".to_string() } else { format!("tendermint({})", m.replace(' ', "_")) }
        }
        E::UnsupportedAppVersion(v) => format!("unsupported-app-version {v}"),
        other => format!("other({})", other.to_string().replace(' ', "_")),
    }
}

pub fn bits_str(b: &[u8]) -> String {
    natl(b)
}

// ---------- headers ----------

use celestia_types::{DataAvailabilityHeader, ExtendedDataSquare, ExtendedHeader};
use tendermint::block::header::{Header, Version};

/// `Option<Hash>` on the line: `none` = None, `-` = Some(Hash::None), hex = Some(Sha256)
pub fn fmt_ohash(h: &Option<Hash>) -> String {
    match h {
        None => "none".into(),
        Some(x) => ohx(&hash_bytes(x)),
    }
}
pub fn parse_ohash(s: &str) -> Option<Option<Hash>> {
    if s == "none" { Some(None) } else { Some(Some(hash_of(&unohx(s)?))) }
}
pub fn fmt_hash(h: &Hash) -> String {
    ohx(&hash_bytes(h))
}
pub fn parse_hash(s: &str) -> Option<Hash> {
    Some(hash_of(&unohx(s)?))
}

/// header part of an ExtendedHeader on the line (keys prefixed by `pre`)
pub fn fmt_header(h: &Header, pre: &str) -> String {
    let lbi = match &h.last_block_id {
        None => "none".to_string(),
        Some(id) => format!(
            "{}:{}:{}",
            fmt_hash(&id.hash),
            id.part_set_header.total,
            fmt_hash(&id.part_set_header.hash)
        ),
    };
    format!(
        "{pre}hv={}:{} {pre}hc={} {pre}hh={} {pre}ht={} {pre}hl={lbi} {pre}hlc={} {pre}hd={} {pre}hvh={} {pre}hnv={} {pre}hco={} {pre}hah={} {pre}hlr={} {pre}hev={} {pre}hpa={}",
        h.version.block,
        h.version.app,
        h.chain_id.as_str(),
        h.height.value(),
        h.time.unix_timestamp_nanos(),
        fmt_ohash(&h.last_commit_hash),
        fmt_ohash(&h.data_hash),
        fmt_hash(&h.validators_hash),
        fmt_hash(&h.next_validators_hash),
        fmt_hash(&h.consensus_hash),
        hx(h.app_hash.as_bytes()),
        fmt_ohash(&h.last_results_hash),
        fmt_ohash(&h.evidence_hash),
        hex::encode(h.proposer_address.as_bytes()),
    )
}

pub fn parse_header(line: &str, pre: &str) -> Option<Header> {
    let k = |s: &str| format!("{pre}{s}");
    let (vb, va) = arg(line, &k("hv"))?.split_once(':')?;
    let lbi = arg(line, &k("hl"))?;
    let last_block_id = if lbi == "none" {
        None
    } else {
        let p: Vec<&str> = lbi.split(':').collect();
        if p.len() != 3 {
            return None;
        }
        Some(BlockId {
            hash: parse_hash(p[0])?,
            part_set_header: parts::Header::new(p[1].parse().ok()?, parse_hash(p[2])?).ok()?,
        })
    };
    Some(Header {
        version: Version { block: vb.parse().ok()?, app: va.parse().ok()? },
        chain_id: arg(line, &k("hc"))?.try_into().ok()?,
        height: arg_u64(line, &k("hh"))?.try_into().ok()?,
        time: time_of(arg(line, &k("ht"))?.parse().ok()?),
        last_block_id,
        last_commit_hash: parse_ohash(arg(line, &k("hlc"))?)?,
        data_hash: parse_ohash(arg(line, &k("hd"))?)?,
        validators_hash: parse_hash(arg(line, &k("hvh"))?)?,
        next_validators_hash: parse_hash(arg(line, &k("hnv"))?)?,
        consensus_hash: parse_hash(arg(line, &k("hco"))?)?,
        app_hash: arg_hex(line, &k("hah"))?.try_into().ok()?,
        last_results_hash: parse_ohash(arg(line, &k("hlr"))?)?,
        evidence_hash: parse_ohash(arg(line, &k("hev"))?)?,
        proposer_address: account::Id::new(arg_hex(line, &k("hpa"))?.try_into().ok()?),
    })
}

pub fn empty_dah() -> DataAvailabilityHeader {
    DataAvailabilityHeader::from_eds(&ExtendedDataSquare::empty())
}

/// header + commit + set (no DAH on the line: the DAH of the empty square is used)
pub fn fmt_eh_nodah(eh: &ExtendedHeader, pre: &str, raw: bool) -> String {
    format!(
        "{} {} {}",
        fmt_header(&eh.header, pre),
        fmt_commit(&of_commit(&eh.commit), pre),
        fmt_set(&of_set(&eh.validator_set, raw), pre)
    )
}

pub fn parse_eh_nodah(line: &str, pre: &str) -> Option<ExtendedHeader> {
    Some(ExtendedHeader {
        header: parse_header(line, pre)?,
        commit: to_commit(&parse_commit(line, pre)?),
        validator_set: to_set(&parse_set(line, pre)?),
        dah: empty_dah(),
    })
}

/// a validator with its key
#[derive(Clone)]
pub struct Party {
    pub key: SigningKey,
    pub val: LVal,
}

pub fn new_party(rng: &mut Rng, power: u64) -> Party {
    let key = key_from(rng);
    let pk = pk_of(&key);
    Party { val: LVal { addr: addr_of_pk(&pk), pk, power }, key }
}

/// `Set::new` over the parties + the parties in stored order
pub fn set_of_parties(ps: &[Party]) -> (Vec<Party>, Set) {
    let set = to_set(&LSet { vals: ps.iter().map(|p| p.val.clone()).collect(), total: 0, raw: false, prop: true });
    let mut pool = ps.to_vec();
    let mut ordered = vec![];
    for i in set.validators() {
        let pos = pool.iter().position(|p| p.val.pk == i.pub_key.to_bytes() && p.val.power == i.power()).unwrap();
        ordered.push(pool.remove(pos));
    }
    (ordered, set)
}

/// Build an honest, fully consistent header (the multi-validator analogue of the repository's
/// `test_utils::generate_new/generate_next`): hashes filled in, commit signed by every party for
/// which `signs(i)` holds (the others are absent).
#[allow(clippy::too_many_arguments)]
pub fn make_header(
    rng: &mut Rng,
    chain: &str,
    height: u64,
    time_ns: i128,
    app: u64,
    last_block_id: Option<BlockId>,
    parties: &[Party],
    set: &Set,
    next_set: &Set,
    dah: DataAvailabilityHeader,
    signs: &dyn Fn(usize) -> bool,
) -> ExtendedHeader {
    let h32 = |rng: &mut Rng| Hash::Sha256(rng.bytes(32).try_into().unwrap());
    let header = Header {
        version: Version { block: 11, app },
        chain_id: chain_of(chain),
        height: height.try_into().unwrap(),
        time: time_of(time_ns),
        last_block_id,
        last_commit_hash: Some(h32(rng)),
        data_hash: Some(dah.hash()),
        validators_hash: set.hash(),
        next_validators_hash: next_set.hash(),
        consensus_hash: h32(rng),
        app_hash: rng.bytes(32).try_into().unwrap(),
        last_results_hash: Some(h32(rng)),
        evidence_hash: Some(h32(rng)),
        proposer_address: set.validators()[0].address,
    };
    let mut commit = Commit {
        height: header.height,
        round: (rng.below(3) as u16).into(),
        block_id: BlockId {
            hash: header.hash(),
            part_set_header: parts::Header::new(1, h32(rng)).unwrap(),
        },
        signatures: (0..parties.len())
            .map(|i| {
                if signs(i) {
                    CommitSig::BlockIdFlagCommit {
                        validator_address: set.validators()[i].address,
                        timestamp: time_of(time_ns + rng.below(1_000_000_000) as i128),
                        signature: None,
                    }
                } else {
                    CommitSig::BlockIdFlagAbsent
                }
            })
            .collect(),
    };
    let ch = chain_of(chain);
    for (i, p) in parties.iter().enumerate() {
        if signs(i) {
            sign_entry(&mut commit, &ch, i, &p.key);
        }
    }
    ExtendedHeader { header, commit, validator_set: set.clone(), dah }
}

// ---------- full extended headers (C01) ----------

use celestia_types::nmt::{NamespacedHash, NamespacedHashExt};

pub fn dah_of(rows: &[Vec<u8>], cols: &[Vec<u8>]) -> Option<DataAvailabilityHeader> {
    let r: Option<Vec<NamespacedHash>> = rows.iter().map(|b| NamespacedHash::from_raw(b).ok()).collect();
    let c: Option<Vec<NamespacedHash>> = cols.iter().map(|b| NamespacedHash::from_raw(b).ok()).collect();
    Some(DataAvailabilityHeader::new_unchecked(r?, c?))
}

/// header + commit + set + DAH roots + the three hashes and the light-verification oracle bits,
/// all computed with the real code
pub fn fmt_eh_full(eh: &ExtendedHeader, pre: &str, raw: bool) -> String {
    let rows: Vec<Vec<u8>> = eh.dah.row_roots().iter().map(|r| r.to_vec()).collect();
    let cols: Vec<Vec<u8>> = eh.dah.column_roots().iter().map(|r| r.to_vec()).collect();
    format!(
        "{} {} {} {pre}rows={} {pre}cols={} {}",
        fmt_header(&eh.header, pre),
        fmt_commit(&of_commit(&eh.commit), pre),
        fmt_set(&of_set(&eh.validator_set, raw), pre),
        hxl(&rows),
        hxl(&cols),
        oracle_words(eh, pre),
    )
}

/// the oracle words of a header, computed with the real code (`xh` `xv` `xd` `xb`) and, for `xi`,
/// with the independent canonical-vote encoding; printed on the op line by the generator and
/// RE-computed and printed on the result line by `run` (the model echoes the op line's)
pub fn oracle_words(eh: &ExtendedHeader, pre: &str) -> String {
    format!(
        "{pre}xh={} {pre}xv={} {pre}xd={} {pre}xb={} {pre}xi={}",
        fmt_hash(&eh.header.hash()),
        fmt_hash(&eh.validator_set.hash()),
        fmt_hash(&eh.dah.hash()),
        bits_str(&light_bits(&eh.validator_set, &eh.commit, &eh.header.chain_id)),
        bits_str(&light_ibits(&eh.validator_set, &eh.commit, &eh.header.chain_id)),
    )
}

pub fn parse_eh_full(line: &str, pre: &str) -> Option<ExtendedHeader> {
    let rows = unhxl(arg(line, &format!("{pre}rows"))?)?;
    let cols = unhxl(arg(line, &format!("{pre}cols"))?)?;
    Some(ExtendedHeader {
        header: parse_header(line, pre)?,
        commit: to_commit(&parse_commit(line, pre)?),
        validator_set: to_set(&parse_set(line, pre)?),
        dah: dah_of(&rows, &cols)?,
    })
}

pub fn validate_str(eh: &ExtendedHeader) -> String {
    let v = match eh.validate() {
        Ok(()) => "ok".to_string(),
        Err(e) => format!("err {}", err_kind(&e)),
    };
    format!("{v} {}", oracle_words(eh, ""))
}

// ---------- commits in which a validator appears several times ----------

/// one entry of a crafted commit, relative to a TRUSTED set (indices) and a pool of strangers
#[derive(Clone, Copy, Debug, PartialEq)]
pub enum Slot {
    /// block-commit entry validly signed by trusted validator i
    Trusted(usize),
    /// block-commit entry validly signed by stranger k (same k = same key and address)
    Stranger(usize),
    Absent,
    /// signed nil vote of trusted validator i
    NilOf(usize),
}

/// Commits whose power COUNTED WITH MULTIPLICITY differs from the power of the DISTINCT trusted
/// signers, around the threshold `needed = floor(num*total/den)`: one validator repeated until the
/// repeated power crosses the threshold (and one copy fewer), a distinct fill at/below the
/// threshold plus repeats of one member (repeats last / first / scattered among strangers, absent
/// and nil entries), repeated strangers (must not count at all), repeats after and before the
/// early exit.
pub fn multiplicity_plans(rng: &mut Rng, powers: &[u64], total: u64, num: u64, den: u64) -> Vec<(Vec<Slot>, &'static str)> {
    let n = powers.len();
    let mut out: Vec<(Vec<Slot>, &'static str)> = vec![];
    if den == 0 || n == 0 {
        return out;
    }
    let needed = (num as u128 * total as u128 / den as u128).min(u64::MAX as u128) as u64;
    // 1. one validator repeated
    let mut idxs: Vec<usize> = (0..n).collect();
    rng.shuffle(&mut idxs);
    for &i in idxs.iter().take(3) {
        let p = powers[i];
        if p == 0 || p > needed {
            continue;
        }
        let k = (needed / p + 1) as usize;
        if k > 12 {
            continue;
        }
        out.push((vec![Slot::Trusted(i); k], "mult/one-validator-over"));
        if k >= 3 {
            out.push((vec![Slot::Trusted(i); k - 1], "mult/one-validator-under"));
        }
        let mut v = vec![Slot::Stranger(0), Slot::Trusted(i), Slot::Absent];
        for _ in 1..k {
            v.push(Slot::Stranger(1));
            v.push(Slot::Trusted(i));
        }
        out.push((v, "mult/one-validator-over-spread"));
    }
    // 2. distinct fill at or below the threshold, then repeats of one member
    let mut d: Vec<usize> = vec![];
    let mut sum = 0u64;
    for &i in &idxs {
        if powers[i] > 0 && sum + powers[i] <= needed {
            d.push(i);
            sum += powers[i];
        }
    }
    if let Some(&m) = d.iter().max_by_key(|&&i| powers[i]) {
        let extra = ((needed - sum) / powers[m] + 1) as usize;
        if extra <= 12 {
            let exact = sum == needed;
            let base: Vec<Slot> = d.iter().map(|&i| Slot::Trusted(i)).collect();
            let mut a = base.clone();
            a.extend(vec![Slot::Trusted(m); extra]);
            out.push((a, if exact { "mult/boundary-exact-dup-last" } else { "mult/fill-dup-last" }));
            let mut b = vec![Slot::Trusted(m); extra];
            b.extend(base.clone());
            out.push((b, if exact { "mult/boundary-exact-dup-first" } else { "mult/fill-dup-first" }));
            let mut c = base.clone();
            c.extend(vec![Slot::Trusted(m); extra]);
            for _ in 0..rng.range(1, 3) {
                c.push(Slot::Stranger(rng.usize(0, 1)));
            }
            c.push(Slot::Absent);
            if let Some(&o) = idxs.iter().find(|i| !d.contains(i)) {
                c.push(Slot::NilOf(o));
            }
            rng.shuffle(&mut c);
            out.push((c, if exact { "mult/boundary-exact-dup-scattered" } else { "mult/fill-dup-scattered" }));
            // the distinct fill alone (no repeats): rejected with not-enough by everybody
            out.push((base.clone(), if exact { "mult/boundary-exact-no-dup" } else { "mult/fill-no-dup" }));
        }
        // 3. repeated strangers must not count
        let mut s = base_of(&d);
        s.extend([Slot::Stranger(0), Slot::Stranger(0), Slot::Stranger(0), Slot::Stranger(1), Slot::Stranger(1)]);
        if rng.bool() {
            rng.shuffle(&mut s);
        }
        out.push((s, "mult/stranger-repeats"));
    } else {
        out.push((vec![Slot::Stranger(0), Slot::Stranger(0), Slot::Stranger(0)], "mult/stranger-repeats-only"));
    }
    // 4. repeats after / before the early exit
    let mut over: Vec<usize> = d.clone();
    let mut osum = sum;
    for &i in &idxs {
        if osum > needed {
            break;
        }
        if !over.contains(&i) && powers[i] > 0 {
            over.push(i);
            osum += powers[i];
        }
    }
    if osum > needed && !over.is_empty() {
        let first = over[0];
        let mut a = base_of(&over);
        a.push(Slot::Trusted(first));
        out.push((a, "mult/repeat-after-exit"));
        if over.len() >= 2 {
            let mut b = vec![Slot::Trusted(first), Slot::Trusted(first)];
            b.extend(base_of(&over[1..]));
            out.push((b, "mult/repeat-before-exit"));
        }
    }
    out
}

fn base_of(d: &[usize]) -> Vec<Slot> {
    d.iter().map(|&i| Slot::Trusted(i)).collect()
}

/// fixed power shapes for the multiplicity cases: 4 equal (one validator twice = 1/2 > 1/3 while
/// distinct 1/4), 8 equal (three copies of a 1/8 validator), 3 equal (exact third), 6 equal, …
pub fn multiplicity_power_shapes(rng: &mut Rng) -> Vec<Vec<u64>> {
    let k = rng.range(1, 1000);
    vec![
        vec![1; 4],
        vec![k; 4],
        vec![1; 8],
        vec![1; 3],
        vec![1; 6],
        vec![2, 1, 1, 1, 1],
        vec![5, 3, 3, 2, 2],
        (0..rng.usize(2, 10)).map(|_| rng.range(1, 12)).collect(),
        (0..rng.usize(2, 10)).map(|_| rng.range(1, 1_000_000)).collect(),
    ]
}

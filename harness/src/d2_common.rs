//! Helpers shared by the group-D2 property binaries (C07–C10): the REAL leopard codec as an oracle
//! (extension of an ODS by direct `leopard_codec::encode` calls, mirroring `from_ods`), error
//! canonicalisation from messages, line formats.
//! Included with `#[path = "../d2_common.rs"] mod d2_common;` (next to `d_common.rs`).
#![allow(dead_code)]

use celestia_types::nmt::{NamespacedHash, NamespacedHashExt};
use celestia_types::{DataAvailabilityHeader, ExtendedDataSquare};
use verif_harness::*;

pub const SHARE: usize = 512;

pub fn isqrt(n: usize) -> usize {
    let mut k = 0usize;
    while (k + 1) * (k + 1) <= n {
        k += 1;
    }
    k
}

/// The three parity quadrants (row-major `k × k` each) of the extension of `ods`, computed by calling the
/// real `leopard_codec::encode` in the order of `from_ods` (rows of Q0 → Q1, columns of Q0 → Q2, rows of
/// Q2 → Q3).  `None` when there is no extension (not a square number of 512-byte shares, or more than 256
/// shards per axis).
pub fn extend_oracle(ods: &[Vec<u8>]) -> Option<(Vec<Vec<u8>>, Vec<Vec<u8>>, Vec<Vec<u8>>)> {
    let k = isqrt(ods.len());
    if k == 0 || k * k != ods.len() || 2 * k > 256 || ods.iter().any(|s| s.len() != SHARE) {
        return None;
    }
    let enc = |data: Vec<Vec<u8>>| -> Option<Vec<Vec<u8>>> {
        let mut shards = data;
        shards.resize(2 * k, vec![0u8; SHARE]);
        leopard_codec::encode(&mut shards, k).ok()?;
        Some(shards.split_off(k))
    };
    let mut q1 = vec![vec![]; k * k];
    let mut q2 = vec![vec![]; k * k];
    let mut q3 = vec![vec![]; k * k];
    for r in 0..k {
        let p = enc(ods[r * k..(r + 1) * k].to_vec())?;
        for c in 0..k {
            q1[r * k + c] = p[c].clone();
        }
    }
    for c in 0..k {
        let p = enc((0..k).map(|r| ods[r * k + c].clone()).collect())?;
        for r in 0..k {
            q2[r * k + c] = p[r].clone();
        }
    }
    for r in 0..k {
        let p = enc(q2[r * k..(r + 1) * k].to_vec())?;
        for c in 0..k {
            q3[r * k + c] = p[c].clone();
        }
    }
    Some((q1, q2, q3))
}

pub fn oracle_fields(ods: &[Vec<u8>]) -> String {
    match extend_oracle(ods) {
        Some((q1, q2, q3)) => format!("q1={} q2={} q3={}", hxl(&q1), hxl(&q2), hxl(&q3)),
        None => "q1=- q2=- q3=-".to_string(),
    }
}

pub fn roots_fields(dah: &DataAvailabilityHeader) -> String {
    let rows: Vec<Vec<u8>> = dah.row_roots().iter().map(|h| h.to_vec()).collect();
    let cols: Vec<Vec<u8>> = dah.column_roots().iter().map(|h| h.to_vec()).collect();
    format!("rows={} cols={}", hxl(&rows), hxl(&cols))
}

pub fn dah_from_line(line: &str) -> Option<DataAvailabilityHeader> {
    let rows = unhxl(arg(line, "rows")?)?;
    let cols = unhxl(arg(line, "cols")?)?;
    let rows: Option<Vec<NamespacedHash>> = rows.iter().map(|b| NamespacedHash::from_raw(b).ok()).collect();
    let cols: Option<Vec<NamespacedHash>> = cols.iter().map(|b| NamespacedHash::from_raw(b).ok()).collect();
    Some(DataAvailabilityHeader::new_unchecked(rows?, cols?))
}

/// `ok w=<width> par=<0/1 per share> data=<shares>`
pub fn eds_result(eds: &ExtendedDataSquare) -> String {
    let par: String = eds.data_square().iter().map(|s| if s.is_parity() { '1' } else { '0' }).collect();
    let raw: Vec<Vec<u8>> = eds.data_square().iter().map(|s| s.to_vec()).collect();
    format!("ok w={} par={} data={}", eds.square_width(), par, hxl(&raw))
}

/// canonical kind of a `celestia_types::Error` from its Display text (for errors that only reach us as text)
pub fn kind_of_types_error_text(msg: &str) -> String {
    let leopard = [
        "Maximum shard number",
        "Maximum parity shard number",
        "Unsupported number of data",
        "Shards contain no data",
        "Shards of different lengths",
        "Shard size (",
        "Too few shards",
    ];
    if msg.starts_with("Invalid dimensions of EDS") {
        "EdsInvalidDimentions".into()
    } else if msg.starts_with("Validation error") {
        "Validation".into()
    } else if msg.starts_with("Invalid share size") {
        "InvalidShareSize".into()
    } else if let Some(rest) = msg.strip_prefix("Unsupported namespace version: ") {
        format!("UnsupportedNamespaceVersion({})", rest.trim())
    } else if msg.starts_with("Invalid namespace v0") {
        "InvalidNamespaceV0".into()
    } else if msg.starts_with("Invalid namespace v255") {
        "InvalidNamespaceV255".into()
    } else if msg.starts_with("Invalid namespace size") {
        "InvalidNamespaceSize".into()
    } else if msg.starts_with("Unsupported share version") {
        "UnsupportedShareVersion".into()
    } else if leopard.iter().any(|p| msg.starts_with(p)) {
        "LeopardCodec".into()
    } else {
        format!("Other({})", msg.replace(' ', "_"))
    }
}

//! C03 — Commit verification enforces the voting-power thresholds.
//!
//! ops (all data needed to rebuild the real objects is on the line):
//!   light    chain=<id> h=<height> <commit> <set> bits=<oracle bits, one per commit entry>
//!   trusting chain=<id> tn=<num> td=<den> <commit> <set> bits=<…>
//! result: `ok bits=<recomputed>` | `err <kind> … bits=<recomputed>` | `panic`
//! The oracle bits on the op line are computed by the generator with the real
//! `verify_signature` over the real `vote_sign_bytes`; `run` recomputes them and prints them so
//! that stale bits in a replay file show up as a disagreement (the model echoes its input bits).
#[path = "../consensus_e.rs"]
mod consensus_e;

use celestia_types::trust_level::TrustLevelRatio;
use celestia_types::verif::ValidatorSetExt;
use consensus_e::*;
use ed25519_consensus::SigningKey;
use tendermint::block::{Commit, CommitSig};
use tendermint::validator::Set;
use verif_harness::*;

struct C03;

#[derive(Clone)]
struct Party {
    key: SigningKey,
    val: LVal,
}

fn party(rng: &mut Rng, power: u64) -> Party {
    let key = key_from(rng);
    let pk = pk_of(&key);
    Party { val: LVal { addr: addr_of_pk(&pk), pk, power }, key }
}

fn gen_powers(rng: &mut Rng, n: usize) -> Vec<u64> {
    let mode = rng.below(9);
    let mut p: Vec<u64> = match mode {
        0 => vec![1; n],
        1 => {
            let k = rng.range(1, 1000);
            vec![k; n]
        }
        2 => (0..n).map(|_| rng.range(1, 10)).collect(),
        3 => (0..n).map(|_| rng.range(0, 1000)).collect(),
        4 => (0..n).map(|_| rng.range(0, MAX_TOTAL_VOTING_POWER / n as u64)).collect(),
        5 => {
            // total divisible by 3
            let mut p: Vec<u64> = (0..n).map(|_| rng.range(1, 20)).collect();
            let s: u64 = p.iter().sum();
            p[0] += (3 - s % 3) % 3;
            p
        }
        6 => {
            // total exactly MAX_TOTAL_VOTING_POWER
            let mut p: Vec<u64> = (0..n).map(|_| rng.range(0, MAX_TOTAL_VOTING_POWER / n as u64 / 2)).collect();
            let s: u64 = p.iter().sum();
            p[0] += MAX_TOTAL_VOTING_POWER - s;
            p
        }
        7 => {
            // one whale
            let mut p: Vec<u64> = (0..n).map(|_| rng.range(1, 5)).collect();
            let s: u64 = p.iter().sum();
            let i = rng.usize(0, n - 1);
            p[i] = *rng.pick(&[2 * s, 2 * s + 1, 2 * s - 1, s / 2, s / 2 + 1]);
            p
        }
        _ => (0..n).map(|_| rng.range(1, 3)).collect(),
    };
    if p.iter().sum::<u64>() == 0 {
        p[0] = 1;
    }
    p
}

/// parties in the order `Set::new` stores them
fn make_set(rng: &mut Rng, n: usize, dup: bool) -> (Vec<Party>, Set) {
    let powers = gen_powers(rng, n);
    let mut ps: Vec<Party> = powers.iter().map(|&p| party(rng, p)).collect();
    if dup && n >= 2 {
        // the same validator (key, address) twice, possibly with another power
        let i = rng.usize(0, n - 2);
        let mut d = ps[i].clone();
        let others: u128 = ps[..n - 1].iter().map(|p| p.val.power as u128).sum();
        if rng.bool() || others + d.val.power as u128 > MAX_TOTAL_VOTING_POWER as u128 {
            d.val.power = ps[n - 1].val.power;
        }
        ps[n - 1] = d;
    }
    let set = to_set(&LSet {
        vals: ps.iter().map(|p| p.val.clone()).collect(),
        total: 0,
        raw: false,
        prop: true,
    });
    // recover keys in stored order (by pk and power; duplicates are interchangeable)
    let mut pool = ps.clone();
    let mut ordered = vec![];
    for i in set.validators() {
        let pos = pool.iter().position(|p| p.val.pk == i.pub_key.to_bytes() && p.val.power == i.power()).unwrap();
        ordered.push(pool.remove(pos));
    }
    (ordered, set)
}

#[derive(Clone, Copy, PartialEq, Debug)]
enum Ent {
    Absent,
    NilSigned,
    NilRandom,
    NilNoSig,
    Commit,
    CommitForgedRandom,
    CommitForgedOtherKey,
    CommitNoSig,
}

fn rand_block_id(rng: &mut Rng) -> (Option<Vec<u8>>, u32, Option<Vec<u8>>) {
    (Some(rng.bytes(32)), rng.range(1, 5) as u32, Some(rng.bytes(32)))
}

/// build a commit whose entry j is signed by `signers[j]` (a key + the address to write)
fn build_commit(
    rng: &mut Rng,
    chain: &tendermint::chain::Id,
    height: u64,
    entries: &[(Ent, SigningKey, Vec<u8>)],
) -> Commit {
    let (bid, pst, psh) = rand_block_id(rng);
    let base: i128 = 1_700_000_000_000_000_000 + rng.below(1_000_000_000_000) as i128;
    let lc = LCommit {
        height,
        round: rng.below(3) as u32,
        bid,
        pst,
        psh,
        sigs: entries
            .iter()
            .map(|(e, _, addr)| {
                let flag = match e {
                    Ent::Absent => 0,
                    Ent::NilSigned | Ent::NilRandom | Ent::NilNoSig => 1,
                    _ => 2,
                };
                LSig { flag, addr: addr.clone(), ts: base + rng.below(5_000_000_000) as i128, sig: None }
            })
            .collect(),
    };
    let mut c = to_commit(&lc);
    let other = key_from(rng);
    for (j, (e, key, _)) in entries.iter().enumerate() {
        match e {
            Ent::Absent | Ent::NilNoSig | Ent::CommitNoSig => {}
            Ent::NilSigned | Ent::Commit => sign_entry(&mut c, chain, j, key),
            Ent::CommitForgedOtherKey => sign_entry(&mut c, chain, j, &other),
            Ent::NilRandom | Ent::CommitForgedRandom => {
                let s = tendermint::Signature::new(rng.bytes(64)).unwrap();
                match &mut c.signatures[j] {
                    CommitSig::BlockIdFlagNil { signature, .. } | CommitSig::BlockIdFlagCommit { signature, .. } => {
                        *signature = s
                    }
                    _ => {}
                }
            }
        }
    }
    c
}

fn pick_nonsigner(rng: &mut Rng) -> Ent {
    *rng.pick(&[Ent::Absent, Ent::Absent, Ent::NilSigned, Ent::NilRandom, Ent::NilNoSig])
}

/// signer subsets: which validators carry a commit-flag entry
fn subset_modes(rng: &mut Rng, powers: &[u64], total: u64, num: u64, den: u64) -> Vec<Vec<bool>> {
    let n = powers.len();
    let mut out = vec![vec![true; n], vec![false; n]];
    for _ in 0..2 {
        let pr = rng.range(1, 9);
        out.push((0..n).map(|_| rng.chance(pr, 10)).collect());
    }
    // greedy boundary: as much power as fits at or below floor(num*total/den), then one more
    let needed = (num as u128 * total as u128 / den.max(1) as u128) as u64;
    let mut order: Vec<usize> = (0..n).collect();
    rng.shuffle(&mut order);
    let mut sel = vec![false; n];
    let mut sum = 0u64;
    for &i in &order {
        if sum + powers[i] <= needed {
            sel[i] = true;
            sum += powers[i];
        }
    }
    out.push(sel.clone());
    if let Some(&i) = order.iter().find(|&&i| !sel[i]) {
        let mut s2 = sel.clone();
        s2[i] = true;
        out.push(s2);
    }
    out
}

fn light_line(chain: &str, h: u64, commit: &Commit, set: &Set, raw: bool) -> String {
    let ch = chain_of(chain);
    let bits = light_bits(set, commit, &ch);
    format!(
        "light chain={chain} h={h} {} {} bits={} ibits={}",
        fmt_commit(&of_commit(commit), ""),
        fmt_set(&of_set(set, raw), ""),
        bits_str(&bits),
        bits_str(&light_ibits(set, commit, &ch))
    )
}

fn trusting_line(chain: &str, tn: u64, td: u64, commit: &Commit, set: &Set, raw: bool) -> String {
    let ch = chain_of(chain);
    let bits = trusting_bits(set, commit, &ch);
    format!(
        "trusting chain={chain} tn={tn} td={td} {} {} bits={} ibits={}",
        fmt_commit(&of_commit(commit), ""),
        fmt_set(&of_set(set, raw), ""),
        bits_str(&bits),
        bits_str(&trusting_ibits(set, commit, &ch))
    )
}

fn gen_light(rng: &mut Rng, out: &mut Emitter, n: usize, exhaustive: bool) {
    let chain = *rng.pick(&["private", "celestia", "mocha-4"]);
    let ch = chain_of(chain);
    let dup = rng.chance(1, 8);
    let (ps, set) = make_set(rng, n, dup);
    let powers: Vec<u64> = ps.iter().map(|p| p.val.power).collect();
    let total = set.total_voting_power().value();
    let h = rng.range(1, 1_000_000);
    let subsets: Vec<Vec<bool>> = if exhaustive {
        (0..(1u32 << n)).map(|m| (0..n).map(|i| m >> i & 1 == 1).collect()).collect()
    } else {
        subset_modes(rng, &powers, total, 2, 3)
    };
    for sel in subsets {
        // honest: all commit-flag entries validly signed
        let ents: Vec<(Ent, SigningKey, Vec<u8>)> = (0..n)
            .map(|i| (if sel[i] { Ent::Commit } else { pick_nonsigner(rng) }, ps[i].key.clone(), ps[i].val.addr.clone()))
            .collect();
        let c = build_commit(rng, &ch, h, &ents);
        out.op(light_line(chain, h, &c, &set, false), if exhaustive { "light/all-subsets" } else { "light/honest" }, n >= 2);
        if exhaustive {
            continue;
        }
        // one corruption
        let mut ents2 = ents.clone();
        let i = rng.usize(0, n - 1);
        let kind = rng.below(6);
        let tag = match kind {
            0 => {
                ents2[i].0 = Ent::CommitForgedRandom;
                "light/forged-random"
            }
            1 => {
                ents2[i].0 = Ent::CommitForgedOtherKey;
                "light/forged-other-key"
            }
            2 => {
                ents2[i].0 = Ent::CommitNoSig;
                "light/no-signature"
            }
            3 => {
                // signed by the right key but for an address that is not the validator's
                ents2[i].2 = rng.bytes(20);
                "light/foreign-address-signed"
            }
            4 => {
                // validly signed entries of two validators swapped (index is part of the signed bytes)
                let j = rng.usize(0, n - 1);
                ents2.swap(i, j);
                "light/swapped-entries"
            }
            _ => {
                ents2[i].0 = Ent::Commit;
                ents2[i].1 = ps[rng.usize(0, n - 1)].key.clone();
                "light/signed-by-other-validator"
            }
        };
        let c2 = build_commit(rng, &ch, h, &ents2);
        out.op(light_line(chain, h, &c2, &set, false), tag, true);
        // post-signing mutation of a signed field (timestamp / address / signature byte)
        let mut c3 = c.clone();
        let tag3 = match &mut c3.signatures[i] {
            CommitSig::BlockIdFlagCommit { validator_address, timestamp, signature }
            | CommitSig::BlockIdFlagNil { validator_address, timestamp, signature } => match rng.below(3) {
                0 => {
                    *timestamp = time_of(timestamp.unix_timestamp_nanos() + 1);
                    "light/mut-timestamp"
                }
                1 => {
                    *validator_address = tendermint::account::Id::new(rng.bytes(20).try_into().unwrap());
                    "light/mut-address"
                }
                _ => {
                    if let Some(s) = signature {
                        let mut b = s.as_bytes().to_vec();
                        let k = rng.usize(0, 63);
                        b[k] ^= 1 << rng.below(8);
                        *signature = tendermint::Signature::new(b).unwrap();
                    }
                    "light/mut-sig-bit"
                }
            },
            _ => "light/mut-absent",
        };
        out.op(light_line(chain, h, &c3, &set, false), tag3, true);
    }
    if exhaustive {
        return;
    }
    // shape errors
    let ents: Vec<(Ent, SigningKey, Vec<u8>)> =
        (0..n).map(|i| (Ent::Commit, ps[i].key.clone(), ps[i].val.addr.clone())).collect();
    let c = build_commit(rng, &ch, h, &ents);
    let mut short = c.clone();
    short.signatures.pop();
    out.op(light_line(chain, h, &short, &set, false), "light/len-short", true);
    let mut long = c.clone();
    long.signatures.push(if rng.bool() { CommitSig::BlockIdFlagAbsent } else { c.signatures[0].clone() });
    out.op(light_line(chain, h, &long, &set, false), "light/len-long", true);
    let h2 = if rng.bool() { h + 1 } else { h.saturating_sub(1) };
    out.op(light_line(chain, h2, &c, &set, false), "light/height-mismatch", true);
    // other chain id than the one signed for
    out.op(light_line("otherchain", h, &c, &set, false), "light/other-chain", true);
    // raw sets: stored total inconsistent with the powers; unsorted
    let mut raw = of_set(&set, true);
    raw.total = *rng.pick(&[0, 1, total / 2, total.saturating_sub(1), total + 1, 2 * total, 3 * total / 2, i64::MAX as u64]);
    if rng.bool() {
        raw.vals.reverse();
    }
    let rset = to_set(&raw);
    let rps: Vec<&Party> = raw.vals.iter().map(|v| ps.iter().find(|p| p.val.pk == v.pk).unwrap()).collect();
    let ents: Vec<(Ent, SigningKey, Vec<u8>)> = (0..n)
        .map(|i| (if rng.chance(3, 4) { Ent::Commit } else { pick_nonsigner(rng) }, rps[i].key.clone(), rps[i].val.addr.clone()))
        .collect();
    let c = build_commit(rng, &ch, h, &ents);
    out.op(light_line(chain, h, &c, &rset, true), "light/raw-total", true);
    // empty set / empty commit
    if rng.chance(1, 10) {
        let e = to_set(&LSet { vals: vec![], total: 0, raw: true, prop: false });
        let mut ce = c.clone();
        ce.signatures.clear();
        out.op(light_line(chain, h, &ce, &e, true), "light/empty", true);
    }
}

fn gen_trusting(rng: &mut Rng, out: &mut Emitter, n: usize) {
    let chain = *rng.pick(&["private", "celestia"]);
    let ch = chain_of(chain);
    let dup = rng.chance(1, 6);
    let (ps, set) = make_set(rng, n, dup);
    let powers: Vec<u64> = ps.iter().map(|p| p.val.power).collect();
    let total = set.total_voting_power().value();
    let h = rng.range(2, 1_000_000);
    let (tn, td) = *rng.pick(&[(1u64, 3u64), (1, 3), (1, 3), (1, 3), (2, 3), (1, 2), (0, 1), (1, 1), (3, 3), (1, 0), (u64::MAX, 3), (7, 5)]);
    for sel in subset_modes(rng, &powers, total, tn.min(1 << 20), td) {
        // the untrusted commit: trusted signers (selected), strangers, in random order
        let mut ents: Vec<(Ent, SigningKey, Vec<u8>)> = vec![];
        for i in 0..n {
            if sel[i] {
                ents.push((Ent::Commit, ps[i].key.clone(), ps[i].val.addr.clone()));
            } else if rng.bool() {
                ents.push((pick_nonsigner(rng), ps[i].key.clone(), ps[i].val.addr.clone()));
            }
        }
        for _ in 0..rng.below(4) {
            let s = party(rng, 1);
            let e = *rng.pick(&[Ent::Commit, Ent::Commit, Ent::CommitForgedRandom, Ent::NilSigned, Ent::Absent]);
            ents.push((e, s.key.clone(), s.val.addr.clone()));
        }
        if rng.chance(2, 3) {
            rng.shuffle(&mut ents);
        }
        let c = build_commit(rng, &ch, h, &ents);
        out.op(trusting_line(chain, tn, td, &c, &set, false), "trusting/honest", true);
        if ents.is_empty() {
            continue;
        }
        let mut ents2 = ents.clone();
        let i = rng.usize(0, ents2.len() - 1);
        let tag = match rng.below(6) {
            0 => {
                ents2[i].0 = Ent::CommitForgedRandom;
                "trusting/forged-random"
            }
            1 => {
                ents2[i].0 = Ent::CommitForgedOtherKey;
                "trusting/forged-other-key"
            }
            2 => {
                ents2[i].0 = Ent::CommitNoSig;
                "trusting/no-signature"
            }
            3 => {
                // double vote: an entry repeated somewhere else
                let e = ents2[i].clone();
                let at = rng.usize(0, ents2.len());
                ents2.insert(at, e);
                "trusting/double-vote"
            }
            4 => {
                // stranger claiming a trusted validator's address (signed with its own key)
                let s = party(rng, 1);
                let a = ps[rng.usize(0, n - 1)].val.addr.clone();
                let at = rng.usize(0, ents2.len());
                ents2.insert(at, (Ent::Commit, s.key.clone(), a));
                "trusting/impersonation"
            }
            _ => {
                // nil vote by a trusted validator repeated as commit
                let k = rng.usize(0, n - 1);
                ents2.push((Ent::NilSigned, ps[k].key.clone(), ps[k].val.addr.clone()));
                ents2.push((Ent::Commit, ps[k].key.clone(), ps[k].val.addr.clone()));
                "trusting/nil-then-commit"
            }
        };
        let c2 = build_commit(rng, &ch, h, &ents2);
        out.op(trusting_line(chain, tn, td, &c2, &set, false), tag, true);
    }
    // raw trusted set with inconsistent total / huge powers (tally overflow is a debug panic)
    let mut raw = of_set(&set, true);
    match rng.below(4) {
        0 => raw.total = *rng.pick(&[0, 1, total / 2, total + 1, 3 * total, i64::MAX as u64]),
        1 => {
            for v in raw.vals.iter_mut() {
                v.power = i64::MAX as u64;
            }
            raw.total = i64::MAX as u64;
        }
        2 => {
            for v in raw.vals.iter_mut() {
                v.power = i64::MAX as u64 - rng.below(3);
            }
            raw.total = i64::MAX as u64;
        }
        _ => raw.vals.reverse(),
    }
    let rset = to_set(&raw);
    let rps: Vec<&Party> = raw.vals.iter().map(|v| ps.iter().find(|p| p.val.pk == v.pk).unwrap()).collect();
    let ents: Vec<(Ent, SigningKey, Vec<u8>)> = (0..n).map(|i| (Ent::Commit, rps[i].key.clone(), rps[i].val.addr.clone())).collect();
    let c = build_commit(rng, &ch, h, &ents);
    let (tn2, td2) = *rng.pick(&[(1u64, 3u64), (2, 1), (2, 1), (1, 1), (3, 1), (2, 3)]);
    out.op(trusting_line(chain, tn2, td2, &c, &rset, true), "trusting/raw", true);
}

/// trusting verification of commits in which validators appear several times (see
/// `multiplicity_plans`): the class where "power counted with multiplicity" and "power of the
/// distinct trusted signers" fall on different sides of the threshold
fn gen_trusting_multiplicity(rng: &mut Rng, out: &mut Emitter) {
    let chain = "private";
    let ch = chain_of(chain);
    for shape in multiplicity_power_shapes(rng) {
        let parties: Vec<Party> = shape.iter().map(|&p| party(rng, p)).collect();
        let set = to_set(&LSet { vals: parties.iter().map(|p| p.val.clone()).collect(), total: 0, raw: false, prop: true });
        // parties in stored order
        let mut pool = parties.clone();
        let mut ps = vec![];
        for i in set.validators() {
            let pos = pool.iter().position(|p| p.val.pk == i.pub_key.to_bytes() && p.val.power == i.power()).unwrap();
            ps.push(pool.remove(pos));
        }
        let powers: Vec<u64> = ps.iter().map(|p| p.val.power).collect();
        let total = set.total_voting_power().value();
        let strangers = [party(rng, 1), party(rng, 1)];
        let h = rng.range(2, 1_000_000);
        for (tn, td) in [(1u64, 3u64), (1, 3), (2, 3), (1, 2)] {
            for (slots, tag) in multiplicity_plans(rng, &powers, total, tn, td) {
                let ents: Vec<(Ent, SigningKey, Vec<u8>)> = slots
                    .iter()
                    .map(|s| match s {
                        Slot::Trusted(i) => (Ent::Commit, ps[*i].key.clone(), ps[*i].val.addr.clone()),
                        Slot::Stranger(k) => (Ent::Commit, strangers[*k].key.clone(), strangers[*k].val.addr.clone()),
                        Slot::Absent => (Ent::Absent, strangers[0].key.clone(), vec![0; 20]),
                        Slot::NilOf(i) => (Ent::NilSigned, ps[*i].key.clone(), ps[*i].val.addr.clone()),
                    })
                    .collect();
                let c = build_commit(rng, &ch, h, &ents);
                out.op(trusting_line(chain, tn, td, &c, &set, false), &format!("trusting/{tag}"), true);
            }
        }
    }
}

impl Prop for C03 {
    fn id(&self) -> &'static str {
        "C03"
    }
    fn rule(&self) -> &'static str {
        "validator sets of 1..10 members built with tendermint's Set::new (9 power distributions incl. equal, total divisible by 3, \
         total = MAX_TOTAL_VOTING_POWER, whale at the 2/3 boundary, zero powers, duplicated validator), commits signed with real ed25519 keys; \
         signer subsets: all, none, random, greedy fill up to floor(n*T/d) and one more (exact boundary), every subset for n<=8 (thorough, \
         n<=5 quick); non-signers absent/nil(signed, random sig, no sig); corruptions: forged random signature, other key, missing signature, \
         foreign address, swapped entries, post-signing mutation of timestamp/address/signature bit, length and height mismatch, other chain id; \
         trusting: commits mixing trusted validators and strangers in random order, double votes, impersonation, trust levels 1/3, 2/3, 1/2, 0/1, \
         1/1, 1/0, u64::MAX/3, 7/5; raw sets (struct literal) with inconsistent totals and i64::MAX powers (tally overflow); \
         repeated validators on fixed shapes (4/8/3/6 equal powers, …) and random sets: one validator repeated until the repeated power crosses the \
         threshold while the distinct power does not, distinct fill at/just below the threshold plus repeats (last/first/scattered), repeated \
         strangers, repeats after/before the early exit, at levels 1/3, 2/3, 1/2. \
         Non-trivial = everything except honest single-validator cases; distinct = distinct (op, result) lines."
    }
    fn gen_ops(&mut self, rng: &mut Rng, tier: Tier, out: &mut Emitter) {
        let rounds = if tier == Tier::Thorough { 600 } else { 70 };
        for r in 0..rounds {
            let n = if r < 10 { r + 1 } else { rng.usize(1, 10) };
            gen_light(rng, out, n, false);
            gen_trusting(rng, out, n);
        }
        for _ in 0..(if tier == Tier::Thorough { 40 } else { 3 }) {
            gen_trusting_multiplicity(rng, out);
        }
        let maxn = if tier == Tier::Thorough { 8 } else { 5 };
        let reps = if tier == Tier::Thorough { 3 } else { 1 };
        for _ in 0..reps {
            for n in 1..=maxn {
                gen_light(rng, out, n, true);
            }
        }
    }
    fn run(&mut self, line: &str) -> String {
        let op = opname(line);
        if op == "reset" {
            return "ok".into();
        }
        let (Some(chain), Some(lc), Some(ls)) = (arg(line, "chain"), parse_commit(line, ""), parse_set(line, "")) else {
            return "bad-op".into();
        };
        let ch = chain_of(chain);
        let set = to_set(&ls);
        let commit = to_commit(&lc);
        match op {
            "light" => {
                let Some(h) = arg_u64(line, "h") else { return "bad-op".into() };
                let bits = light_bits(&set, &commit, &ch);
                let ibits = light_ibits(&set, &commit, &ch);
                let height: tendermint::block::Height = h.try_into().unwrap();
                let r = set.verify_commit_light(&ch, &height, &commit);
                match r {
                    Ok(()) => format!("ok bits={} ibits={}", bits_str(&bits), bits_str(&ibits)),
                    Err(e) => format!("err {} bits={} ibits={}", err_kind(&e), bits_str(&bits), bits_str(&ibits)),
                }
            }
            "trusting" => {
                let (Some(tn), Some(td)) = (arg_u64(line, "tn"), arg_u64(line, "td")) else { return "bad-op".into() };
                let bits = trusting_bits(&set, &commit, &ch);
                let ibits = trusting_ibits(&set, &commit, &ch);
                let r = set.verify_commit_light_trusting(&ch, &commit, TrustLevelRatio::new(tn, td));
                match r {
                    Ok(()) => format!("ok bits={} ibits={}", bits_str(&bits), bits_str(&ibits)),
                    Err(e) => format!("err {} bits={} ibits={}", err_kind(&e), bits_str(&bits), bits_str(&ibits)),
                }
            }
            _ => "bad-op".into(),
        }
    }
}

fn main() {
    main_for(C03);
}

//! C27 — Verified header range requests terminate and never panic.
//!
//! The REAL `P2p::get_verified_headers_range` (on a `P2p` whose command channel the harness owns;
//! hook `verif::p2p::header_range_p2p`) is driven against a simulated header-ex client that
//! answers like the real one: the real `HeaderRequestExt::is_valid` gate, then the real
//! `decode_and_verify_responses` on what a peer holding heights `1..=chain` of one chain would
//! send (real encoded headers).  The future is polled by hand with a no-op waker; which
//! outstanding request is answered next, and how, is given by the op line.  A hang is observed
//! through the step budget `fuel` (answered requests) and reported as `hang`.
use std::future::Future;
use std::pin::Pin;
use std::sync::OnceLock;
use std::task::{Context, Poll};

use celestia_proto::p2p::pb::header_request::Data;
use celestia_proto::p2p::pb::{HeaderRequest, HeaderResponse, StatusCode};
use celestia_types::ExtendedHeader;
use celestia_types::test_utils::{ExtendedHeaderGenerator, invalidate};
use lumina_node::node::{HeaderExError, P2pError};
use lumina_node::verif::p2p as vp2p;
use lumina_node::verif::p2p::header_ex::{client, utils};
use lumina_node::verif::p2p::header_session as hs;
use verif_harness::*;

// S10: 2700 (was 720) so that 2000+ header ranges can be served
const CHAIN: u64 = 2700;
const PEER_CAP: u64 = 512;
const HIGH_START: u64 = (i64::MAX as u64) - 30;

struct Pool {
    a: Vec<ExtendedHeader>,
    b: Vec<ExtendedHeader>,
    high: Vec<ExtendedHeader>,
}

fn pool() -> &'static Pool {
    static P: OnceLock<Pool> = OnceLock::new();
    P.get_or_init(|| {
        let a = ExtendedHeaderGenerator::new().next_many_empty(CHAIN);
        let b = ExtendedHeaderGenerator::new().next_many_empty(80);
        let high = std::panic::catch_unwind(|| ExtendedHeaderGenerator::new_from_height(HIGH_START).next_many_empty(10))
            .unwrap_or_default();
        Pool { a, b, high }
    })
}

#[derive(Clone, Copy, Debug)]
enum Beh {
    Full,
    AtMost(u64),
    NotFound,
    Invalid,
    /// S9: the task completes with `Ok(vec![])` (the real client never does that; a foreign client could)
    EmptyOk,
    /// S9: the responder is dropped without an answer (worker died): a non-HeaderEx error
    Dropped,
}

fn parse_behs(s: &str) -> Option<Vec<Beh>> {
    if s == "-" {
        return Some(vec![]);
    }
    s.split(',')
        .map(|t| match t {
            "f" => Some(Beh::Full),
            "n" => Some(Beh::NotFound),
            "i" => Some(Beh::Invalid),
            "e" => Some(Beh::EmptyOk),
            "d" => Some(Beh::Dropped),
            _ => t.strip_prefix('p')?.parse().ok().map(Beh::AtMost),
        })
        .collect()
}

fn show_runs(v: &[u64]) -> String {
    if v.is_empty() {
        return "-".into();
    }
    let mut items = vec![];
    let (mut lo, mut hi) = (v[0], v[0]);
    let push = |items: &mut Vec<String>, lo: u64, hi: u64| {
        items.push(if lo == hi { lo.to_string() } else { format!("{lo}-{hi}") })
    };
    for &x in &v[1..] {
        if hi.checked_add(1) == Some(x) {
            hi = x;
        } else {
            push(&mut items, lo, hi);
            lo = x;
            hi = x;
        }
    }
    push(&mut items, lo, hi);
    items.join(",")
}

fn err_name<E: std::fmt::Debug>(e: &E) -> String {
    let s = format!("{e:?}");
    s.split(|c: char| !c.is_alphanumeric()).next().unwrap_or("?").to_string()
}

/// what a peer holding heights 1..=chain_len sends for (h, a)
fn peer_resps(chain_len: u64, b: Beh, h: u64, a: u64) -> Vec<HeaderResponse> {
    let not_found = || vec![HeaderResponse { body: vec![], status_code: StatusCode::NotFound.into() }];
    let avail = if h >= 1 && h <= chain_len { a.min(PEER_CAP).min(chain_len - h + 1) } else { 0 };
    let n = match b {
        Beh::NotFound => return not_found(),
        Beh::Invalid => return vec![HeaderResponse { body: vec![], status_code: StatusCode::Invalid.into() }],
        Beh::EmptyOk | Beh::Dropped => return vec![], // not consulted: answered without the client
        Beh::Full => avail,
        Beh::AtMost(k) => avail.min(k),
    };
    if n == 0 {
        return not_found();
    }
    (h..h + n).map(|x| utils::to_header_response(&pool().a[(x - 1) as usize])).collect()
}

/// the simulated client: `on_send_request`'s validity gate, then the real response acceptance
fn client_answer(chain_len: u64, b: Beh, req: &HeaderRequest) -> Result<Vec<ExtendedHeader>, P2pError> {
    if !utils::is_valid(req) {
        return Err(P2pError::HeaderEx(HeaderExError::InvalidRequest));
    }
    let h = match req.data {
        Some(Data::Origin(h)) => h,
        _ => return Err(P2pError::HeaderEx(HeaderExError::InvalidRequest)),
    };
    let resps = peer_resps(chain_len, b, h, req.amount);
    futures::executor::block_on(client::decode_and_verify(req, &resps)).map_err(P2pError::HeaderEx)
}

struct C27 {
    rt: tokio::runtime::Runtime,
}

impl C27 {
    fn gvr(&self, line: &str) -> Option<String> {
        let fh = arg_u64(line, "from")?;
        let kind = arg(line, "fromkind")?;
        let amount = arg_u64(line, "amount")?;
        let chain_len = arg_u64(line, "chain")?.min(CHAIN);
        let order = unnatl(arg(line, "order")?)?;
        let behs = parse_behs(arg(line, "beh")?)?;
        let fuel = arg_u64(line, "fuel")?;
        let p = pool();
        let from: ExtendedHeader = match kind {
            "ok" => p.a.get((fh.checked_sub(1)?) as usize)?.clone(),
            "invalid" => {
                let mut h = p.a.get((fh.checked_sub(1)?) as usize)?.clone();
                invalidate(&mut h);
                h
            }
            "other" => p.b.get((fh.checked_sub(1)?) as usize)?.clone(),
            "high" => p.high.get((fh.checked_sub(HIGH_START)?) as usize)?.clone(),
            _ => return None,
        };
        if from.height() != fh {
            return None;
        }
        let _guard = self.rt.enter();
        let (p2p, mut rx) = vp2p::header_range_p2p(64);
        let mut fut: Pin<Box<dyn Future<Output = Result<Vec<ExtendedHeader>, P2pError>> + '_>> =
            p2p.get_verified_headers_range(&from, amount);
        let waker = futures::task::noop_waker();
        let mut cx = Context::from_waker(&waker);
        let mut outstanding: Vec<(u64, u64, hs::Responder)> = vec![];
        let mut j: u64 = 0;
        let mut first = true;
        loop {
            // settle: poll until no new request shows up
            let mut done = None;
            for _ in 0..64 {
                if let Poll::Ready(r) = fut.as_mut().poll(&mut cx) {
                    done = Some(r);
                    break;
                }
                let mut got = false;
                while let Some((req, tx)) = rx.try_next() {
                    let origin = match req.data {
                        Some(Data::Origin(o)) => o,
                        _ => u64::MAX,
                    };
                    outstanding.push((origin, req.amount, tx));
                    got = true;
                }
                if !got {
                    break;
                }
            }
            if first {
                // the model lists the initial batches from the top of the range downwards
                outstanding.sort_by(|x, y| y.0.cmp(&x.0));
                first = false;
            }
            if let Some(r) = done {
                return Some(match r {
                    Ok(hdrs) => {
                        let hts: Vec<u64> = hdrs.iter().map(|h| h.height()).collect();
                        // identity: every returned header is the served chain's header of that height
                        let same = hdrs.iter().all(|h| p.a.get((h.height() - 1) as usize).is_some_and(|x| x == h));
                        if !same {
                            format!("ok foreign-headers steps={j}")
                        } else {
                            format!("ok {} steps={j}", show_runs(&hts))
                        }
                    }
                    Err(P2pError::HeaderEx(e)) => format!("err {} steps={j}", err_name(&e)),
                    Err(_) => format!("err Fatal steps={j}"),
                });
            }
            if j >= fuel {
                return Some("hang".into());
            }
            if outstanding.is_empty() {
                return Some("stuck".into());
            }
            let pick = if order.is_empty() { 0 } else { order[(j % order.len() as u64) as usize] };
            let idx = (pick % outstanding.len() as u64) as usize;
            let (h, a, tx) = outstanding.remove(idx);
            let b = if behs.is_empty() { Beh::Full } else { behs[(j % behs.len() as u64) as usize] };
            let req = HeaderRequest { data: Some(Data::Origin(h)), amount: a };
            match b {
                Beh::Dropped => drop(tx),
                Beh::EmptyOk => {
                    let _ = tx.send(Ok(vec![]));
                }
                _ => {
                    let _ = tx.send(client_answer(chain_len, b, &req));
                }
            }
            j += 1;
        }
    }
}

impl Prop for C27 {
    fn id(&self) -> &'static str {
        "C27"
    }
    fn rule(&self) -> &'static str {
        "One op = one complete call of the real P2p::get_verified_headers_range against a simulated header-ex client \
         (real is_valid gate + real decode_and_verify_responses over real encoded headers of a 2700-header chain), \
         hand-polled, with the answering order and the per-answer peer behaviour (full / at most k / NOT_FOUND / INVALID; S9: `Ok(vec![])` handed \
         to the session directly, and a dropped responder = non-HeaderEx error) \
         given by cyclic patterns in the op and a step budget that turns a hang into the outcome `hang`. Amounts 0, \
         1..600 (quick: a sample; thorough: every amount) served fully and by truncating-but-progressing peers, amounts at and around the u64 overflow boundary for small and \
         near-i64::MAX start heights, `from` valid / invalidated / from another chain, chains shorter than the request; S10 size-threshold \
         amounts (tags thr/…) 55..57, 255..257, 503..505, 519..521, 575..577, 1023..1025, 2000, 2001, 2047..2049, 2600 (batch-size clamp \
         boundaries, 8/9 batches of 64, powers of two +-1, 2000+ headers) served fully, by peers truncating at 63/64/65/511/512/513 headers, \
         and from chains ending at / just below the top of the range. \
         Non-trivial = every op; distinct = distinct (op, result) lines."
    }
    fn gen_ops(&mut self, rng: &mut Rng, tier: Tier, out: &mut Emitter) {
        let thorough = tier == Tier::Thorough;
        let pat = |rng: &mut Rng| -> String {
            match rng.below(4) {
                0 => "0".into(),
                1 => "7".into(),
                _ => natl(&(0..rng.range(1, 9)).map(|_| rng.below(8)).collect::<Vec<_>>()),
            }
        };
        // amount 0
        for kind in ["ok", "ok", "ok", "ok", "ok", "ok", "invalid", "invalid", "other", "other"] {
            let from = rng.range(1, 60);
            out.op(
                format!("gvr from={from} fromkind={kind} amount=0 chain={CHAIN} order={} beh=f fuel=40", pat(rng)),
                "amount-0",
                true,
            );
        }
        // served: every amount (thorough) / a sample
        let amounts: Vec<u64> = if thorough {
            (1..=600).collect()
        } else {
            let mut v: Vec<u64> = vec![1, 2, 7, 8, 9, 63, 64, 65, 127, 128, 129, 511, 512, 513, 520, 600];
            for _ in 0..70 {
                v.push(rng.range(1, 600));
            }
            v
        };
        for &amount in &amounts {
            let from = rng.range(1, 60);
            out.op(
                format!("gvr from={from} fromkind=ok amount={amount} chain={CHAIN} order={} beh=f fuel={}", pat(rng), amount + rng.below(3)),
                "served",
                true,
            );
        }
        // served by truncating-but-progressing peers (every answer delivers >= 1 header): must return
        for _ in 0..(if thorough { 300 } else { 60 }) {
            let from = rng.range(1, 60);
            let amount = rng.range(1, 400);
            let behs: Vec<String> = (0..rng.range(1, 6))
                .map(|_| if rng.chance(1, 3) { "f".to_string() } else { format!("p{}", rng.range(1, 70)) })
                .collect();
            out.op(
                format!(
                    "gvr from={from} fromkind=ok amount={amount} chain={CHAIN} order={} beh={} fuel={}",
                    pat(rng),
                    behs.join(","),
                    amount + rng.below(3)
                ),
                "served-truncating",
                true,
            );
        }
        // faulty peers that eventually deliver, truncating peers, permanent faults, short chains
        let n = if thorough { 1500 } else { 300 };
        for _ in 0..n {
            let from = rng.range(1, 60);
            let amount = rng.range(1, 300);
            let behs: Vec<String> = (0..rng.range(1, 6))
                .map(|_| match rng.below(6) {
                    0 => "n".to_string(),
                    1 => "i".to_string(),
                    2 => format!("p{}", rng.range(0, 20)),
                    _ => "f".to_string(),
                })
                .collect();
            let chain = if rng.chance(1, 4) { from + amount - rng.range(1, amount.min(70)) } else { CHAIN };
            let fuel = rng.range(20, 400);
            let kind = *rng.pick(&["ok", "ok", "ok", "ok", "other", "invalid"]);
            out.op(
                format!("gvr from={from} fromkind={kind} amount={amount} chain={chain} order={} beh={} fuel={fuel}", pat(rng), behs.join(",")),
                "faulty",
                true,
            );
        }
        // u64 overflow boundary of `height + amount - 1`
        for _ in 0..(if thorough { 60 } else { 12 }) {
            let from = rng.range(1, 60);
            for amount in [u64::MAX, u64::MAX - from, u64::MAX - from - 1, u64::MAX - from - 2, u64::MAX - from + 1, u64::MAX / 2 + rng.below(5)] {
                out.op(
                    format!("gvr from={from} fromkind=ok amount={amount} chain={CHAIN} order={} beh=f fuel=30", pat(rng)),
                    "overflow-boundary",
                    true,
                );
            }
        }
        // S9: empty-but-successful answers (`Ok(vec![])`: nothing stored, the same request rescheduled) mixed with
        // answers that deliver, alone (never finishes), and a dropped responder (non-HeaderEx error: `run` returns it)
        // after 0.. answered requests
        for k in 0..(if thorough { 300 } else { 48 }) {
            let from = rng.range(1, 60);
            let amount = rng.range(1, 300);
            let fuel = rng.range(20, 400);
            let (behs, tag): (Vec<String>, &str) = match k % 4 {
                0 => {
                    let mut v: Vec<String> = (0..rng.range(1, 5))
                        .map(|_| match rng.below(4) {
                            0 => "e".to_string(),
                            1 => format!("p{}", rng.range(1, 40)),
                            _ => "f".to_string(),
                        })
                        .collect();
                    v.insert(rng.usize(0, v.len()), "e".into());
                    (v, "empty-ok-mixed")
                }
                1 => {
                    let mut v: Vec<String> = (0..rng.range(0, 4))
                        .map(|_| match rng.below(5) {
                            0 => "n".to_string(),
                            1 => "i".to_string(),
                            2 => "e".to_string(),
                            _ => "f".to_string(),
                        })
                        .collect();
                    v.insert(rng.usize(0, v.len()), "d".into());
                    (v, "dropped-responder")
                }
                2 => (vec!["e".into()], "empty-ok-only"),
                _ => {
                    // the responder of the (n+1)-th answered request is dropped
                    let n = rng.usize(0, 12);
                    let mut v = vec!["f".to_string(); n];
                    v.push("d".into());
                    (v, "dropped-responder")
                }
            };
            out.op(
                format!("gvr from={from} fromkind=ok amount={amount} chain={CHAIN} order={} beh={} fuel={fuel}", pat(rng), behs.join(",")),
                tag,
                true,
            );
        }
        // S10 size-threshold stress: amounts straddling every boundary of the session's batch-size clamp
        // (ceil(n/8) clamped to 8..=64: 56/57, 64/65, 504/505, 512/513), of the 8 concurrent requests (8*64, 9*64),
        // of the peer's 512-header answer cap, powers of two +-1 and 2000+ headers: served fully, by peers that
        // truncate at 63/64/65/511/512/513 headers, and from chains that end exactly at / one short of the range
        let thr: [u64; 24] = [
            55, 56, 57, 255, 256, 257, 503, 504, 505, 519, 520, 521, 575, 576, 577, 1023, 1024, 1025, 2000, 2001, 2047, 2048, 2049, 2600,
        ];
        for (k, &amount) in thr.iter().enumerate() {
            let from = rng.range(1, 60);
            out.op(
                format!("gvr from={from} fromkind=ok amount={amount} chain={CHAIN} order={} beh=f fuel={}", pat(rng), amount + rng.below(3)),
                "thr/served",
                true,
            );
            if thorough || k % 3 == 0 {
                let behs: Vec<String> =
                    (0..rng.range(1, 4)).map(|_| format!("p{}", *rng.pick(&[63u64, 64, 65, 511, 512, 513]))).collect();
                out.op(
                    format!("gvr from={from} fromkind=ok amount={amount} chain={CHAIN} order={} beh={} fuel={}", pat(rng), behs.join(","), amount + rng.below(3)),
                    "thr/served-truncating",
                    true,
                );
            }
            if thorough || k % 3 == 1 {
                // the served chain ends exactly at the top of the range / one or two headers short of it
                let chain = from + amount - rng.below(3);
                out.op(
                    format!("gvr from={from} fromkind=ok amount={amount} chain={chain} order={} beh=f fuel={}", pat(rng), rng.range(60, 400)),
                    "thr/short-chain",
                    true,
                );
            }
        }
        if !pool().high.is_empty() {
            for _ in 0..(if thorough { 40 } else { 8 }) {
                let from = HIGH_START + rng.below(10);
                let base = u64::MAX - from; // height + amount overflows iff amount > base - 1
                for amount in [0, 1, 70, base - 2, base - 1, base, base + 1, u64::MAX] {
                    out.op(
                        format!("gvr from={from} fromkind=high amount={amount} chain={CHAIN} order={} beh=f fuel=30", pat(rng)),
                        "high-start",
                        true,
                    );
                }
            }
        }
    }
    fn run(&mut self, line: &str) -> String {
        match opname(line) {
            "reset" => "ok".into(),
            "gvr" => self.gvr(line).unwrap_or_else(|| "bad-op".into()),
            _ => "bad-op".into(),
        }
    }
}

fn main() {
    let _ = pool();
    let rt = tokio::runtime::Builder::new_current_thread().enable_all().build().unwrap();
    main_for(C27 { rt });
}

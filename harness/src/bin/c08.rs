//! C08 — The extended square is a two-dimensional erasure code.
//!
//! Ops (stateless):
//!   extend ver=V valid=0|1 ods=<shares> q1= q2= q3= q3c=     the real `ExtendedDataSquare::from_ods`
//!        q1..q3: the real codec's parity for the three passes (oracle for the model's `enc`);
//!        q3c: the real codec applied to the COLUMNS of Q1 (what a column codeword needs Q3 to be)
//!   new ver=V valid=0|1 data=<shares>                         the real `ExtendedDataSquare::new`
//!   recon k=K full=<2k shares> mask=<0/1 per share>           the real `leopard_codec::reconstruct` on an erased codeword
//!   linear k=K a=<k shares> b=<k shares>                      additivity + bytewise action of the real `leopard_codec::encode`
#[path = "../d2_common.rs"]
mod d2_common;
#[path = "../d_common.rs"]
mod d_common;

use celestia_types::consts::appconsts::AppVersion;
use celestia_types::consts::data_availability_header::max_extended_square_width;
use celestia_types::nmt::{NS_SIZE, Namespace};
use celestia_types::{AxisType, ExtendedDataSquare};
use d2_common::*;
use verif_harness::*;

struct C08;

fn encode_real(data: &[Vec<u8>]) -> Option<Vec<Vec<u8>>> {
    let k = data.len();
    let size = data.first().map(|s| s.len()).unwrap_or(0);
    let mut shards = data.to_vec();
    shards.resize(2 * k, vec![0u8; size]);
    leopard_codec::encode(&mut shards, k).ok()?;
    Some(shards.split_off(k))
}

/// the real codec applied to the columns of Q1, laid out row-major like Q3
fn q3_from_q1_columns(q1: &[Vec<u8>], k: usize) -> Option<Vec<Vec<u8>>> {
    let mut out = vec![vec![]; k * k];
    for c in 0..k {
        let col: Vec<Vec<u8>> = (0..k).map(|r| q1[r * k + c].clone()).collect();
        let p = encode_real(&col)?;
        for r in 0..k {
            out[r * k + c] = p[r].clone();
        }
    }
    Some(out)
}

fn extend_line(ver: u64, valid: bool, ods: &[Vec<u8>]) -> String {
    let k = isqrt(ods.len());
    let oracle = match extend_oracle(ods) {
        Some((q1, q2, q3)) => {
            let q3c = q3_from_q1_columns(&q1, k).map(|q| hxl(&q)).unwrap_or_else(|| "-".into());
            format!("q1={} q2={} q3={} q3c={}", hxl(&q1), hxl(&q2), hxl(&q3), q3c)
        }
        None => "q1=- q2=- q3=- q3c=-".to_string(),
    };
    format!("extend ver={ver} valid={} ods={} {}", valid as u8, hxl(ods), oracle)
}

fn new_line(ver: u64, valid: bool, shares: &[Vec<u8>]) -> String {
    format!("new ver={ver} valid={} data={}", valid as u8, hxl(shares))
}

fn recon_line(k: usize, full: &[Vec<u8>], mask: &[bool]) -> String {
    let m: String = mask.iter().map(|b| if *b { '1' } else { '0' }).collect();
    format!("recon k={k} full={} mask={m}", hxl(full))
}

fn random_mask(rng: &mut Rng, n: usize, present: usize) -> Vec<bool> {
    let mut idx: Vec<usize> = (0..n).collect();
    rng.shuffle(&mut idx);
    let mut m = vec![false; n];
    for i in idx.into_iter().take(present) {
        m[i] = true;
    }
    m
}

impl C08 {
    fn gen_valid(&mut self, rng: &mut Rng, k: usize, recons: usize, out: &mut Emitter) {
        let ver = rng.range(1, 7);
        let app = AppVersion::from_u64(ver).unwrap();
        let (ods, nss) = d_common::gen_ods(rng, k);
        out.op(extend_line(ver, true, &ods), &format!("extend/valid-k{k}"), true);
        let eds = ExtendedDataSquare::from_ods(ods.clone(), app).expect("valid ods");
        let full: Vec<Vec<u8>> = eds.data_square().iter().map(|s| s.to_vec()).collect();
        out.op(new_line(ver, true, &full), &format!("new/valid-w{}", 2 * k), true);

        // reconstruction of real axes: upper/lower rows, left/right columns
        let w = 2 * k;
        for _ in 0..recons {
            let i = rng.usize(0, w - 1) as u16;
            let ax = if rng.bool() { AxisType::Row } else { AxisType::Col };
            let axis: Vec<Vec<u8>> = eds.axis(ax, i).unwrap().iter().map(|s| s.to_vec()).collect();
            let tag = match (ax, (i as usize) < k) {
                (AxisType::Row, true) => "recon/upper-row",
                (AxisType::Row, false) => "recon/lower-row",
                (AxisType::Col, true) => "recon/left-column",
                (AxisType::Col, false) => "recon/right-column",
            };
            // exactly half, at random
            out.op(recon_line(k, &axis, &random_mask(rng, w, k)), &format!("{tag}/half"), true);
            // only the parity half, only the data half
            let mut m = vec![false; w];
            for x in m.iter_mut().skip(k) {
                *x = true;
            }
            out.op(recon_line(k, &axis, &m), &format!("{tag}/parity-only"), true);
            // more than half, everything, one too few
            let p = rng.usize(k, w);
            out.op(recon_line(k, &axis, &random_mask(rng, w, p)), &format!("{tag}/more-than-half"), true);
            if k >= 1 {
                out.op(recon_line(k, &axis, &random_mask(rng, w, k - 1)), &format!("{tag}/too-few"), true);
            }
        }

        // ---- malformed original squares
        let n = ods.len();
        {
            let mut o = ods.clone();
            o.pop();
            out.op(extend_line(ver, false, &o), "extend/not-square", true);
            let mut o = ods.clone();
            o.push(ods[n - 1].clone());
            out.op(extend_line(ver, false, &o), "extend/not-square", true);
            let mut o = ods.clone();
            let i = rng.usize(0, n - 1);
            match rng.below(4) {
                0 => {
                    o[i].pop();
                }
                1 => o[i].push(0),
                2 => o[i].truncate(64),
                _ => o[i].clear(),
            }
            out.op(extend_line(ver, false, &o), "extend/wrong-share-size", true);
            if nss.len() > 1 && n > 1 {
                let mut o = ods.clone();
                o.reverse();
                out.op(extend_line(ver, false, &o), "extend/unsorted-reversed", true);
                let mut o = ods.clone();
                let i = rng.usize(0, n - 1);
                let mut j = rng.usize(0, n - 1);
                if i == j {
                    j = (j + 1) % n;
                }
                o.swap(i, j);
                // a swap may keep the order (same namespace): the spec decides
                out.op(extend_line(ver, o == ods, &o), "extend/swapped", true);
            }
            // whole rows / whole columns exchanged: every row stays sorted but columns do not (and vice versa)
            if k >= 2 {
                let r1 = rng.usize(0, k - 2);
                let r2 = rng.usize(r1 + 1, k - 1);
                let mut o = ods.clone();
                for c in 0..k {
                    o.swap(r1 * k + c, r2 * k + c);
                }
                out.op(extend_line(ver, o == ods, &o), "extend/rows-exchanged", true);
                let mut o = ods.clone();
                for r in 0..k {
                    o.swap(r * k + r1, r * k + r2);
                }
                out.op(extend_line(ver, o == ods, &o), "extend/columns-exchanged", true);
                let mut f = full.clone();
                for c in 0..w {
                    f.swap(r1 * w + c, r2 * w + c);
                }
                out.op(new_line(ver, f == full, &f), "new/rows-exchanged", true);
                let mut f = full.clone();
                for r in 0..w {
                    f.swap(r * w + r1, r * w + r2);
                }
                out.op(new_line(ver, f == full, &f), "new/columns-exchanged", true);
            }
            let mut o = ods.clone();
            o[0][0] = rng.range(1, 254) as u8;
            out.op(extend_line(ver, false, &o), "extend/bad-namespace-version", true);
            let mut o = ods.clone();
            o[n - 1][NS_SIZE] = 2;
            out.op(extend_line(ver, ver >= 3, &o), "extend/share-version-1", true);
        }
        // ---- malformed extended squares for `new`
        {
            let mut f = full.clone();
            f.pop();
            out.op(new_line(ver, false, &f), "new/not-square", true);
            let mut f = full.clone();
            let i = rng.usize(0, f.len() - 1);
            f[i].pop();
            out.op(new_line(ver, false, &f), "new/wrong-share-size", true);
            let mut f = full.clone();
            let i = rng.usize(0, f.len() - 1);
            let j = rng.usize(0, f.len() - 1);
            f.swap(i, j);
            out.op(new_line(ver, f == full, &f), "new/swapped", true);
            // corrupt parity bytes: `new` does not check the encoding, only shape and order
            let mut f = full.clone();
            let last = f.len() - 1;
            f[last][100] ^= 0x55;
            out.op(new_line(ver, true, &f), "new/corrupt-parity-still-wellformed", true);
            // transpose (valid again: sortedness is symmetric)
            let mut t = vec![vec![]; f.len()];
            for r in 0..w {
                for c in 0..w {
                    t[c * w + r] = full[r * w + c].clone();
                }
            }
            out.op(new_line(ver, true, &t), "new/transposed", true);
        }
    }

    fn gen_shapes(&mut self, rng: &mut Rng, out: &mut Emitter) {
        let ver = rng.range(1, 7);
        for k in [3usize, 5, 6, 7] {
            let (ods, _) = d_common::gen_ods(rng, k);
            out.op(extend_line(ver, false, &ods), "extend/width-not-power-of-two", true);
        }
        out.op(extend_line(ver, false, &[]), "extend/empty", true);
        let pad = d_common::ods_share(rng, &Namespace::TAIL_PADDING);
        for w in [1usize, 3, 6] {
            let shares: Vec<Vec<u8>> = (0..w * w).map(|_| pad.clone()).collect();
            out.op(new_line(ver, false, &shares), "new/width-not-power-of-two-or-too-small", true);
        }
        out.op(new_line(ver, false, &[]), "new/empty", true);
        // above the app version's bound: a 512 x 512 extended square (up to version 5 the bound is 256 x 256) and a
        // 129 x 129 original square (bound 128 x 128); the share bytes do not matter for the size checks
        let small_ver = rng.range(1, 5);
        out.op(new_line(small_ver, false, &vec![vec![]; 512 * 512]), "new/above-size-bound", true);
        out.op(new_line(small_ver, false, &vec![vec![]; 256 * 256 + 1]), "new/above-size-bound", true);
        out.op(extend_line(small_ver, false, &vec![vec![]; 129 * 129]), "extend/above-size-bound", true);
        // all-parity-namespace and tail-padding-only squares are valid
        for ns in [Namespace::PARITY_SHARE, Namespace::TAIL_PADDING] {
            let k = *rng.pick(&[1usize, 2, 4]);
            let ods: Vec<Vec<u8>> = (0..k * k).map(|_| d_common::ods_share(rng, &ns)).collect();
            out.op(extend_line(ver, true, &ods), "extend/reserved-namespace-only", true);
        }
    }

    /// "out-of-bounds size" (added after tools/coverage.sh showed `shares.len() > max_shares` in
    /// `ExtendedDataSquare::new` was never taken): one share more than the largest extended square of the
    /// app version, and exactly the largest one (passes the size check, fails later on the share size).
    /// Shares are empty (`_`) so that the op line stays small; one app version per distinct upper bound.
    fn gen_out_of_bounds(&mut self, rng: &mut Rng, thorough: bool, out: &mut Emitter) {
        let mut seen = vec![];
        for ver in 1..=7u64 {
            let app = AppVersion::from_u64(ver).unwrap();
            let maxw = max_extended_square_width(app);
            if seen.contains(&maxw) && !thorough {
                continue;
            }
            seen.push(maxw);
            let over: Vec<Vec<u8>> = vec![vec![]; maxw * maxw + 1];
            out.op(new_line(ver, false, &over), "new/too-many-shares", true);
            let at: Vec<Vec<u8>> = vec![vec![]; maxw * maxw];
            out.op(new_line(ver, false, &at), "new/max-shares-wrong-share-size", true);
            // the next square number of shares above the bound (a perfect, power-of-two square: only the bound rejects it)
            if maxw <= 256 || thorough {
                let next: Vec<Vec<u8>> = vec![vec![]; 4 * maxw * maxw];
                out.op(new_line(ver, false, &next), "new/next-square-above-bound", true);
            }
            let _ = rng;
        }
    }

    fn gen_linear(&mut self, rng: &mut Rng, k: usize, out: &mut Emitter) {
        let a: Vec<Vec<u8>> = (0..k).map(|_| rng.bytes(SHARE)).collect();
        let b: Vec<Vec<u8>> = (0..k).map(|_| rng.bytes(SHARE)).collect();
        out.op(format!("linear k={k} a={} b={}", hxl(&a), hxl(&b)), &format!("linear/k{k}"), true);
        // random codeword (not an EDS axis), erased down to exactly half
        let mut full = a.clone();
        full.extend(encode_real(&a).unwrap());
        out.op(recon_line(k, &full, &random_mask(rng, 2 * k, k)), "recon/random-codeword/half", true);
    }
}

impl Prop for C08 {
    fn id(&self) -> &'static str {
        "C08"
    }
    fn rule(&self) -> &'static str {
        "extend: valid original squares of width 1,2,4,8,16(,32,64) with random sorted namespaces (every line carries the real \
         codec's parity for the three passes and, independently, the real codec applied to the columns of Q1); malformed ones: \
         non-square counts, widths 3,5,6,7, wrong share sizes, reversed / swapped (unsorted), bad namespace version, share version 1, \
         empty.  new: valid extended squares, their transposes, corrupted parity (still well-formed) and malformed shapes.  recon: \
         upper/lower rows and left/right columns of real squares and random codewords, erased to exactly half at random, to the parity \
         half only, to more than half, and to one fewer than half, through the real leopard reconstruct.  linear: additivity and bytewise \
         action of the real encoder for k = 1..128.  Non-trivial = every op; distinct = distinct (op, result) lines."
    }
    fn gen_ops(&mut self, rng: &mut Rng, tier: Tier, out: &mut Emitter) {
        let thorough = tier == Tier::Thorough;
        let plan: &[(usize, usize, usize)] = if thorough {
            &[(1, 30, 4), (2, 30, 6), (4, 20, 8), (8, 10, 8), (16, 4, 8), (32, 2, 6), (64, 1, 4)]
        } else {
            &[(1, 4, 2), (2, 5, 3), (4, 4, 4), (8, 2, 4), (16, 1, 4)]
        };
        for &(k, squares, recons) in plan {
            for _ in 0..squares {
                self.gen_valid(rng, k, recons, out);
            }
        }
        for _ in 0..(if thorough { 8 } else { 2 }) {
            self.gen_shapes(rng, out);
        }
        self.gen_out_of_bounds(rng, thorough, out);
        if thorough {
            // a VALID original square wider than the codec supports (129 x 129, app version 7 allows up to 512):
            // lumina cannot extend it (known finding C08/valid-ods-wider-than-codec-rejected)
            let share = d_common::ods_share(rng, &Namespace::TAIL_PADDING);
            out.op(extend_line(7, true, &vec![share; 129 * 129]), "extend/valid-wider-than-codec", true);
        }
        let ks: &[usize] = if thorough { &[1, 2, 3, 4, 5, 8, 16, 32, 64, 100, 128] } else { &[1, 2, 4, 8, 16, 32, 128] };
        for &k in ks {
            for _ in 0..(if thorough { 6 } else { 2 }) {
                self.gen_linear(rng, k, out);
            }
        }
    }
    fn run(&mut self, line: &str) -> String {
        match opname(line) {
            "reset" => "ok".into(),
            "extend" => {
                let (Some(ver), Some(ods)) = (arg_u64(line, "ver"), arg(line, "ods").and_then(unhxl)) else {
                    return "bad-op".into();
                };
                let Some(app) = AppVersion::from_u64(ver) else { return "bad-op".into() };
                match ExtendedDataSquare::from_ods(ods, app) {
                    Ok(eds) => eds_result(&eds),
                    Err(e) => format!("err {}", d_common::err_kind(&e)),
                }
            }
            "new" => {
                let (Some(ver), Some(data)) = (arg_u64(line, "ver"), arg(line, "data").and_then(unhxl)) else {
                    return "bad-op".into();
                };
                let Some(app) = AppVersion::from_u64(ver) else { return "bad-op".into() };
                match ExtendedDataSquare::new(data, "Leopard".to_string(), app) {
                    Ok(_) => "ok".into(),
                    Err(e) => format!("err {}", d_common::err_kind(&e)),
                }
            }
            "recon" => {
                let (Some(k), Some(full), Some(mask)) = (arg_u64(line, "k"), arg(line, "full").and_then(unhxl), arg(line, "mask")) else {
                    return "bad-op".into();
                };
                let mut shards: Vec<Vec<u8>> =
                    full.iter().zip(mask.chars()).map(|(s, m)| if m == '1' { s.clone() } else { vec![] }).collect();
                match leopard_codec::reconstruct(&mut shards, k as usize) {
                    Ok(()) => format!("ok {}", hxl(&shards)),
                    Err(_) => "err".into(),
                }
            }
            "linear" => {
                let (Some(a), Some(b)) = (arg(line, "a").and_then(unhxl), arg(line, "b").and_then(unhxl)) else {
                    return "bad-op".into();
                };
                let x: Vec<Vec<u8>> = a.iter().zip(b.iter()).map(|(p, q)| p.iter().zip(q.iter()).map(|(u, v)| u ^ v).collect()).collect();
                let (Some(ea), Some(eb), Some(ex)) = (encode_real(&a), encode_real(&b), encode_real(&x)) else {
                    return "err".into();
                };
                let additive = ea.iter().zip(eb.iter()).zip(ex.iter()).all(|((p, q), r)| p.iter().zip(q.iter()).zip(r.iter()).all(|((u, v), t)| u ^ v == *t));
                // bytewise: changing byte position 7 of every data shard changes only byte position 7 of the parity
                let mut a2 = a.clone();
                for s in a2.iter_mut() {
                    s[7] = s[7].wrapping_add(1).wrapping_add(s[8] | 1);
                }
                let ea2 = encode_real(&a2).unwrap();
                let bytewise = ea.iter().zip(ea2.iter()).all(|(p, q)| p.iter().zip(q.iter()).enumerate().all(|(i, (u, v))| i == 7 || u == v));
                if !additive {
                    "violated-additive".into()
                } else if !bytewise {
                    "violated-bytewise".into()
                } else {
                    "ok".into()
                }
            }
            _ => "bad-op".into(),
        }
    }
}

fn main() {
    main_for(C08);
}

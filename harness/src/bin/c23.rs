//! C23 — Redb schema migration preserves stored ranges.
//!
//! Every op builds a fresh in-memory redb database with RAW redb calls (the on-disk layout of
//! schema v1 / v2 / v3 / newer, with valid and invalid range tables), opens it with the real
//! `RedbStore::new`, and prints: the result, a raw dump of the database afterwards, and what the
//! opened store reports as stored / sampled / pruned ranges.  Table and key names are the
//! literal ON-DISK names (old databases were written with them), not the crate's constants.
use std::sync::Arc;

use lumina_node::store::{RedbStore, Store};
use redb::{Database, ReadableTable, TableDefinition, TableError};
use verif_harness::*;

const SCHEMA_VERSION_TABLE: TableDefinition<'static, (), u64> = TableDefinition::new("STORE.SCHEMA_VERSION");
const V1_HEIGHT_RANGES: TableDefinition<'static, u64, (u64, u64)> = TableDefinition::new("STORE.HEIGHT_RANGES");
const RANGES_TABLE: TableDefinition<'static, &str, Vec<(u64, u64)>> = TableDefinition::new("STORE.RANGES");
const HEIGHTS_TABLE: TableDefinition<'static, &[u8], u64> = TableDefinition::new("STORE.HEIGHTS");
const HEADERS_TABLE: TableDefinition<'static, u64, &[u8]> = TableDefinition::new("STORE.HEADERS");
const SAMPLING_METADATA_TABLE: TableDefinition<'static, u64, &[u8]> =
    TableDefinition::new("STORE.SAMPLING_METADATA");
const LIBP2P_IDENTITY_TABLE: TableDefinition<'static, (), &[u8]> = TableDefinition::new("LIBP2P.IDENTITY");

const LETTERS: [(&str, &str); 5] = [
    ("H", "KEY.HEADER_RANGES"),
    ("S", "KEY.SAMPLED_RANGES"),
    ("P", "KEY.PRUNED_RANGES"),
    ("A", "KEY.ACCEPTED_SAMPING_RANGES"),
    ("O", "KEY.OTHER"),
];
const NEW_ID_BASE: u64 = 1_000_000;

type Raw = Vec<(u64, u64)>;

fn key_of(letter: &str) -> Option<&'static str> {
    LETTERS.iter().find(|(l, _)| *l == letter).map(|(_, k)| *k)
}

fn show_raw(r: &[(u64, u64)]) -> String {
    if r.is_empty() { "_".into() } else { r.iter().map(|(a, b)| format!("{a}-{b}")).collect::<Vec<_>>().join(".") }
}
fn parse_range(s: &str) -> Option<(u64, u64)> {
    let (a, b) = s.split_once('-')?;
    Some((a.parse().ok()?, b.parse().ok()?))
}
fn parse_raw(s: &str) -> Option<Raw> {
    if s == "_" { Some(vec![]) } else { s.split('.').map(parse_range).collect() }
}

struct DbSpec {
    ver: Option<u64>,
    hr: Option<Vec<(u64, (u64, u64))>>,
    rt: Option<Vec<(&'static str, Raw)>>,
    tabs: [bool; 3],
    id: Option<Option<u64>>,
}

fn parse_spec(line: &str) -> Option<DbSpec> {
    let ver = match arg(line, "ver")? {
        "none" => None,
        v => Some(v.parse().ok()?),
    };
    let hr = match arg(line, "hr")? {
        "absent" => None,
        "_" => Some(vec![]),
        s => Some(
            s.split(',')
                .map(|e| {
                    let (k, r) = e.split_once(':')?;
                    Some((k.parse().ok()?, parse_range(r)?))
                })
                .collect::<Option<Vec<_>>>()?,
        ),
    };
    let rt = match arg(line, "rt")? {
        "absent" => None,
        "_" => Some(vec![]),
        s => Some(
            s.split('/')
                .map(|e| {
                    let (l, r) = e.split_once(':')?;
                    Some((key_of(l)?, parse_raw(r)?))
                })
                .collect::<Option<Vec<_>>>()?,
        ),
    };
    let t: Vec<char> = arg(line, "tabs")?.chars().collect();
    if t.len() != 3 {
        return None;
    }
    let id = match arg(line, "id")? {
        "absent" => None,
        "empty" => Some(None),
        s => Some(Some(s.parse().ok()?)),
    };
    Some(DbSpec { ver, hr, rt, tabs: [t[0] == '1', t[1] == '1', t[2] == '1'], id })
}

/// build the database with raw redb, one committed write transaction
fn build(spec: &DbSpec) -> Arc<Database> {
    let db = Database::builder().create_with_backend(redb::backends::InMemoryBackend::new()).unwrap();
    let tx = db.begin_write().unwrap();
    {
        if let Some(v) = spec.ver {
            tx.open_table(SCHEMA_VERSION_TABLE).unwrap().insert((), v).unwrap();
        }
        if let Some(hr) = &spec.hr {
            let mut t = tx.open_table(V1_HEIGHT_RANGES).unwrap();
            for (k, v) in hr {
                t.insert(*k, *v).unwrap();
            }
        }
        if let Some(rt) = &spec.rt {
            let mut t = tx.open_table(RANGES_TABLE).unwrap();
            for (k, v) in rt {
                t.insert(*k, v.clone()).unwrap();
            }
        }
        if spec.tabs[0] {
            tx.open_table(HEIGHTS_TABLE).unwrap().insert(&b"some-hash"[..], 77).unwrap();
        }
        if spec.tabs[1] {
            tx.open_table(HEADERS_TABLE).unwrap().insert(77, &b"not-a-header"[..]).unwrap();
        }
        if spec.tabs[2] {
            tx.open_table(SAMPLING_METADATA_TABLE).unwrap().insert(77, &b"meta"[..]).unwrap();
        }
        if let Some(id) = spec.id {
            let mut t = tx.open_table(LIBP2P_IDENTITY_TABLE).unwrap();
            if let Some(tok) = id {
                t.insert((), &tok.to_le_bytes()[..]).unwrap();
            }
        }
    }
    tx.commit().unwrap();
    Arc::new(db)
}

fn exists<T>(r: Result<T, TableError>) -> Option<T> {
    match r {
        Ok(t) => Some(t),
        Err(TableError::TableDoesNotExist(_)) => None,
        Err(e) => panic!("dump: {e}"),
    }
}

/// raw dump; `unknown_ids` gives first-appearance names to identity values the op did not write
fn dump(db: &Database, unknown_ids: &mut Vec<Vec<u8>>, seeded: [bool; 3]) -> String {
    let tx = db.begin_read().unwrap();
    let ver = match exists(tx.open_table(SCHEMA_VERSION_TABLE)) {
        Some(t) => t.get(()).unwrap().map(|g| g.value()),
        None => None,
    };
    let hr = match exists(tx.open_table(V1_HEIGHT_RANGES)) {
        None => "absent".to_string(),
        Some(t) => {
            let es: Vec<String> = t
                .iter()
                .unwrap()
                .map(|e| {
                    let (k, v) = e.unwrap();
                    let (a, b) = v.value();
                    format!("{}:{a}-{b}", k.value())
                })
                .collect();
            if es.is_empty() { "_".into() } else { es.join(",") }
        }
    };
    let rt = match exists(tx.open_table(RANGES_TABLE)) {
        None => "absent".to_string(),
        Some(t) => {
            let mut parts = vec![];
            for (l, k) in LETTERS {
                if let Some(g) = t.get(k).unwrap() {
                    parts.push(format!("{l}:{}", show_raw(&g.value())));
                }
            }
            // any key this harness does not know about would be a surprise worth seeing
            for e in t.iter().unwrap() {
                let (k, _) = e.unwrap();
                if !LETTERS.iter().any(|(_, kk)| *kk == k.value()) {
                    parts.push(format!("?{}", k.value()));
                }
            }
            if parts.is_empty() { "_".into() } else { parts.join("/") }
        }
    };
    // content tables: '0' = table missing, '1' = present with EXACTLY the content the op line gave it
    // (the seeded row if the line's bit was 1, empty if the table was created by the open),
    // 'X' = present with any other content (row overwritten, removed or added)
    let t0 = match exists(tx.open_table(HEIGHTS_TABLE)) {
        None => '0',
        Some(t) => {
            let rows: Vec<(Vec<u8>, u64)> =
                t.iter().unwrap().map(|e| e.unwrap()).map(|(k, v)| (k.value().to_vec(), v.value())).collect();
            let want: Vec<(Vec<u8>, u64)> = if seeded[0] { vec![(b"some-hash".to_vec(), 77)] } else { vec![] };
            if rows == want { '1' } else { 'X' }
        }
    };
    let t1 = match exists(tx.open_table(HEADERS_TABLE)) {
        None => '0',
        Some(t) => {
            let rows: Vec<(u64, Vec<u8>)> =
                t.iter().unwrap().map(|e| e.unwrap()).map(|(k, v)| (k.value(), v.value().to_vec())).collect();
            let want: Vec<(u64, Vec<u8>)> = if seeded[1] { vec![(77, b"not-a-header".to_vec())] } else { vec![] };
            if rows == want { '1' } else { 'X' }
        }
    };
    let t2 = match exists(tx.open_table(SAMPLING_METADATA_TABLE)) {
        None => '0',
        Some(t) => {
            let rows: Vec<(u64, Vec<u8>)> =
                t.iter().unwrap().map(|e| e.unwrap()).map(|(k, v)| (k.value(), v.value().to_vec())).collect();
            let want: Vec<(u64, Vec<u8>)> = if seeded[2] { vec![(77, b"meta".to_vec())] } else { vec![] };
            if rows == want { '1' } else { 'X' }
        }
    };
    let id = match exists(tx.open_table(LIBP2P_IDENTITY_TABLE)) {
        None => "absent".to_string(),
        Some(t) => match t.get(()).unwrap() {
            None => "empty".to_string(),
            Some(g) => {
                let b = g.value().to_vec();
                let tok = (b.len() == 8).then(|| u64::from_le_bytes(b.clone().try_into().unwrap()));
                match tok {
                    Some(n) if n < NEW_ID_BASE => n.to_string(),
                    _ => {
                        let i = match unknown_ids.iter().position(|x| *x == b) {
                            Some(i) => i,
                            None => {
                                unknown_ids.push(b);
                                unknown_ids.len() - 1
                            }
                        };
                        format!("new{}", i + 1)
                    }
                }
            }
        },
    };
    let ver = ver.map(|v| v.to_string()).unwrap_or("none".into());
    format!("ver={ver} hr={hr} rt={rt} tabs={t0}{t1}{t2} id={id}")
}

/// FULL raw content of the database: the sorted list of table names and, for every table this
/// harness can type, every key/value pair byte for byte.  Used to observe "refused WITHOUT
/// MODIFICATION" on the implementation side (not only through the abstract dump).
fn raw_snapshot(db: &Database) -> Vec<String> {
    use redb::TableHandle;
    let tx = db.begin_read().unwrap();
    let mut out: Vec<String> = vec![];
    let mut names: Vec<String> = tx.list_tables().unwrap().map(|h| h.name().to_string()).collect();
    names.sort();
    out.push(format!("tables={}", names.join(",")));
    if let Some(t) = exists(tx.open_table(SCHEMA_VERSION_TABLE)) {
        out.push(format!("schema:{:?}", t.get(()).unwrap().map(|g| g.value())));
    }
    if let Some(t) = exists(tx.open_table(V1_HEIGHT_RANGES)) {
        for e in t.iter().unwrap() {
            let (k, v) = e.unwrap();
            out.push(format!("hr:{}={:?}", k.value(), v.value()));
        }
    }
    if let Some(t) = exists(tx.open_table(RANGES_TABLE)) {
        for e in t.iter().unwrap() {
            let (k, v) = e.unwrap();
            out.push(format!("rt:{}={:?}", k.value(), v.value()));
        }
    }
    if let Some(t) = exists(tx.open_table(HEIGHTS_TABLE)) {
        for e in t.iter().unwrap() {
            let (k, v) = e.unwrap();
            out.push(format!("heights:{}={}", hex::encode(k.value()), v.value()));
        }
    }
    if let Some(t) = exists(tx.open_table(HEADERS_TABLE)) {
        for e in t.iter().unwrap() {
            let (k, v) = e.unwrap();
            out.push(format!("headers:{}={}", k.value(), hex::encode(v.value())));
        }
    }
    if let Some(t) = exists(tx.open_table(SAMPLING_METADATA_TABLE)) {
        for e in t.iter().unwrap() {
            let (k, v) = e.unwrap();
            out.push(format!("meta:{}={}", k.value(), hex::encode(v.value())));
        }
    }
    if let Some(t) = exists(tx.open_table(LIBP2P_IDENTITY_TABLE)) {
        out.push(format!("identity:{:?}", t.get(()).unwrap().map(|g| hex::encode(g.value()))));
    }
    out
}

struct C23 {
    rt: tokio::runtime::Runtime,
}

impl C23 {
    /// one `RedbStore::new` + reports + raw dump
    fn open_once(&self, db: &Arc<Database>, unknown_ids: &mut Vec<Vec<u8>>, seeded: [bool; 3]) -> String {
        let before = raw_snapshot(db);
        let res = self.rt.block_on(async {
            match RedbStore::new(db.clone()).await {
                Ok(store) => {
                    let show = |r: Result<lumina_node::block_ranges::BlockRanges, lumina_node::store::StoreError>| match r {
                        Ok(br) => {
                            let v: Vec<(u64, u64)> =
                                br.into_inner().iter().map(|r| (*r.start(), *r.end())).collect();
                            show_raw(&v)
                        }
                        Err(lumina_node::store::StoreError::StoredDataError(_)) => "err".to_string(),
                        Err(e) => format!("other-error({e})"),
                    };
                    let st = show(store.get_stored_header_ranges().await);
                    let sa = show(store.get_sampled_ranges().await);
                    let pr = show(store.get_pruned_ranges().await);
                    store.close().await.unwrap();
                    Ok((st, sa, pr))
                }
                Err(e) => Err(e),
            }
        });
        let d = dump(db, unknown_ids, seeded);
        let raw = if raw_snapshot(db) == before { "same" } else { "changed" };
        match res {
            Ok((st, sa, pr)) => format!("ok {d} stored={st} sampled={sa} pruned={pr}"),
            Err(e) => {
                let kind = match &e {
                    lumina_node::store::StoreError::OpenFailed(m) => {
                        if m.contains("Incompatible database schema") {
                            "Incompatible".to_string()
                        } else if m.contains("Stored data are inconsistent or invalid") {
                            "StoredData".to_string()
                        } else if m.contains("Received error from executor") {
                            "Executor".to_string()
                        } else {
                            format!("OpenFailed({})", m.replace(' ', "_"))
                        }
                    }
                    other => format!("NotOpenFailed({})", other.to_string().replace(' ', "_")),
                };
                // a refused open must leave EVERY table byte for byte as it was
                format!("err {kind} {d} raw={raw}")
            }
        }
    }
}

// ---------- generators ----------

fn small_or_huge(rng: &mut Rng) -> u64 {
    match rng.below(10) {
        0 => u64::MAX - rng.below(40),
        1 => rng.range(1, u64::MAX),
        _ => rng.range(1, 60),
    }
}

thread_local! {
    /// S10: exact length of the range vectors of the op being generated (0 = the small default)
    static BIG_LEN: std::cell::Cell<usize> = const { std::cell::Cell::new(0) };
}
/// S10: vector lengths straddling the usual container thresholds, and a few large ones
const BIG_LENS: [usize; 16] = [7, 8, 9, 15, 16, 17, 31, 32, 33, 63, 64, 65, 127, 129, 513, 2000];

/// a legal BlockRanges vector (sorted, disjoint; adjacency allowed, as `from_vec` allows it)
fn legal_raw(rng: &mut Rng, max_len: usize) -> Raw {
    // S10 size-threshold stress: when BIG_LEN is set the vector has EXACTLY that many ranges
    let big = BIG_LEN.with(|b| b.get());
    let n = if big > 0 { big } else { rng.usize(0, max_len) };
    let mut out = vec![];
    let mut cur = if big == 0 && rng.chance(1, 8) { u64::MAX - 200 } else { rng.range(1, 10) };
    for _ in 0..n {
        let len = rng.range(0, 6);
        let Some(end) = cur.checked_add(len) else { break };
        out.push((cur, end));
        let gap = if rng.chance(1, 4) { 1 } else { rng.range(2, 9) };
        let Some(next) = end.checked_add(gap) else { break };
        cur = next;
    }
    out
}

/// an illegal vector: one defect injected into a legal one (or plain garbage)
fn illegal_raw(rng: &mut Rng) -> Raw {
    let mut v = legal_raw(rng, 5);
    if v.is_empty() {
        v.push((3, 7));
    }
    let i = rng.usize(0, v.len() - 1);
    match rng.below(6) {
        0 => v[i] = (0, v[i].1),                          // start 0
        1 => v[i] = (v[i].1.saturating_add(1).max(2), v[i].0.min(u64::MAX - 1).max(1)), // start > end
        2 => {
            // overlap with the next (or duplicate)
            let d = v[i];
            v.insert(i, d);
        }
        3 => v.reverse_if_multi(rng),
        4 => {
            // touching by one height: start == prev.end
            let e = v[i].1;
            v.insert(i + 1, (e, e.saturating_add(2)));
        }
        _ => v = (0..rng.usize(1, 4)).map(|_| (small_or_huge(rng), small_or_huge(rng))).collect(),
    }
    v
}

trait RevIfMulti {
    fn reverse_if_multi(&mut self, rng: &mut Rng);
}
impl RevIfMulti for Raw {
    fn reverse_if_multi(&mut self, rng: &mut Rng) {
        if self.len() < 2 {
            self.push((1, 1));
            self.push((1, 1));
        } else {
            self.reverse();
        }
        let _ = rng;
    }
}

fn is_legal(v: &[(u64, u64)]) -> bool {
    v.iter().all(|r| r.0 >= 1 && r.0 <= r.1) && v.windows(2).all(|w| w[0].1 < w[1].0)
}

fn gen_hr(rng: &mut Rng, want_legal: bool) -> (String, bool) {
    // keys increasing with the vector order, inserted in shuffled order; sometimes duplicate keys
    let raw = if want_legal { legal_raw(rng, 6) } else { illegal_raw(rng) };
    if raw.is_empty() {
        return (if rng.bool() { "_".into() } else { "absent".into() }, true);
    }
    let mut key = rng.range(0, 5);
    let mut entries: Vec<(u64, (u64, u64))> = vec![];
    for r in &raw {
        entries.push((key, *r));
        key += rng.range(1, 4);
    }
    // optionally a duplicate key that is later overwritten by the real value
    if rng.chance(1, 4) {
        let (k, _) = entries[rng.usize(0, entries.len() - 1)];
        entries.insert(0, (k, (small_or_huge(rng), small_or_huge(rng))));
        let tail = &mut entries[1..];
        rng.shuffle(tail);
    } else {
        rng.shuffle(&mut entries);
    }
    // legality of what iteration in key order yields
    let mut m = std::collections::BTreeMap::new();
    for (k, v) in &entries {
        m.insert(*k, *v);
    }
    let legal = is_legal(&m.values().cloned().collect::<Vec<_>>());
    (entries.iter().map(|(k, (a, b))| format!("{k}:{a}-{b}")).collect::<Vec<_>>().join(","), legal)
}

fn gen_rt(rng: &mut Rng, letters: &[&str], p_illegal: u64) -> (String, bool) {
    let mut parts = vec![];
    let mut any_nonempty = false;
    for l in letters {
        let raw = if rng.chance(p_illegal, 100) { illegal_raw(rng) } else { legal_raw(rng, 5) };
        any_nonempty |= !raw.is_empty();
        parts.push(format!("{l}:{}", show_raw(&raw)));
    }
    if parts.is_empty() {
        return (if rng.bool() { "_".into() } else { "absent".into() }, false);
    }
    rng.shuffle(&mut parts);
    (parts.join("/"), any_nonempty)
}

fn subset<'a>(rng: &mut Rng, all: &[&'a str], p: u64) -> Vec<&'a str> {
    all.iter().filter(|_| rng.chance(p, 100)).cloned().collect()
}

impl Prop for C23 {
    fn id(&self) -> &'static str {
        "C23"
    }
    fn rule(&self) -> &'static str {
        "each op = one fresh in-memory redb database built with raw redb calls and opened with the real \
         RedbStore::new: schema versions none,0..6 (weighted to 1,2 and to newer 4,5,6); v1 table \
         STORE.HEIGHT_RANGES with keys inserted in shuffled order and overwritten duplicates; STORE.RANGES with any \
         subset of the header/sampled/pruned/v2-sampled/unrelated keys; legal vectors (incl. adjacent ranges and \
         values at u64::MAX) and illegal ones (start 0, start>end, overlap, unsorted, touching); content tables and \
         identity present/absent/empty; `open2` opens the result a second time; S10 size-threshold phase (tags bigN/…): \
         160 (thorough 3000) further ops whose range vectors have EXACTLY N = 7,8,9,15,16,17,31,32,33,63,64,65,127,129,513,2000 \
         ranges (v1 rows and every STORE.RANGES value; legal, or with one defect injected at a random position). Non-trivial = a version 1..6 \
         database that holds at least one non-empty range vector."
    }
    fn gen_ops(&mut self, rng: &mut Rng, tier: Tier, out: &mut Emitter) {
        let n = if tier == Tier::Thorough { 40_000 } else { 2_500 };
        let all = ["H", "S", "P", "A", "O"];
        // S10 size-threshold stress: a second phase whose range vectors (v1 HEIGHT_RANGES rows and every
        // STORE.RANGES value, legal and with one defect injected anywhere) have exactly 7..2000 ranges
        let n_big = if tier == Tier::Thorough { 3_000 } else { 160 };
        for i in 0..n + n_big {
            let big = if i >= n { BIG_LENS[(i - n) % BIG_LENS.len()] } else { 0 };
            BIG_LEN.with(|b| b.set(big));
            let ver: Option<u64> = match rng.below(20) {
                0 => None,
                1 => Some(0),
                2..=6 => Some(1),
                7..=11 => Some(2),
                12..=13 => Some(3),
                14..=15 => Some(4),
                16..=17 => Some(5),
                18 => Some(6),
                _ => Some(rng.range(7, u64::MAX)),
            };
            let (hr, rt, nonempty, tag): (String, String, bool, String);
            match ver {
                Some(1) => {
                    // genuine v1: HEIGHT_RANGES table, usually no RANGES table
                    let legal = rng.chance(3, 4);
                    let (h, _) = gen_hr(rng, legal);
                    let letters = if rng.chance(2, 3) { vec![] } else { subset(rng, &all, 40) };
                    let (r, ne) = gen_rt(rng, &letters, 25);
                    nonempty = ne || (h != "_" && h != "absent");
                    hr = h;
                    rt = r;
                    tag = format!("v1/{}", if legal { "legal-hr" } else { "illegal-hr" });
                }
                Some(2) => {
                    let mut letters = vec!["H", "A"];
                    letters.extend(subset(rng, &["S", "P", "O"], 30));
                    if rng.chance(1, 8) {
                        letters.retain(|l| *l != "A");
                    }
                    let p_illegal = if rng.chance(1, 2) { 0 } else { 30 };
                    let (r, ne) = gen_rt(rng, &letters, p_illegal);
                    hr = if rng.chance(1, 6) { gen_hr(rng, true).0 } else { "absent".into() };
                    rt = r;
                    nonempty = ne;
                    tag = format!("v2/{}", if p_illegal == 0 { "legal" } else { "maybe-illegal" });
                }
                _ => {
                    let letters = subset(rng, &all, 60);
                    let (r, ne) = gen_rt(rng, &letters, 20);
                    hr = if rng.chance(1, 4) {
                        let legal = rng.bool();
                        gen_hr(rng, legal).0
                    } else {
                        "absent".into()
                    };
                    rt = r;
                    nonempty = ne || (hr != "_" && hr != "absent");
                    tag = match ver {
                        None => "fresh".into(),
                        Some(0) => "v0".into(),
                        Some(3) => "v3".into(),
                        _ => "newer".into(),
                    };
                }
            }
            let tabs: String = (0..3).map(|_| if rng.chance(2, 3) { '1' } else { '0' }).collect();
            let id = match rng.below(4) {
                0 => "absent".to_string(),
                1 => "empty".to_string(),
                _ => rng.range(1, 999).to_string(),
            };
            let verb = if i % 5 == 0 { "open2" } else { "open" };
            let vs = ver.map(|v| v.to_string()).unwrap_or("none".into());
            let nontrivial = matches!(ver, Some(1..=6)) && nonempty;
            let tag = if big > 0 { format!("big{big}/{verb}/{tag}") } else { format!("{verb}/{tag}") };
            out.op(format!("{verb} ver={vs} hr={hr} rt={rt} tabs={tabs} id={id}"), &tag, nontrivial);
        }
        BIG_LEN.with(|b| b.set(0));
    }
    fn run(&mut self, line: &str) -> String {
        match opname(line) {
            "reset" => "ok".into(),
            v @ ("open" | "open2") => {
                let Some(spec) = parse_spec(line) else { return "bad-op".into() };
                let db = build(&spec);
                let mut unknown = vec![];
                let first = self.open_once(&db, &mut unknown, spec.tabs);
                if v == "open" {
                    first
                } else {
                    let second = self.open_once(&db, &mut unknown, spec.tabs);
                    format!("{first} | {second}")
                }
            }
            _ => "bad-op".into(),
        }
    }
    fn result_tag(&self, _line: &str, result: &str) -> Option<String> {
        let mut w = result.split(' ');
        let a = w.next().unwrap_or("");
        Some(if a == "err" { format!("err-{}", w.next().unwrap_or("")) } else { a.to_string() })
    }
}

fn main() {
    let rt = tokio::runtime::Builder::new_multi_thread().worker_threads(1).enable_all().build().unwrap();
    main_for(C23 { rt });
}

//! C13 — Merkle, row and share proofs are position-binding and sound.
use celestia_proto::celestia::core::v1::proof::{Proof as RawMerkleProof, RowProof as RawRowProof};
use celestia_types::nmt::{NamespacedHash, NamespacedHashExt};
use celestia_types::{DataAvailabilityHeader, Error, MerkleProof, RowProof};
use verif_harness::*;

mod share;

struct C13;

fn merkle_err_kind(e: &Error) -> String {
    match e {
        Error::RootMismatch => "RootMismatch".into(),
        Error::IndexOutOfRange(..) => "IndexOutOfRange".into(),
        Error::Verification(v) => {
            let m = v.to_string();
            if m.contains("different leaf") {
                "DifferentLeaf".into()
            } else if m.contains("extra aunts") {
                "ExtraAunts".into()
            } else if m.contains("aunts missing") {
                "AuntsMissing".into()
            } else if m.contains("leaf index") {
                "IndexNotBelowTotal".into()
            } else if m.contains("row_roots.len() != proofs.len()") {
                "LenMismatch".into()
            } else if m.contains("start_row (") {
                "StartGtEnd".into()
            } else if m.contains("length based on start_row") {
                "SpanMismatch".into()
            } else if m.contains("empty hash") {
                "EmptyHash".into()
            } else {
                format!("Verification({})", m.replace(' ', "_"))
            }
        }
        other => format!("Other({})", other.to_string().replace(' ', "_")),
    }
}

fn show_res(r: Result<(), Error>) -> String {
    match r {
        Ok(()) => "ok".into(),
        Err(e) => format!("err {}", merkle_err_kind(&e)),
    }
}

fn slash(l: &[[u8; 32]]) -> String {
    if l.is_empty() { "-".into() } else { l.iter().map(hex::encode).collect::<Vec<_>>().join("/") }
}

fn show_proof(p: &MerkleProof) -> String {
    format!("{}:{}:{}:{}", p.index, p.total, hex::encode(p.leaf_hash), slash(&p.aunts))
}

fn parse_proof(s: &str) -> Option<MerkleProof> {
    let f: Vec<&str> = s.split(':').collect();
    if f.len() != 4 {
        return None;
    }
    let aunts = if f[3] == "-" {
        vec![]
    } else {
        f[3].split('/').map(|a| hex::decode(a).ok()?.try_into().ok()).collect::<Option<Vec<[u8; 32]>>>()?
    };
    Some(MerkleProof {
        index: f[0].parse::<u64>().ok()? as usize,
        total: f[1].parse::<u64>().ok()? as usize,
        leaf_hash: hex::decode(f[2]).ok()?.try_into().ok()?,
        aunts,
    })
}

fn parse_proofs(s: &str) -> Option<Vec<MerkleProof>> {
    if s == "-" { Some(vec![]) } else { s.split(';').map(parse_proof).collect() }
}

fn show_proofs(ps: &[MerkleProof]) -> String {
    if ps.is_empty() { "-".into() } else { ps.iter().map(show_proof).collect::<Vec<_>>().join(";") }
}

fn raw_of(p: &MerkleProof) -> RawMerkleProof {
    RawMerkleProof {
        index: p.index as i64,
        total: p.total as i64,
        leaf_hash: p.leaf_hash.to_vec(),
        aunts: p.aunts.iter().map(|a| a.to_vec()).collect(),
    }
}

fn leaves_of(rng: &mut Rng, n: usize) -> Vec<Vec<u8>> {
    (0..n)
        .map(|_| {
            let len = match rng.below(8) {
                0 => 0,
                1 => 32,
                2 => 65,
                _ => rng.usize(1, 6),
            };
            rng.bytes(len)
        })
        .collect()
}

fn roots90(rng: &mut Rng, n: usize) -> Vec<Vec<u8>> {
    (0..n).map(|_| rng.bytes(90)).collect()
}

fn tree_size(rng: &mut Rng, tier: Tier) -> usize {
    let big = if tier == Tier::Thorough { 300 } else { 70 };
    match rng.below(10) {
        0 => 1,
        1 => 2,
        2 => *rng.pick(&[3usize, 4, 5, 7, 8, 9, 15, 16, 17, 31, 32, 33, 63, 64, 65]),
        3 => rng.usize(17, big),
        _ => rng.usize(1, 17),
    }
}

/// mutations of an honest (proof, leaf, root) triple; returns (proof, leaf, root, tag)
fn mutate(
    rng: &mut Rng,
    p: &MerkleProof,
    leaf: &[u8],
    root: [u8; 32],
    leaves: &[Vec<u8>],
) -> (MerkleProof, Vec<u8>, [u8; 32], &'static str) {
    let mut q = p.clone();
    let mut leaf = leaf.to_vec();
    let mut root = root;
    let n = leaves.len();
    let tag = match rng.below(16) {
        0 => {
            // other leaf of the same tree, same proof
            leaf = leaves[rng.usize(0, n - 1)].clone();
            q.leaf_hash = MerkleProof::new(0, &[&leaf]).unwrap().0.leaf_hash;
            "mverify/other-leaf"
        }
        1 => {
            leaf.push(rng.byte());
            "mverify/leaf-changed-hash-kept"
        }
        2 => {
            q.index = rng.usize(0, n - 1);
            "mverify/index-other-valid"
        }
        3 => {
            q.index = q.total;
            "mverify/index=total"
        }
        4 => {
            // along the right spine: index + k*total style and arbitrary larger
            q.index = *rng.pick(&[q.total + 1, q.total * 2 - 1, q.total * 2, q.index + q.total, usize::MAX, 1 << 62]);
            "mverify/index>total"
        }
        5 => {
            q.total = *rng.pick(&[q.total + 1, q.total.saturating_sub(1).max(1), 1, q.total * 2, q.total.next_power_of_two()]);
            "mverify/total-changed"
        }
        6 => {
            q.total = *rng.pick(&[0usize, 1 << 63, (1 << 63) + 1, usize::MAX, (1 << 63) - 1]);
            "mverify/total-extreme"
        }
        7 if !q.aunts.is_empty() => {
            let i = rng.usize(0, q.aunts.len() - 1);
            let j = rng.usize(0, 31);
            q.aunts[i][j] ^= 1 << rng.below(8);
            "mverify/aunt-bitflip"
        }
        8 if !q.aunts.is_empty() => {
            let i = rng.usize(0, q.aunts.len() - 1);
            q.aunts.remove(i);
            "mverify/aunt-dropped"
        }
        9 => {
            let i = rng.usize(0, q.aunts.len());
            let mut a = [0u8; 32];
            a.copy_from_slice(&rng.bytes(32));
            q.aunts.insert(i, a);
            "mverify/aunt-added"
        }
        10 if q.aunts.len() >= 2 => {
            let i = rng.usize(0, q.aunts.len() - 2);
            q.aunts.swap(i, i + 1);
            "mverify/aunts-swapped"
        }
        11 => {
            root[rng.usize(0, 31)] ^= 1 << rng.below(8);
            "mverify/root-changed"
        }
        12 => {
            q.leaf_hash[rng.usize(0, 31)] ^= 1;
            "mverify/leafhash-changed"
        }
        13 => {
            // proof of another index with this leaf
            let j = rng.usize(0, n - 1);
            let (pj, _) = MerkleProof::new(j, leaves).unwrap();
            q.aunts = pj.aunts;
            "mverify/aunts-of-other-index"
        }
        14 => {
            // index beyond total but same path shape (last leaf): index = total - 1 + m
            q.index = q.index + rng.usize(1, 9);
            "mverify/index-shifted-up"
        }
        _ => "mverify/honest",
    };
    (q, leaf, root, tag)
}

impl Prop for C13 {
    fn id(&self) -> &'static str {
        "C13"
    }
    fn rule(&self) -> &'static str {
        "mnew: MerkleProof::new for every index (and out-of-range ones) of random leaf lists of 1..300 leaves \
         (boundary sizes 2^k-1, 2^k, 2^k+1), then verify; mverify: honest proofs and 15 mutation classes \
         (leaf, index incl. index>=total, total incl. 0/2^63/usize::MAX, aunts flipped/dropped/added/swapped, \
         root, leaf hash); rbuild: DataAvailabilityHeader::row_proof for every row range of random DAHs (widths 1..32, \
         64, 128) then verify against dah.hash(); rverify: decoded RawRowProofs, honest and mutated (root/aunt/index \
         altered, roots/proofs dropped or added, start/end moved, span 65536, missing root); sverify/sbuild: share \
         proofs of namespace ranges of random squares, honest and mutated. Non-trivial = every case except random \
         garbage proofs; distinct = distinct (op, result) lines."
    }
    fn gen_ops(&mut self, rng: &mut Rng, tier: Tier, out: &mut Emitter) {
        let rounds = if tier == Tier::Thorough { 1500 } else { 60 };
        // --- merkle proofs ---
        // every index of every size 1..=20 (quick) / 1..=64 (thorough)
        let exhaustive = if tier == Tier::Thorough { 64 } else { 20 };
        for n in 1..=exhaustive {
            let leaves = leaves_of(rng, n);
            for i in 0..=n + 1 {
                out.op(format!("mnew i={i} leaves={}", hxl(&leaves)), "mnew/exhaustive", true);
            }
            // index >= total on the honest proof of the last leaf, all small offsets
            let (p, root) = MerkleProof::new(n - 1, &leaves).unwrap();
            for d in 1..=3usize {
                let mut q = p.clone();
                q.index = n - 1 + d;
                out.op(
                    format!(
                        "mverify leaves={} proof={} leaf={} root={}",
                        hxl(&leaves),
                        show_proof(&q),
                        hx(&leaves[n - 1]),
                        hex::encode(root)
                    ),
                    "mverify/index>=total-last-leaf",
                    true,
                );
            }
        }
        for _ in 0..rounds {
            let n = tree_size(rng, tier);
            let leaves = leaves_of(rng, n);
            let i = rng.usize(0, n - 1);
            out.op(format!("mnew i={i} leaves={}", hxl(&leaves)), "mnew/random", true);
            let (p, root) = MerkleProof::new(i, &leaves).unwrap();
            for _ in 0..6 {
                let (q, leaf, rt, tag) = mutate(rng, &p, &leaves[i], root, &leaves);
                out.op(
                    format!(
                        "mverify leaves={} proof={} leaf={} root={}",
                        hxl(&leaves),
                        show_proof(&q),
                        hx(&leaf),
                        hex::encode(rt)
                    ),
                    tag,
                    true,
                );
            }
            // garbage proof
            let g = MerkleProof {
                index: rng.usize(0, 8),
                total: rng.usize(1, 8),
                leaf_hash: rng.bytes(32).try_into().unwrap(),
                aunts: (0..rng.usize(0, 3)).map(|_| rng.bytes(32).try_into().unwrap()).collect(),
            };
            out.op(
                format!(
                    "mverify leaves={} proof={} leaf={} root={}",
                    hxl(&leaves),
                    show_proof(&g),
                    hx(&leaves[i]),
                    hex::encode(root)
                ),
                "mverify/garbage",
                false,
            );
        }
        // --- row proofs ---
        // every range of small DAHs
        let wmax = if tier == Tier::Thorough { 8 } else { 4 };
        for w in 1..=wmax {
            let rows = roots90(rng, w);
            let cols = roots90(rng, w);
            for s in 0..=w + 1 {
                for e in 0..=w + 1 {
                    out.op(
                        format!("rbuild rows={} cols={} start={s} end={e}", hxl(&rows), hxl(&cols)),
                        "rbuild/exhaustive",
                        true,
                    );
                }
            }
        }
        for _ in 0..rounds / 2 {
            let w = match rng.below(10) {
                0 => *rng.pick(&[32usize, 64, 128]),
                1 => rng.usize(9, 32),
                _ => rng.usize(1, 8),
            };
            let w = if tier == Tier::Quick { w.min(32) } else { w };
            let rows = roots90(rng, w);
            // occasionally a DAH with a different number of columns (new_unchecked allows it)
            let ncols = if rng.chance(1, 10) { rng.usize(0, w + 2) } else { w };
            let cols = roots90(rng, ncols);
            let s = rng.usize(0, w - 1);
            let e = rng.usize(s, (s + 5).min(w - 1));
            out.op(
                format!("rbuild rows={} cols={} start={s} end={e}", hxl(&rows), hxl(&cols)),
                "rbuild/random",
                true,
            );
            // honest proof + mutations through the raw (wire) form
            let dah = DataAvailabilityHeader::new_unchecked(
                rows.iter().map(|r| NamespacedHash::from_raw(r).unwrap()).collect(),
                cols.iter().map(|r| NamespacedHash::from_raw(r).unwrap()).collect(),
            );
            let rp = dah.row_proof(s as u16..=e as u16).unwrap();
            let all: Vec<Vec<u8>> = rows.iter().chain(cols.iter()).cloned().collect();
            let hash = match dah.hash() {
                celestia_types::hash::Hash::Sha256(h) => h,
                _ => unreachable!(),
            };
            for _ in 0..5 {
                let mut roots: Vec<Vec<u8>> = rp.row_roots().iter().map(|r| r.to_vec()).collect();
                let mut proofs: Vec<MerkleProof> = rp.proofs().to_vec();
                let (mut st, mut en) = (s as u64, e as u64);
                let mut root = hex::encode(hash);
                let tag = match rng.below(16) {
                    0 => {
                        let i = rng.usize(0, roots.len() - 1);
                        let j = rng.usize(0, 89);
                        roots[i][j] ^= 1 << rng.below(8);
                        "rverify/root-altered"
                    }
                    1 => {
                        let i = rng.usize(0, proofs.len() - 1);
                        if proofs[i].aunts.is_empty() {
                            "rverify/honest"
                        } else {
                            let k = rng.usize(0, proofs[i].aunts.len() - 1);
                            proofs[i].aunts[k][rng.usize(0, 31)] ^= 1 << rng.below(8);
                            "rverify/aunt-altered"
                        }
                    }
                    2 => {
                        roots.pop();
                        "rverify/root-dropped"
                    }
                    3 => {
                        proofs.pop();
                        "rverify/proof-dropped"
                    }
                    4 => {
                        roots.pop();
                        proofs.pop();
                        "rverify/pair-dropped"
                    }
                    5 => {
                        // one more honest pair than the span says
                        let extra = (e + 1).min(w - 1);
                        roots.push(rows[extra].clone());
                        proofs.push(MerkleProof::new(extra, &all).unwrap().0);
                        "rverify/pair-added"
                    }
                    6 => {
                        en += rng.range(1, 3);
                        "rverify/end-moved"
                    }
                    7 => {
                        st = st.saturating_sub(1);
                        en = en.saturating_sub(1);
                        "rverify/window-shifted"
                    }
                    8 => {
                        std::mem::swap(&mut st, &mut en);
                        "rverify/start-end-swapped"
                    }
                    9 => {
                        root = "none".into();
                        "rverify/no-root"
                    }
                    10 => {
                        let mut h = hash;
                        h[rng.usize(0, 31)] ^= 1 << rng.below(8);
                        root = hex::encode(h);
                        "rverify/data-root-altered"
                    }
                    11 => {
                        // proofs of column roots / other rows passed as these rows
                        let i = rng.usize(0, proofs.len() - 1);
                        let j = rng.usize(0, all.len() - 1);
                        proofs[i] = MerkleProof::new(j, &all).unwrap().0;
                        "rverify/proof-of-other-root"
                    }
                    12 => {
                        let i = rng.usize(0, proofs.len() - 1);
                        proofs[i].index = *rng.pick(&[proofs[i].total, proofs[i].index + 1, proofs[i].index + proofs[i].total]);
                        "rverify/proof-index-altered"
                    }
                    13 => {
                        let i = rng.usize(0, proofs.len() - 1);
                        proofs[i].total = *rng.pick(&[proofs[i].total + 1, 1, i64::MAX as usize]);
                        "rverify/proof-total-altered"
                    }
                    14 => {
                        // both root and proof replaced consistently by another root of the DAH
                        let i = rng.usize(0, proofs.len() - 1);
                        let j = rng.usize(0, all.len() - 1);
                        roots[i] = all[j].clone();
                        proofs[i] = MerkleProof::new(j, &all).unwrap().0;
                        "rverify/other-root-consistent"
                    }
                    _ => "rverify/honest",
                };
                out.op(
                    format!(
                        "rverify all={} roots={} proofs={} start={st} end={en} root={root}",
                        hxl(&all),
                        hxl(&roots),
                        show_proofs(&proofs),
                    ),
                    tag,
                    true,
                );
            }
        }
        // the full u16 span with no / few proofs
        let all = roots90(rng, 4);
        let root = hex::encode(rng.bytes(32));
        for (st, en, np) in [(0u32, 65535u32, 0usize), (0, 65535, 1), (0, 65534, 0), (1, 65535, 0), (65535, 65535, 1), (65535, 0, 0), (0, 0, 0)] {
            let roots: Vec<Vec<u8>> = all.iter().take(np).cloned().collect();
            let proofs: Vec<MerkleProof> = (0..np).map(|i| MerkleProof::new(i, &all).unwrap().0).collect();
            out.op(
                format!(
                    "rverify all={} roots={} proofs={} start={st} end={en} root={root}",
                    hxl(&all),
                    hxl(&roots),
                    show_proofs(&proofs)
                ),
                "rverify/span-boundary",
                true,
            );
        }
        // --- share proofs ---
        share::gen_ops(rng, tier, out);
    }

    fn run(&mut self, line: &str) -> String {
        match opname(line) {
            "reset" => {
                share::reset();
                "ok".into()
            }
            "mnew" => {
                let (Some(i), Some(leaves)) = (arg_u64(line, "i"), arg(line, "leaves").and_then(unhxl)) else {
                    return "bad-op".into();
                };
                match MerkleProof::new(i as usize, &leaves) {
                    Err(e) => format!("err {}", merkle_err_kind(&e)),
                    Ok((p, root)) => {
                        let v = p.verify(&leaves[i as usize], root);
                        format!("ok root={} proof={} verify={}", hex::encode(root), show_proof(&p), show_res(v))
                    }
                }
            }
            "mverify" => {
                let (Some(p), Some(leaf), Some(root)) =
                    (arg(line, "proof").and_then(parse_proof), arg_hex(line, "leaf"), arg_hex(line, "root"))
                else {
                    return "bad-op".into();
                };
                let Ok(root): Result<[u8; 32], _> = root.try_into() else { return "bad-op".into() };
                show_res(p.verify(leaf, root))
            }
            "rverify" => {
                let (Some(roots), Some(proofs), Some(st), Some(en), Some(root)) = (
                    arg(line, "roots").and_then(unhxl),
                    arg(line, "proofs").and_then(parse_proofs),
                    arg_u64(line, "start"),
                    arg_u64(line, "end"),
                    arg(line, "root"),
                ) else {
                    return "bad-op".into();
                };
                let raw = RawRowProof {
                    row_roots: roots,
                    proofs: proofs.iter().map(raw_of).collect(),
                    root: vec![],
                    start_row: st as u32,
                    end_row: en as u32,
                };
                let rp = match RowProof::try_from(raw) {
                    Ok(rp) => rp,
                    Err(e) => return format!("undecodable {e}").replace(' ', "_"),
                };
                let root = if root == "none" {
                    celestia_types::hash::Hash::None
                } else {
                    let Some(Ok(h)) = unhx(root).map(<[u8; 32]>::try_from) else { return "bad-op".into() };
                    celestia_types::hash::Hash::Sha256(h)
                };
                show_res(rp.verify(root))
            }
            "rbuild" => {
                let (Some(rows), Some(cols), Some(st), Some(en)) = (
                    arg(line, "rows").and_then(unhxl),
                    arg(line, "cols").and_then(unhxl),
                    arg_u64(line, "start"),
                    arg_u64(line, "end"),
                ) else {
                    return "bad-op".into();
                };
                let conv = |l: &Vec<Vec<u8>>| l.iter().map(|r| NamespacedHash::from_raw(r)).collect::<Result<Vec<_>, _>>();
                let (Ok(r), Ok(c)) = (conv(&rows), conv(&cols)) else { return "bad-op".into() };
                let dah = DataAvailabilityHeader::new_unchecked(r, c);
                match dah.row_proof(st as u16..=en as u16) {
                    Err(e) => format!("err {}", merkle_err_kind(&e)),
                    Ok(rp) => {
                        let h = dah.hash();
                        let v = rp.verify(h);
                        let roots: Vec<Vec<u8>> = rp.row_roots().iter().map(|r| r.to_vec()).collect();
                        format!(
                            "ok hash={} roots={} proofs={} verify={}",
                            hex::encode(h.as_bytes()),
                            hxl(&roots),
                            show_proofs(rp.proofs()),
                            show_res(v)
                        )
                    }
                }
            }
            op if op.starts_with('s') => share::run(line),
            _ => "bad-op".into(),
        }
    }
}

fn main() {
    main_for(C13);
}

//! share-proof part of C13 (`ShareProof::verify`) on real extended data squares.
use celestia_proto::celestia::core::v1::proof::{
    NmtProof as RawNmtProof, RowProof as RawRowProof, ShareProof as RawShareProof,
};
use celestia_types::consts::appconsts::SHARE_SIZE;
use celestia_types::nmt::{NS_SIZE, Namespace, NamespaceProof, NamespacedHashExt};
use celestia_types::{AppVersion, DataAvailabilityHeader, ExtendedDataSquare, MerkleProof, ShareProof};
use std::cell::RefCell;
use verif_harness::*;

use crate::{merkle_err_kind, parse_proofs, raw_of, show_proofs};

thread_local! {
    static SQUARE: RefCell<Option<(ExtendedDataSquare, DataAvailabilityHeader)>> = const { RefCell::new(None) };
}

pub fn reset() {
    SQUARE.with(|s| *s.borrow_mut() = None);
}

#[derive(Clone)]
pub struct NProof {
    pub start: u32,
    pub end: u32,
    pub sibs: Vec<Vec<u8>>,
    pub leaf: Vec<u8>,
}

fn show_nproof(p: &NProof) -> String {
    let s = if p.sibs.is_empty() { "-".to_string() } else { p.sibs.iter().map(hex::encode).collect::<Vec<_>>().join("/") };
    format!("{}:{}:{}:{}", p.start, p.end, s, hx(&p.leaf))
}
fn show_nproofs(ps: &[NProof]) -> String {
    if ps.is_empty() { "-".into() } else { ps.iter().map(show_nproof).collect::<Vec<_>>().join(";") }
}
fn parse_nproof(s: &str) -> Option<NProof> {
    let f: Vec<&str> = s.split(':').collect();
    if f.len() != 4 {
        return None;
    }
    let sibs = if f[2] == "-" { vec![] } else { f[2].split('/').map(|x| hex::decode(x).ok()).collect::<Option<Vec<_>>>()? };
    Some(NProof { start: f[0].parse().ok()?, end: f[1].parse().ok()?, sibs, leaf: unhx(f[3])? })
}
fn parse_nproofs(s: &str) -> Option<Vec<NProof>> {
    if s == "-" { Some(vec![]) } else { s.split(';').map(parse_nproof).collect() }
}

fn of_namespace_proof(p: &NamespaceProof) -> NProof {
    NProof {
        start: p.start_idx(),
        end: p.end_idx(),
        sibs: p.siblings().iter().map(|h| h.to_vec()).collect(),
        leaf: p.leaf().map(|h| h.to_vec()).unwrap_or_default(),
    }
}

fn share_err_kind(e: &celestia_types::Error) -> String {
    use celestia_types::Error;
    match e {
        Error::RangeProofError(r) => format!("RangeProof:{r:?}").split('(').next().unwrap().to_string(),
        Error::Verification(v) => {
            let m = v.to_string();
            if m.contains("share proofs length") {
                "ShareLenMismatch".into()
            } else if m.contains("only presence proofs") {
                "AbsenceProof".into()
            } else if m.contains("proof without data") {
                "EmptyRange".into()
            } else if m.contains("shares needed overflow") {
                "SharesNeededOverflow".into()
            } else if m.contains("shares needed") {
                "SharesNeededMismatch".into()
            } else {
                merkle_err_kind(e)
            }
        }
        _ => merkle_err_kind(e),
    }
}

fn show_share_res(r: Result<(), celestia_types::Error>) -> String {
    match r {
        Ok(()) => "ok".into(),
        Err(e) => format!("err {}", share_err_kind(&e)),
    }
}

/// random ODS with namespaces sorted row-major (hence sorted along every row and column)
fn random_ods(rng: &mut Rng, k: usize) -> Vec<Vec<u8>> {
    let n = k * k;
    let nns = rng.usize(1, n.min(5));
    let mut nss: Vec<Vec<u8>> = (0..nns)
        .map(|_| {
            let mut id = vec![0u8; 28];
            for b in id.iter_mut().skip(18) {
                *b = rng.byte();
            }
            id[18] |= 1; // never a reserved namespace
            let mut v = vec![0u8];
            v.extend(id);
            v
        })
        .collect();
    nss.sort();
    // split n shares among the namespaces
    let mut cuts: Vec<usize> = (0..nns - 1).map(|_| rng.usize(0, n)).collect();
    cuts.sort();
    let mut out = vec![];
    let mut which = 0;
    for i in 0..n {
        while which < cuts.len() && i >= cuts[which] {
            which += 1;
        }
        let mut sh = nss[which].clone();
        sh.push(if i == 0 || rng.chance(1, 4) { 1 } else { 0 }); // info byte: version 0, sequence start bit
        sh.extend(rng.bytes(SHARE_SIZE - NS_SIZE - 1));
        out.push(sh);
    }
    out
}

fn build_share_proof(
    eds: &ExtendedDataSquare,
    dah: &DataAvailabilityHeader,
    ns: Namespace,
    r0: u16,
    ranges: &[(u32, u32)],
) -> Result<ShareProof, celestia_types::Error> {
    let mut data = vec![];
    let mut share_proofs = vec![];
    for (i, (s, e)) in ranges.iter().enumerate() {
        let row = r0 + i as u16;
        let mut nmt = eds.row_nmt(row)?;
        let proof = nmt.build_range_proof(*s as usize..*e as usize);
        let shares = eds.row(row)?;
        for c in *s..*e {
            data.push(*shares[c as usize].data());
        }
        share_proofs.push(NamespaceProof::from(nmt_rs::nmt_proof::NamespaceProof::PresenceProof {
            proof,
            ignore_max_ns: true,
        }));
    }
    let row_proof = dah.row_proof(r0..=r0 + ranges.len() as u16 - 1)?;
    Ok(ShareProof { data, namespace_id: ns, share_proofs, row_proof })
}

fn show_full(sp: &ShareProof) -> String {
    let data: Vec<Vec<u8>> = sp.data.iter().map(|d| d.to_vec()).collect();
    let nps: Vec<NProof> = sp.share_proofs.iter().map(of_namespace_proof).collect();
    let roots: Vec<Vec<u8>> = sp.row_proof.row_roots().iter().map(|r| r.to_vec()).collect();
    format!(
        "data={} sproofs={} roots={} proofs={}",
        hxl(&data),
        show_nproofs(&nps),
        hxl(&roots),
        show_proofs(sp.row_proof.proofs())
    )
}

pub fn gen_ops(rng: &mut Rng, tier: Tier, out: &mut Emitter) {
    let squares = if tier == Tier::Thorough { 60 } else { 8 };
    for sq in 0..squares {
        let k = match sq % 4 {
            0 => 1,
            1 => 2,
            2 => 4,
            _ => {
                if tier == Tier::Thorough { 8 } else { 2 }
            }
        };
        let ods = random_ods(rng, k);
        let Ok(eds) = ExtendedDataSquare::from_ods(ods, AppVersion::latest()) else { continue };
        let w = eds.square_width() as usize;
        let shares: Vec<Vec<u8>> = eds.data_square().iter().map(|s| s.to_vec()).collect();
        out.op("reset", "reset", false);
        out.op(format!("sq w={w} shares={}", hxl(&shares)), "sq", true);
        let dah = DataAvailabilityHeader::from_eds(&eds);
        let hash = hex::encode(dah.hash().as_bytes());
        // honest proofs: for every namespace present in the ODS, all of its shares
        let mut nss: Vec<Namespace> = vec![];
        for r in 0..k {
            for c in 0..k {
                let ns = eds.share(r as u16, c as u16).unwrap().namespace();
                if !nss.contains(&ns) {
                    nss.push(ns);
                }
            }
        }
        nss.push(Namespace::PARITY_SHARE);
        for ns in nss {
            // rows and column ranges holding the namespace (whole square for parity: bottom rows)
            let mut r0 = None;
            let mut ranges: Vec<(u32, u32)> = vec![];
            for r in 0..w {
                let cols: Vec<usize> =
                    (0..w).filter(|c| eds.share(r as u16, *c as u16).unwrap().namespace() == ns).collect();
                if cols.is_empty() {
                    if r0.is_some() {
                        break;
                    }
                    continue;
                }
                if r0.is_none() {
                    r0 = Some(r);
                }
                ranges.push((cols[0] as u32, *cols.last().unwrap() as u32 + 1));
                if ranges.len() >= 3 {
                    break;
                }
            }
            let Some(r0) = r0 else { continue };
            // sometimes only a sub-range of the first row
            if rng.chance(1, 3) && ranges[0].1 - ranges[0].0 > 1 {
                ranges[0].0 += 1;
            }
            let rs = ranges.iter().map(|(s, e)| format!("{s}:{e}")).collect::<Vec<_>>().join(",");
            out.op(format!("sbuild ns={} r0={r0} ranges={rs}", hx(ns.as_bytes())), "sbuild/honest", true);
            let Ok(sp) = build_share_proof(&eds, &dah, ns, r0 as u16, &ranges) else { continue };
            // mutations
            let nmut = if tier == Tier::Thorough { 32 } else { 16 };
            for m in 0..nmut {
                let mut data: Vec<Vec<u8>> = sp.data.iter().map(|d| d.to_vec()).collect();
                let mut nps: Vec<NProof> = sp.share_proofs.iter().map(of_namespace_proof).collect();
                let mut roots: Vec<Vec<u8>> = sp.row_proof.row_roots().iter().map(|r| r.to_vec()).collect();
                let mut proofs: Vec<MerkleProof> = sp.row_proof.proofs().to_vec();
                let (mut st, mut en) = (r0 as u64, (r0 + ranges.len() - 1) as u64);
                let mut root = hash.clone();
                let mut nsb = ns.as_bytes().to_vec();
                let tag = match m % 16 {
                    0 => "sverify/honest",
                    1 => {
                        let i = rng.usize(0, data.len() - 1);
                        let j = rng.usize(0, SHARE_SIZE - 1);
                        data[i][j] ^= 1 << rng.below(8);
                        "sverify/share-altered"
                    }
                    2 if data.len() >= 2 => {
                        let i = rng.usize(0, data.len() - 2);
                        data.swap(i, i + 1);
                        "sverify/shares-swapped"
                    }
                    3 => {
                        data.pop();
                        "sverify/share-dropped"
                    }
                    4 => {
                        data.push(rng.bytes(SHARE_SIZE));
                        "sverify/share-added"
                    }
                    5 => {
                        let i = rng.usize(0, nps.len() - 1);
                        if nps[i].sibs.is_empty() {
                            "sverify/honest"
                        } else {
                            let k = rng.usize(0, nps[i].sibs.len() - 1);
                            // flip a bit of the hash part only (namespace bytes change the panic behaviour)
                            let j = rng.usize(58, 89);
                            nps[i].sibs[k][j] ^= 1 << rng.below(8);
                            "sverify/nmt-sibling-altered"
                        }
                    }
                    6 => {
                        let i = rng.usize(0, nps.len() - 1);
                        nps[i].start += 1;
                        nps[i].end += 1;
                        "sverify/range-shifted"
                    }
                    7 => {
                        let i = rng.usize(0, nps.len() - 1);
                        nps[i].end = nps[i].start;
                        "sverify/range-empty"
                    }
                    8 => {
                        let i = rng.usize(0, nps.len() - 1);
                        nps[i].leaf = roots[0].clone();
                        "sverify/absence-proof"
                    }
                    9 => {
                        let i = rng.usize(0, roots.len() - 1);
                        let j = rng.usize(58, 89);
                        roots[i][j] ^= 1 << rng.below(8);
                        "sverify/row-root-altered"
                    }
                    10 => {
                        nps.pop();
                        "sverify/nmt-proof-dropped"
                    }
                    11 => {
                        en += 1;
                        "sverify/end-row-moved"
                    }
                    12 => {
                        nsb[NS_SIZE - 1] ^= 1;
                        "sverify/namespace-altered"
                    }
                    13 => {
                        let mut h = hex::decode(&root).unwrap();
                        h[rng.usize(0, 31)] ^= 1;
                        root = hex::encode(h);
                        "sverify/data-root-altered"
                    }
                    14 => {
                        let i = rng.usize(0, proofs.len() - 1);
                        if proofs[i].aunts.is_empty() {
                            "sverify/honest"
                        } else {
                            let k = rng.usize(0, proofs[i].aunts.len() - 1);
                            proofs[i].aunts[k][rng.usize(0, 31)] ^= 1;
                            "sverify/aunt-altered"
                        }
                    }
                    _ => {
                        // huge ranges: u32 sum overflow
                        for p in nps.iter_mut() {
                            p.start = 0;
                            p.end = 0x8000_0000;
                        }
                        st = st.min(en);
                        "sverify/huge-ranges"
                    }
                };
                let _ = &mut st;
                out.op(
                    format!(
                        "sverify ns={} data={} sproofs={} roots={} proofs={} start={st} end={en} root={root}",
                        hx(&nsb),
                        hxl(&data),
                        show_nproofs(&nps),
                        hxl(&roots),
                        show_proofs(&proofs),
                    ),
                    tag,
                    true,
                );
            }
        }
    }
    out.op("reset", "reset", false);
}

pub fn run(line: &str) -> String {
    match opname(line) {
        "sq" => {
            let Some(shares) = arg(line, "shares").and_then(unhxl) else { return "bad-op".into() };
            match ExtendedDataSquare::new(shares, "Leopard".into(), AppVersion::latest()) {
                Err(e) => format!("err {}", e.to_string().replace(' ', "_")),
                Ok(eds) => {
                    let dah = DataAvailabilityHeader::from_eds(&eds);
                    let rows: Vec<Vec<u8>> = dah.row_roots().iter().map(|r| r.to_vec()).collect();
                    let cols: Vec<Vec<u8>> = dah.column_roots().iter().map(|r| r.to_vec()).collect();
                    let h = hex::encode(dah.hash().as_bytes());
                    SQUARE.with(|s| *s.borrow_mut() = Some((eds, dah)));
                    format!("ok rows={} cols={} hash={h}", hxl(&rows), hxl(&cols))
                }
            }
        }
        "sbuild" => {
            let (Some(ns), Some(r0), Some(rs)) = (arg_hex(line, "ns"), arg_u64(line, "r0"), arg(line, "ranges")) else {
                return "bad-op".into();
            };
            let Ok(ns) = Namespace::from_raw(&ns) else { return "bad-op".into() };
            let ranges: Option<Vec<(u32, u32)>> = rs
                .split(',')
                .map(|t| {
                    let (a, b) = t.split_once(':')?;
                    Some((a.parse().ok()?, b.parse().ok()?))
                })
                .collect();
            let Some(ranges) = ranges else { return "bad-op".into() };
            SQUARE.with(|s| {
                let b = s.borrow();
                let Some((eds, dah)) = b.as_ref() else { return "no-square".to_string() };
                match build_share_proof(eds, dah, ns, r0 as u16, &ranges) {
                    Err(e) => format!("err {}", share_err_kind(&e)),
                    Ok(sp) => {
                        let v = sp.verify(dah.hash());
                        format!("ok {} verify={}", show_full(&sp), show_share_res(v))
                    }
                }
            })
        }
        "sverify" => {
            let (Some(ns), Some(data), Some(nps), Some(roots), Some(proofs), Some(st), Some(en), Some(root)) = (
                arg_hex(line, "ns"),
                arg(line, "data").and_then(unhxl),
                arg(line, "sproofs").and_then(parse_nproofs),
                arg(line, "roots").and_then(unhxl),
                arg(line, "proofs").and_then(parse_proofs),
                arg_u64(line, "start"),
                arg_u64(line, "end"),
                arg(line, "root"),
            ) else {
                return "bad-op".into();
            };
            if ns.len() != NS_SIZE {
                return "bad-op".into();
            }
            let raw = RawShareProof {
                data,
                share_proofs: nps
                    .iter()
                    .map(|p| RawNmtProof {
                        start: p.start as i32,
                        end: p.end as i32,
                        nodes: p.sibs.clone(),
                        leaf_hash: p.leaf.clone(),
                    })
                    .collect(),
                namespace_id: ns[1..].to_vec(),
                row_proof: Some(RawRowProof {
                    row_roots: roots,
                    proofs: proofs.iter().map(raw_of).collect(),
                    root: vec![],
                    start_row: st as u32,
                    end_row: en as u32,
                }),
                namespace_version: ns[0] as u32,
            };
            let sp = match ShareProof::try_from(raw) {
                Ok(sp) => sp,
                Err(e) => return format!("undecodable {e}").replace(' ', "_"),
            };
            let root = if root == "none" {
                celestia_types::hash::Hash::None
            } else {
                let Some(Ok(h)) = unhx(root).map(<[u8; 32]>::try_from) else { return "bad-op".into() };
                celestia_types::hash::Hash::Sha256(h)
            };
            show_share_res(sp.verify(root))
        }
        _ => "bad-op".into(),
    }
}

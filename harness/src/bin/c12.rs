//! C12 — Blob commitments follow the share-commitment rules.
use celestia_types::consts::appconsts;
use celestia_types::nmt::Namespace;
use celestia_types::state::AccAddress;
use celestia_types::verif::blob as hooks;
use celestia_types::{AppVersion, Blob, Commitment};
use verif_harness::*;

struct C12;

fn err_kind(e: &celestia_types::Error) -> String {
    use celestia_types::Error::*;
    match e {
        UnsupportedShareVersion(v) => format!("UnsupportedShareVersion({v})"),
        SignerNotSupported => "SignerNotSupported".into(),
        MissingSigner => "MissingSigner".into(),
        MaxShareVersionExceeded(v) => format!("MaxShareVersionExceeded({v})"),
        ShareSequenceLenExceeded(_) => "ShareSequenceLenExceeded".into(),
        Nmt(_) => "Nmt".into(),
        other => format!("Other({})", other.to_string().replace(' ', "_")),
    }
}

/// deterministic test data shared with the Lean driver
fn gen_data(seed: u64, len: u64) -> Vec<u8> {
    (0..len).map(|i| (((seed + i) * 167 + (i / 256) * 13) % 256) as u8).collect()
}

fn data_arg(line: &str) -> Option<Vec<u8>> {
    if let Some(d) = arg_hex(line, "data") {
        return Some(d);
    }
    let (a, b) = arg(line, "gen")?.split_once(':')?;
    Some(gen_data(a.parse().ok()?, b.parse().ok()?))
}

fn user_ns(rng: &mut Rng) -> Vec<u8> {
    let mut b = vec![0u8; 29];
    let n = rng.usize(1, 10);
    for i in 0..n {
        b[28 - i] = rng.byte();
    }
    b[27] |= 1;
    b
}

fn signer_of(s: &str) -> Option<Option<AccAddress>> {
    if s == "-" {
        Some(None)
    } else {
        let b = unhx(s)?;
        Some(Some(AccAddress::try_from(&b[..]).ok()?))
    }
}

/// data length that fills exactly `k` shares, minus `slack` bytes
fn len_for_shares(k: usize, with_signer: bool, slack: usize) -> usize {
    let first = if with_signer { 458 } else { 478 };
    (first + (k - 1) * 482).saturating_sub(slack).max(1)
}

impl Prop for C12 {
    fn id(&self) -> &'static str {
        "C12"
    }
    fn rule(&self) -> &'static str {
        "sizes: subtree_width + merkle_mountain_range_sizes (through the cfg-guarded hook) for every share count 0..5200 and \
         2^k, 2^k±1 up to 200000, all app versions; width: subtree_width at perfect squares ±1 and powers of two ±1 \
         below 2^52 (f64 sqrt); commit: Blob::new commitment for blobs of 1..300 shares (thorough: up to 5000) with share counts \
         around every subtree-width boundary (1,2,4,5,16,17,64,65,128,129,256,257,1024,1025; S10: also 511,512,513,2047,2048,2049 in the quick tier, one signer variant each; thorough adds 4095,4096,4097,5000), exact-fill and short last shares, \
         both share versions, app versions 1..7; validate: Blob::validate with the honest commitment and with tampered data / \
         namespace / signer / commitment / share version. Non-trivial = every case; distinct = distinct (op, result) lines."
    }
    fn gen_ops(&mut self, rng: &mut Rng, tier: Tier, out: &mut Emitter) {
        // --- sizes
        let all_small: Vec<u64> =
            if tier == Tier::Thorough { (0..=5200).collect() } else { (0..=1100).chain(4000..=4200).chain([5000, 5200]).collect() };
        for n in all_small {
            out.op(format!("sizes n={n} app={}", rng.range(1, 7)), "sizes/all-small", true);
        }
        for k in 6..=17u32 {
            for d in [-1i64, 0, 1] {
                let n = (1i64 << k) + d;
                out.op(format!("sizes n={n} app={}", rng.range(1, 7)), "sizes/pow2", true);
                let n2 = (1i64 << k) * 3 / 2 + d;
                out.op(format!("sizes n={n2} app={}", rng.range(1, 7)), "sizes/1.5pow2", true);
            }
        }
        for _ in 0..(if tier == Tier::Thorough { 3000 } else { 200 }) {
            out.op(format!("sizes n={} app={}", rng.range(5000, 200000), rng.range(1, 7)), "sizes/random", true);
        }
        // --- width only, large counts: perfect squares and powers of two ± 1
        // (the model's ceil-sqrt is exact; `f64::sqrt` agrees with it below 2^52)
        for k in 1..=25u32 {
            for base in [1u64 << k, (1u64 << k) + (1u64 << (k - 1)), (1u64 << k) - 1] {
                let sq = base * base;
                for d in [-1i64, 0, 1] {
                    out.op(format!("width n={} app=7", sq as i64 + d), "width/perfect-square", true);
                }
            }
        }
        for k in 1..=51u32 {
            for d in [-1i64, 0, 1] {
                out.op(format!("width n={} app=7", (1i64 << k) + d), "width/pow2", true);
            }
        }
        // --- commitments
        let mut counts: Vec<usize> = vec![1, 2, 3, 4, 5, 7, 8, 9, 15, 16, 17, 31, 33, 63, 64, 65, 100, 127, 128, 129, 255, 256, 257, 300];
        if tier == Tier::Thorough {
            counts.extend([511, 512, 513, 1000, 1023, 1024, 1025, 2047, 2048, 2049, 3000, 4095, 4096, 4097, 5000]);
        } else {
            counts.extend([1024, 1025]);
        }
        // S10 size-threshold stress: the subtree-width boundaries 512/513 and 2048/2049 (width 8|16 and 32|64) were
        // missing from the quick tier (and 2048 from both).  The Lean driver (SHA-256 + NMT in Lean, ~1.5 ms per share,
        // model and spec pass) is the bottleneck, so these large counts get ONE signer variant each in the quick tier.
        let single_variant: Vec<usize> = if tier == Tier::Thorough { vec![] } else { vec![511, 512, 513, 2047, 2048, 2049] };
        counts.extend(single_variant.iter().copied());
        for (ci, &k) in counts.iter().enumerate() {
            for with_signer in [false, true] {
                if single_variant.contains(&k) && with_signer != (ci % 2 == 0) {
                    continue;
                }
                let slack = if rng.bool() { 0 } else { rng.usize(1, 481) };
                let len = len_for_shares(k, with_signer, slack);
                let ns = user_ns(rng);
                let signer = if with_signer { hx(&rng.bytes(20)) } else { "-".into() };
                let app = if with_signer { rng.range(3, 7) } else { rng.range(1, 7) };
                let seed = rng.below(1000);
                out.op(
                    format!("commit ns={} gen={seed}:{len} signer={signer} app={app}", hx(&ns)),
                    if with_signer { "commit/boundary-signer" } else { "commit/boundary" },
                    true,
                );
            }
        }
        let rounds = if tier == Tier::Thorough { 800 } else { 60 };
        for _ in 0..rounds {
            let ns = user_ns(rng);
            let k = match rng.below(4) {
                0 => rng.usize(1, 4),
                1 => rng.usize(1, 20),
                _ => rng.usize(1, if tier == Tier::Thorough { 400 } else { 120 }),
            };
            let with_signer = rng.bool();
            let len = len_for_shares(k, with_signer, rng.usize(0, 481));
            let data = rng.bytes(len);
            let signer_b = rng.bytes(20);
            let signer = if with_signer { hx(&signer_b) } else { "-".into() };
            let app = if with_signer { rng.range(3, 7) } else { rng.range(1, 7) };
            out.op(format!("commit ns={} data={} signer={signer} app={app}", hx(&ns), hx(&data)), "commit/random", true);
            // validation: honest and tampered
            let acc = if with_signer { Some(AccAddress::try_from(&signer_b[..]).unwrap()) } else { None };
            let blob =
                Blob::new(Namespace::from_raw(&ns).unwrap(), data.clone(), acc, AppVersion::from_u64(app).unwrap()).unwrap();
            let stored = blob.commitment.hash().to_vec();
            let ver = blob.share_version;
            for m in 0..7 {
                let (mut ns2, mut data2, mut signer2, mut ver2, mut stored2) =
                    (ns.clone(), data.clone(), signer.clone(), ver as u64, stored.clone());
                let tag = match m {
                    0 => "validate/honest",
                    1 => {
                        stored2[rng.usize(0, 31)] ^= 1 << rng.below(8);
                        "validate/commitment-tampered"
                    }
                    2 => {
                        let i = rng.usize(0, data2.len() - 1);
                        data2[i] ^= 1 << rng.below(8);
                        "validate/data-tampered"
                    }
                    3 => {
                        if rng.bool() {
                            data2.push(0);
                        } else if data2.len() > 1 {
                            data2.pop();
                        } else {
                            data2.push(1);
                        }
                        "validate/data-length-tampered"
                    }
                    4 => {
                        ns2[28] ^= 1;
                        "validate/namespace-tampered"
                    }
                    5 => {
                        if with_signer {
                            let mut s = signer_b.clone();
                            s[rng.usize(0, 19)] ^= 1;
                            signer2 = hx(&s);
                            "validate/signer-tampered"
                        } else {
                            signer2 = hx(&rng.bytes(20));
                            ver2 = 1;
                            "validate/signer-added"
                        }
                    }
                    _ => {
                        ver2 = *rng.pick(&[0u64, 1, 2, 127]);
                        "validate/share-version-set"
                    }
                };
                out.op(
                    format!(
                        "validate ns={} data={} signer={signer2} ver={ver2} app={app} stored={}",
                        hx(&ns2),
                        hx(&data2),
                        hx(&stored2)
                    ),
                    tag,
                    true,
                );
            }
        }
    }

    fn run(&mut self, line: &str) -> String {
        match opname(line) {
            "reset" => "ok".into(),
            "sizes" | "width" => {
                let (Some(n), Some(app)) = (arg_u64(line, "n"), arg_u64(line, "app")) else { return "bad-op".into() };
                let Some(app) = AppVersion::from_u64(app) else { return "err UnknownAppVersion".into() };
                let th = appconsts::subtree_root_threshold(app);
                let w = hooks::subtree_width(n, th);
                if opname(line) == "width" {
                    return format!("ok w={w}");
                }
                format!("ok w={w} sizes={}", natl(&hooks::merkle_mountain_range_sizes(n, w)))
            }
            "commit" => {
                let (Some(ns), Some(data), Some(signer), Some(app)) =
                    (arg_hex(line, "ns"), data_arg(line), arg(line, "signer").and_then(signer_of), arg_u64(line, "app"))
                else {
                    return "bad-op".into();
                };
                let (Ok(ns), Some(app)) = (Namespace::from_raw(&ns), AppVersion::from_u64(app)) else { return "bad-op".into() };
                match Blob::new(ns, data, signer, app) {
                    Ok(b) => format!("ok c={}", hex::encode(b.commitment.hash())),
                    Err(e) => format!("err {}", err_kind(&e)),
                }
            }
            "validate" => {
                let (Some(ns), Some(data), Some(signer), Some(ver), Some(app), Some(stored)) = (
                    arg_hex(line, "ns"),
                    data_arg(line),
                    arg(line, "signer").and_then(signer_of),
                    arg_u64(line, "ver"),
                    arg_u64(line, "app"),
                    arg_hex(line, "stored"),
                ) else {
                    return "bad-op".into();
                };
                let (Ok(ns), Some(app)) = (Namespace::from_raw(&ns), AppVersion::from_u64(app)) else { return "bad-op".into() };
                let Ok(stored): Result<[u8; 32], _> = stored.try_into() else { return "bad-op".into() };
                let blob = Blob {
                    namespace: ns,
                    data,
                    share_version: ver as u8,
                    commitment: Commitment::new(stored),
                    index: None,
                    signer,
                };
                match blob.validate(app) {
                    Ok(()) => "ok".into(),
                    Err(celestia_types::Error::Validation(v)) if v.to_string().contains("commitment") => "mismatch".into(),
                    Err(e) => format!("err {}", err_kind(&e)),
                }
            }
            _ => "bad-op".into(),
        }
    }
}

fn main() {
    main_for(C12);
}

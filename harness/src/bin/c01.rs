//! C01 — Header validation binds signatures, validator set and DAH.
//!
//! ops (everything needed to rebuild the real ExtendedHeader is on the line, plus the three
//! hashes `xh` = header.hash(), `xv` = validator_set.hash(), `xd` = dah.hash() and the oracle bits
//! `xb` (entry j under validator j), all computed by the real code when the line is generated):
//!   validate <eh>                               → `ok` | `err <kind>`
//!   mutate fam=<family> idx=<k> b.<eh> m.<eh>   → `<verdict of b> | <verdict of m>`
//!   vcl h=<height> <eh>                         → `ok` | `err <kind>`   (S9: `verify_commit_light` called
//!       directly: `eh.validator_set.verify_commit_light(&eh.header.chain_id, &h, &eh.commit)`)
//! `run` rebuilds the headers and calls the real `ExtendedHeader::validate`.
#[path = "../consensus_e.rs"]
mod consensus_e;

use celestia_types::nmt::NamespacedHashExt;
use celestia_types::test_utils::ExtendedHeaderGenerator;
use celestia_types::{DataAvailabilityHeader, ExtendedDataSquare, ExtendedHeader};
use consensus_e::*;
use tendermint::block::{CommitSig, Id as BlockId, parts};
use tendermint::validator::Set;
use tendermint::{Hash, Signature};
use verif_harness::*;

struct C01;

const SEC: i128 = 1_000_000_000;
const T0: i128 = 1_790_000_000_000_000_000;

fn h32(rng: &mut Rng) -> Hash {
    Hash::Sha256(rng.bytes(32).try_into().unwrap())
}

fn rand_root(rng: &mut Rng) -> Vec<u8> {
    // min namespace, max namespace (version 0, ordered), digest
    let mut a = vec![0u8; 29];
    let mut b = vec![0u8; 29];
    let x = rng.range(0, 1 << 40);
    let y = x + rng.range(0, 1 << 20);
    a[21..29].copy_from_slice(&x.to_be_bytes());
    b[21..29].copy_from_slice(&y.to_be_bytes());
    [a, b, rng.bytes(32)].concat()
}

fn rand_dah(rng: &mut Rng, w: usize) -> DataAvailabilityHeader {
    let rows: Vec<Vec<u8>> = (0..w).map(|_| rand_root(rng)).collect();
    let cols: Vec<Vec<u8>> = (0..w).map(|_| rand_root(rng)).collect();
    dah_of(&rows, &cols).unwrap()
}

fn gen_powers(rng: &mut Rng, n: usize) -> Vec<u64> {
    match rng.below(5) {
        0 => vec![1; n],
        1 => (0..n).map(|_| rng.range(1, 10)).collect(),
        2 => {
            let mut p: Vec<u64> = (0..n).map(|_| rng.range(1, 20)).collect();
            let s: u64 = p.iter().sum();
            p[0] += (3 - s % 3) % 3;
            p
        }
        3 => (0..n).map(|_| rng.range(1, MAX_TOTAL_VOTING_POWER / n as u64)).collect(),
        _ => (0..n).map(|_| rng.range(1, 1_000_000)).collect(),
    }
}

struct Case {
    eh: ExtendedHeader,
    parties: Vec<Party>,
}

/// who signs: `mode` 0 all, 1 minimal >2/3 prefix, 2 a >2/3 set scattered with extra signers
fn signer_mask(rng: &mut Rng, ps: &[Party], total: u64, mode: u64) -> Vec<bool> {
    let n = ps.len();
    match mode {
        0 => vec![true; n],
        1 => {
            let mut m = vec![false; n];
            let mut acc = 0u128;
            for (k, p) in ps.iter().enumerate() {
                m[k] = true;
                acc += p.val.power as u128;
                if 3 * acc > 2 * total as u128 {
                    break;
                }
            }
            m
        }
        _ => {
            // random order until > 2/3, then each remaining with probability 1/2
            let mut order: Vec<usize> = (0..n).collect();
            rng.shuffle(&mut order);
            let mut m = vec![false; n];
            let mut acc = 0u128;
            for &k in &order {
                if 3 * acc > 2 * total as u128 {
                    m[k] = rng.bool();
                } else {
                    m[k] = true;
                    acc += ps[k].val.power as u128;
                }
            }
            m
        }
    }
}

fn honest_case(rng: &mut Rng, tier: Tier) -> Case {
    let n = rng.usize(1, 8);
    let parties: Vec<Party> = gen_powers(rng, n).into_iter().map(|p| new_party(rng, p)).collect();
    let (ps, set) = set_of_parties(&parties);
    let next = if rng.bool() {
        set.clone()
    } else {
        let mut q = ps.clone();
        let p = rng.range(1, 9);
        q.push(new_party(rng, p));
        set_of_parties(&q).1
    };
    let app = rng.range(1, 7);
    let wmax = if tier == Tier::Thorough { 6 } else { 4 };
    let w = 1usize << rng.range(1, wmax); // 2..16 (quick) / 2..64
    let dah = match rng.below(6) {
        0 => DataAvailabilityHeader::from_eds(&ExtendedDataSquare::empty()),
        _ => rand_dah(rng, w),
    };
    let height = *rng.pick(&[1u64, 2, 3, 77, 1_000_000]);
    let lbi = if height == 1 {
        None
    } else {
        Some(BlockId { hash: h32(rng), part_set_header: parts::Header::new(1, h32(rng)).unwrap() })
    };
    let total = set.total_voting_power().value();
    let mode = rng.below(3);
    let mask = signer_mask(rng, &ps, total, mode);
    let chain = *rng.pick(&["private", "celestia", "mocha-4"]);
    let t = T0 + rng.below(1000) as i128 * SEC;
    let mut eh = make_header(rng, chain, height, t, app, lbi, &ps, &set, &next, dah, &|k| mask[k]);
    // non-signers: some of the absent entries become (validly signed) nil votes
    let ch = chain_of(chain);
    for k in 0..ps.len() {
        if !mask[k] && rng.bool() {
            eh.commit.signatures[k] = CommitSig::BlockIdFlagNil {
                validator_address: set.validators()[k].address,
                timestamp: eh.header.time,
                signature: None,
            };
            sign_entry(&mut eh.commit, &ch, k, &ps[k].key);
        }
    }
    Case { eh, parties: ps }
}

fn flip(h: &Hash, rng: &mut Rng) -> Hash {
    match h {
        Hash::Sha256(b) => {
            let mut b = *b;
            b[rng.usize(0, 31)] ^= 1 << rng.below(8);
            Hash::Sha256(b)
        }
        Hash::None => h32(rng),
    }
}

fn flip_o(h: &Option<Hash>, rng: &mut Rng) -> Option<Hash> {
    Some(flip(&h.unwrap_or_default(), rng))
}

/// every single-field mutation family of the property
fn mutations(rng: &mut Rng, c: &Case) -> Vec<(&'static str, usize, ExtendedHeader, bool, &'static str)> {
    let eh = &c.eh;
    let mut out: Vec<(&'static str, usize, ExtendedHeader, bool, &'static str)> = vec![];
    // --- fields covered by the block hash
    let mut hm = |tag: &'static str, f: &mut dyn FnMut(&mut ExtendedHeader, &mut Rng), rng: &mut Rng| {
        let mut m = eh.clone();
        f(&mut m, rng);
        out.push(("header", 0, m, false, tag));
    };
    hm("header/version-app", &mut |m, r| m.header.version.app = (m.header.version.app % 7) + 1 + r.below(1), rng);
    hm("header/version-block", &mut |m, _| m.header.version.block += 1, rng);
    hm("header/chain-id", &mut |m, _| m.header.chain_id = chain_of("otherchain"), rng);
    hm("header/height", &mut |m, _| m.header.height = (m.header.height.value() + 1).try_into().unwrap(), rng);
    hm("header/time", &mut |m, _| m.header.time = time_of(m.header.time.unix_timestamp_nanos() + 1), rng);
    hm(
        "header/last-block-id",
        &mut |m, r| match &mut m.header.last_block_id {
            Some(id) => {
                if r.bool() {
                    id.hash = flip(&id.hash, r)
                } else {
                    id.part_set_header = parts::Header::new(id.part_set_header.total + 1, id.part_set_header.hash).unwrap()
                }
            }
            None => {
                m.header.last_block_id =
                    Some(BlockId { hash: h32(r), part_set_header: parts::Header::new(1, h32(r)).unwrap() })
            }
        },
        rng,
    );
    hm("header/last-commit-hash", &mut |m, r| m.header.last_commit_hash = flip_o(&m.header.last_commit_hash, r), rng);
    hm("header/data-hash", &mut |m, r| m.header.data_hash = flip_o(&m.header.data_hash, r), rng);
    hm("header/validators-hash", &mut |m, r| m.header.validators_hash = flip(&m.header.validators_hash, r), rng);
    hm("header/next-validators-hash", &mut |m, r| m.header.next_validators_hash = flip(&m.header.next_validators_hash, r), rng);
    hm("header/consensus-hash", &mut |m, r| m.header.consensus_hash = flip(&m.header.consensus_hash, r), rng);
    hm(
        "header/app-hash",
        &mut |m, r| {
            let mut b = m.header.app_hash.as_bytes().to_vec();
            if b.is_empty() || r.chance(1, 4) {
                b.push(r.byte());
            } else {
                let i = r.usize(0, b.len() - 1);
                b[i] ^= 1;
            }
            m.header.app_hash = b.try_into().unwrap();
        },
        rng,
    );
    hm("header/last-results-hash", &mut |m, r| m.header.last_results_hash = flip_o(&m.header.last_results_hash, r), rng);
    hm("header/evidence-hash", &mut |m, r| m.header.evidence_hash = flip_o(&m.header.evidence_hash, r), rng);
    hm(
        "header/proposer-address",
        &mut |m, r| m.header.proposer_address = tendermint::account::Id::new(r.bytes(20).try_into().unwrap()),
        rng,
    );
    // --- DAH roots
    {
        let rows: Vec<Vec<u8>> = eh.dah.row_roots().iter().map(|r| r.to_vec()).collect();
        let cols: Vec<Vec<u8>> = eh.dah.column_roots().iter().map(|r| r.to_vec()).collect();
        let w = rows.len();
        let mut push = |rows: Vec<Vec<u8>>, cols: Vec<Vec<u8>>, tag| {
            let mut m = eh.clone();
            m.dah = dah_of(&rows, &cols).unwrap();
            out.push(("dah", 0, m, false, tag));
        };
        let (mut r2, i) = (rows.clone(), rng.usize(0, w - 1));
        let at = rng.usize(0, 89);
        r2[i][at] ^= 1 << rng.below(8);
        push(r2, cols.clone(), "dah/row-root-bit");
        let (mut c2, i) = (cols.clone(), rng.usize(0, w - 1));
        let at = rng.usize(0, 89);
        c2[i][at] ^= 1 << rng.below(8);
        push(rows.clone(), c2, "dah/col-root-bit");
        let mut r2 = rows.clone();
        let (a, b) = (rng.usize(0, w - 1), rng.usize(0, w - 1));
        if r2[a] != r2[b] {
            r2.swap(a, b);
            push(r2, cols.clone(), "dah/rows-swapped");
        }
        // same concatenation, different split
        let (mut r2, mut c2) = (rows.clone(), cols.clone());
        r2.push(c2.remove(0));
        push(r2, c2, "dah/split-moved");
        // rows and columns exchanged
        if rows != cols {
            push(cols.clone(), rows.clone(), "dah/rows-cols-exchanged");
        }
    }
    // --- validator key / power
    {
        let n = eh.validator_set.validators().len();
        let i = rng.usize(0, n - 1);
        let mut m = eh.clone();
        let k = key_from(rng);
        m.validator_set.validators[i].pub_key = tendermint::PublicKey::from_raw_ed25519(&pk_of(&k)).unwrap();
        out.push(("valset", i, m, true, "valset/key"));
        let mut m = eh.clone();
        let p = m.validator_set.validators[i].power();
        m.validator_set.validators[i].power = (p + 1).try_into().unwrap();
        out.push(("valset", i, m, true, "valset/power-raw"));
        // consistent re-weighting through Set::new (total recomputed, possibly reordered)
        let mut ps = c.parties.clone();
        ps[i].val.power += 1;
        let mut m = eh.clone();
        m.validator_set = set_of_parties(&ps).1;
        out.push(("valset", i, m, false, "valset/power-rebuilt"));
    }
    // --- commit block id / height / round
    {
        let mut m = eh.clone();
        m.commit.block_id.hash = flip(&m.commit.block_id.hash, rng);
        out.push(("commit-block-hash", 0, m, false, "commit/block-hash"));
        let mut m = eh.clone();
        let psh = m.commit.block_id.part_set_header;
        m.commit.block_id.part_set_header = if rng.bool() {
            parts::Header::new(psh.total + 1, psh.hash).unwrap()
        } else {
            parts::Header::new(psh.total, flip(&psh.hash, rng)).unwrap()
        };
        out.push(("commit-psh", 0, m, false, "commit/part-set-header"));
        let mut m = eh.clone();
        m.commit.height = (m.commit.height.value() + 1).try_into().unwrap();
        out.push(("commit-height", 0, m, false, "commit/height"));
        let mut m = eh.clone();
        m.commit.round = (m.commit.round.value() as u16 + 1).into();
        out.push(("commit-round", 0, m, false, "commit/round"));
    }
    // --- every commit entry: signature, timestamp, validator address
    for k in 0..eh.commit.signatures.len() {
        for what in 0..3 {
            let mut m = eh.clone();
            let (fam, tag) = match &mut m.commit.signatures[k] {
                CommitSig::BlockIdFlagAbsent => continue,
                CommitSig::BlockIdFlagCommit { validator_address, timestamp, signature }
                | CommitSig::BlockIdFlagNil { validator_address, timestamp, signature } => match what {
                    0 => {
                        let Some(s) = signature else { continue };
                        let mut b = s.as_bytes().to_vec();
                        let at = rng.usize(0, 63);
                        b[at] ^= 1 << rng.below(8);
                        *signature = Signature::new(b).unwrap();
                        ("sig", "entry/signature")
                    }
                    1 => {
                        *timestamp = time_of(timestamp.unix_timestamp_nanos() + 1 + rng.below(1000) as i128);
                        ("ts", "entry/timestamp")
                    }
                    _ => {
                        let mut a: [u8; 20] = validator_address.as_bytes().try_into().unwrap();
                        a[rng.usize(0, 19)] ^= 1 << rng.below(8);
                        *validator_address = tendermint::account::Id::new(a);
                        ("addr", "entry/address")
                    }
                },
            };
            out.push((fam, k, m, false, tag));
        }
    }
    out
}

/// headers that must be rejected / are malformed in one way (validate ops, model vs code)
fn malformed(rng: &mut Rng, c: &Case) -> Vec<(ExtendedHeader, bool, &'static str)> {
    let eh = &c.eh;
    let mut out = vec![];
    // re-sign helper: after changing header fields, keep everything else consistent
    let resign = |m: &mut ExtendedHeader| {
        m.commit.block_id.hash = m.header.hash();
        let ch = m.header.chain_id.clone();
        for k in 0..m.commit.signatures.len() {
            if !matches!(m.commit.signatures[k], CommitSig::BlockIdFlagAbsent) {
                sign_entry(&mut m.commit, &ch, k, &c.parties[k].key);
            }
        }
    };
    let mut m = eh.clone();
    m.header.version.block = 10;
    resign(&mut m);
    out.push((m, false, "bad/version-block"));
    let mut m = eh.clone();
    m.header.height = 0u32.into();
    m.commit.height = 0u32.into();
    resign(&mut m);
    out.push((m, false, "bad/height-zero"));
    let mut m = eh.clone();
    if m.header.height.value() == 1 {
        m.header.last_block_id = Some(BlockId { hash: h32(rng), part_set_header: parts::Header::new(1, h32(rng)).unwrap() });
    } else {
        m.header.last_block_id = None;
    }
    resign(&mut m);
    out.push((m, false, "bad/last-block-id-presence"));
    for app in [0u64, 8, 100] {
        let mut m = eh.clone();
        m.header.version.app = app;
        resign(&mut m);
        out.push((m, false, "bad/app-version"));
    }
    let mut m = eh.clone();
    m.commit.signatures.clear();
    out.push((m, false, "bad/no-signatures"));
    let mut m = eh.clone();
    m.commit.block_id = BlockId { hash: Hash::None, part_set_header: parts::Header::new(0, Hash::None).unwrap() };
    out.push((m, false, "bad/block-id-zero"));
    let mut m = eh.clone();
    let k = rng.usize(0, m.commit.signatures.len() - 1);
    match &mut m.commit.signatures[k] {
        CommitSig::BlockIdFlagCommit { signature, .. } | CommitSig::BlockIdFlagNil { signature, .. } => *signature = None,
        _ => {}
    }
    out.push((m, false, "bad/entry-without-signature"));
    let mut m = eh.clone();
    m.validator_set.proposer = None;
    out.push((m, true, "bad/no-proposer"));
    let mut m = eh.clone();
    m.validator_set.validators.clear();
    out.push((m, true, "bad/empty-valset"));
    let mut m = eh.clone();
    m.commit.signatures.pop();
    out.push((m, false, "bad/commit-shorter"));
    let mut m = eh.clone();
    m.commit.signatures.push(CommitSig::BlockIdFlagAbsent);
    out.push((m, false, "bad/commit-longer"));
    // signers reduced to at most 2/3: drop commit entries from the end until not enough
    {
        let mut m = eh.clone();
        let total = m.validator_set.total_voting_power().value() as u128;
        let mut acc: u128 = m
            .commit
            .signatures
            .iter()
            .zip(m.validator_set.validators())
            .filter(|(s, _)| s.is_commit())
            .map(|(_, v)| v.power() as u128)
            .sum();
        for k in (0..m.commit.signatures.len()).rev() {
            if 3 * acc <= 2 * total {
                break;
            }
            if m.commit.signatures[k].is_commit() {
                acc -= m.validator_set.validators()[k].power() as u128;
                m.commit.signatures[k] = CommitSig::BlockIdFlagAbsent;
            }
        }
        if !m.commit.signatures.is_empty() {
            out.push((m, false, "bad/not-enough-power"));
        }
    }
    // DAH shapes (header re-hashed and re-signed so that only the shape is wrong)
    let app = eh.header.version.app;
    let maxw = if app >= 6 { 1024 } else { 256 };
    for (r, cc, tag) in [(1usize, 1usize, "bad/dah-width-1"), (0, 0, "bad/dah-empty"), (4, 2, "bad/dah-cols-rows"), (3, 3, "ok/dah-odd-width")] {
        let rows: Vec<Vec<u8>> = (0..r).map(|_| rand_root(rng)).collect();
        let cols: Vec<Vec<u8>> = (0..cc).map(|_| rand_root(rng)).collect();
        let mut m = eh.clone();
        m.dah = dah_of(&rows, &cols).unwrap();
        m.header.data_hash = Some(m.dah.hash());
        resign(&mut m);
        out.push((m, false, tag));
    }
    if rng.chance(1, 12) {
        for (w, tag) in [(maxw, "ok/dah-max-width"), (maxw + 1, "bad/dah-too-big")] {
            let mut m = eh.clone();
            m.dah = rand_dah(rng, w);
            m.header.data_hash = Some(m.dah.hash());
            resign(&mut m);
            out.push((m, false, tag));
        }
    }
    // data_hash None while the DAH is not empty
    let mut m = eh.clone();
    m.header.data_hash = None;
    resign(&mut m);
    out.push((m, false, "bad/data-hash-none"));
    out
}

/// S9: inputs for `verify_commit_light` called directly.  Inside `validate` two of its exits are
/// shadowed (`Commit::validate_basic` rejects an entry without signature first, the commit-height
/// comparison of `validate` precedes the one at validator_set.rs:62), so `validate` ops never reach them.
fn vcl_cases(rng: &mut Rng, c: &Case) -> Vec<(u64, ExtendedHeader, &'static str)> {
    let eh = &c.eh;
    let h = eh.header.height.value();
    let mut out = vec![(h, eh.clone(), "vcl/honest")];
    let strip = |m: &mut ExtendedHeader, k: usize| match &mut m.commit.signatures[k] {
        CommitSig::BlockIdFlagCommit { signature, .. } | CommitSig::BlockIdFlagNil { signature, .. } => *signature = None,
        _ => {}
    };
    let commits: Vec<usize> = (0..eh.commit.signatures.len()).filter(|&k| eh.commit.signatures[k].is_commit()).collect();
    let nils: Vec<usize> = (0..eh.commit.signatures.len()).filter(|&k| eh.commit.signatures[k].is_nil()).collect();
    if let Some(&k) = commits.first() {
        // the first block-commit entry is always reached before the tally is complete
        let mut m = eh.clone();
        strip(&mut m, k);
        out.push((h, m, "vcl/first-commit-entry-without-signature"));
        // any block-commit entry: after the 2/3 tally was reached the loop has already returned
        let mut m = eh.clone();
        strip(&mut m, *rng.pick(&commits));
        out.push((h, m, "vcl/some-commit-entry-without-signature"));
        let mut m = eh.clone();
        strip(&mut m, *commits.last().unwrap());
        out.push((h, m, "vcl/last-commit-entry-without-signature"));
    }
    if !nils.is_empty() {
        let mut m = eh.clone();
        strip(&mut m, *rng.pick(&nils));
        out.push((h, m, "vcl/nil-entry-without-signature"));
    }
    for hh in [h + 1, h - 1, 0, h + 1000] {
        if hh != h {
            out.push((hh, eh.clone(), "vcl/height-arg-differs"));
        }
    }
    let mut m = eh.clone();
    m.commit.height = (h + 1).try_into().unwrap();
    out.push((h, m.clone(), "vcl/commit-height-differs"));
    // both moved together: heights agree, the votes were signed for another height
    out.push((h + 1, m, "vcl/both-heights-moved"));
    out
}

impl Prop for C01 {
    fn id(&self) -> &'static str {
        "C01"
    }
    fn rule(&self) -> &'static str {
        "honest extended headers built like the repository's test_utils but with 1..8 validators (5 power distributions), app versions 1..7, \
         square widths 2..64 (random roots) or the empty square, heights 1/2/3/77/10^6, three chain ids, commits signed with real ed25519 keys by \
         all validators / a minimal >2/3 prefix / a scattered >2/3 subset plus extra signers, non-signers absent or signed nil votes; plus the \
         repository's own single-validator ExtendedHeaderGenerator chains.  For EVERY header: `validate`, then every single-field mutation family \
         (each of the 14 header fields, DAH row root bit / column root bit / rows swapped / split moved / rows-columns exchanged, validator key, \
         validator power (raw and rebuilt set), commit block hash, part-set header, commit height, round, and signature bit / timestamp / address of \
         EVERY commit entry) as a `mutate` op that validates original and mutant; plus a malformed stream (block version, height 0, last_block_id \
         presence, app versions 0/8/100, no signatures, zero block id, entry without signature, no proposer, empty set, commit shorter/longer, signers \
         cut down to <= 2/3, DAH width 1/0/rows≠cols/odd/maximum/maximum+1, data_hash None); plus, per header, `verify_commit_light` called \
         directly (`vcl`): honest, first / some / last block-commit entry and a nil entry with `signature: None`, height argument ±1 / 0 / +1000, \
         commit height +1, both moved.  Non-trivial = all cases; distinct = distinct (op, result) lines."
    }
    fn gen_ops(&mut self, rng: &mut Rng, tier: Tier, out: &mut Emitter) {
        let cases = if tier == Tier::Thorough { 400 } else { 36 };
        for _ in 0..cases {
            let c = honest_case(rng, tier);
            out.op(format!("validate {}", fmt_eh_full(&c.eh, "", false)), "validate/honest", true);
            let base = fmt_eh_full(&c.eh, "b.", false);
            for (fam, k, m, raw, tag) in mutations(rng, &c) {
                out.op(format!("mutate fam={fam} idx={k} {base} {}", fmt_eh_full(&m, "m.", raw)), tag, true);
            }
            for (m, raw, tag) in malformed(rng, &c) {
                out.op(format!("validate {}", fmt_eh_full(&m, "", raw)), tag, true);
            }
            for (h, m, tag) in vcl_cases(rng, &c) {
                out.op(format!("vcl h={h} {}", fmt_eh_full(&m, "", false)), tag, true);
            }
        }
        // the repository's own generator (single validator, real empty-square / random DAHs)
        let mut g = ExtendedHeaderGenerator::new();
        for i in 0..(if tier == Tier::Thorough { 40 } else { 6 }) {
            let eh = if i % 2 == 0 { g.next() } else { g.next_empty() };
            out.op(format!("validate {}", fmt_eh_full(&eh, "", false)), "validate/repo-generator", true);
            let mut m = eh.clone();
            celestia_types::test_utils::invalidate(&mut m);
            out.op(format!("validate {}", fmt_eh_full(&m, "", false)), "validate/repo-invalidate", true);
        }
    }
    fn run(&mut self, line: &str) -> String {
        match opname(line) {
            "reset" => "ok".into(),
            "validate" => match parse_eh_full(line, "") {
                Some(eh) => validate_str(&eh),
                None => "bad-op".into(),
            },
            "vcl" => match (arg_u64(line, "h").and_then(|h| tendermint::block::Height::try_from(h).ok()), parse_eh_full(line, "")) {
                (Some(h), Some(eh)) => {
                    use celestia_types::verif::ValidatorSetExt;
                    let v = match eh.validator_set.verify_commit_light(&eh.header.chain_id, &h, &eh.commit) {
                        Ok(()) => "ok".to_string(),
                        Err(e) => format!("err {}", err_kind(&e)),
                    };
                    format!("{v} {}", oracle_words(&eh, ""))
                }
                _ => "bad-op".into(),
            },
            "mutate" => match (parse_eh_full(line, "b."), parse_eh_full(line, "m.")) {
                (Some(b), Some(m)) => format!("{} | {}", validate_str(&b), validate_str(&m)),
                _ => "bad-op".into(),
            },
            _ => "bad-op".into(),
        }
    }
    fn result_tag(&self, _line: &str, result: &str) -> Option<String> {
        // verdict(s) only: the oracle words (`xh=…`, hashes of that very header) would make every result a tag of its own
        let v: Vec<&str> = result.split(" | ").map(|seg| seg.split(" xh=").next().unwrap_or("")).collect();
        Some(v.join(" | ").replace(' ', "_").chars().take(60).collect())
    }
}

#[allow(dead_code)]
fn unused(_: &Set) {}

fn main() {
    main_for(C01);
}

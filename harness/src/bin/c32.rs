//! C32 — Header-ex requests are retried boundedly and answered once.
//!
//! Drives the REAL `HeaderExClientHandler` (`ClientRig` in the cfg-guarded hook block of
//! `node/src/p2p/header_ex/client.rs`: real handler + real `PeerTracker` + recording
//! `RequestSender`) with sequences of requests, scheduling rounds, responses / failures (current,
//! stale and duplicated), callers going away, connects / disconnects and stop.
use std::future::poll_fn;
use std::task::Poll;

use celestia_proto::p2p::pb::header_request::Data;
use celestia_proto::p2p::pb::{HeaderRequest, HeaderResponse, StatusCode};
use celestia_types::ExtendedHeader;
use celestia_types::test_utils::ExtendedHeaderGenerator;
use libp2p::PeerId;
use libp2p::request_response::OutboundFailure;
use lumina_node::node::{HeaderExError, P2pError};
use lumina_node::verif::p2p::header_ex::client::{Answer, ClientRig};
use verif_harness::*;

/// the ORIGINAL random sequences keep below this many requests
const CHAIN: u64 = 48;
/// length of the generated chain = largest number of requests in one sequence (S10: 1025 requests + a second wave of 512 + 1)
const CHAIN_GEN: u64 = 1600;

struct Seq {
    rig: ClientRig,
    peers: Vec<(PeerId, bool, bool, bool)>, // id, connected, trusted, archival
    rxs: Vec<Option<Answer>>,
    /// per request: its sends so far (send id, recipient)
    attempts: Vec<Vec<(u64, PeerId)>>,
    seen_sends: usize,
}

struct C32 {
    rt: tokio::runtime::Runtime,
    chain: Vec<ExtendedHeader>,
    seq: Option<Seq>,
}

fn encode(h: &ExtendedHeader) -> Vec<u8> {
    use tendermint_proto::Protobuf;
    <ExtendedHeader as Protobuf<celestia_proto::header::pb::ExtendedHeader>>::encode_vec(h.clone())
}

fn err_kind(e: &P2pError) -> &'static str {
    match e {
        P2pError::HeaderEx(HeaderExError::HeaderNotFound) => "nf",
        P2pError::HeaderEx(HeaderExError::InvalidResponse) => "ir",
        P2pError::HeaderEx(HeaderExError::InvalidRequest) => "iq",
        P2pError::HeaderEx(HeaderExError::OutboundFailure(_)) => "of",
        P2pError::HeaderEx(HeaderExError::RequestCancelled) => "rc",
        _ => "other",
    }
}

impl C32 {
    fn new() -> Self {
        let rt = tokio::runtime::Builder::new_current_thread().enable_time().build().unwrap();
        let chain = ExtendedHeaderGenerator::new().next_many(CHAIN_GEN);
        C32 { rt, chain, seq: None }
    }

    /// poll the handler until its tasks are done, then report new sends and new answers
    fn settle(&mut self) -> String {
        let chain_len = self.chain.len();
        let seq = self.seq.as_mut().unwrap();
        self.rt.block_on(async {
            for _ in 0..10_000 {
                let _ = poll_fn(|cx| {
                    let _ = seq.rig.poll(cx);
                    Poll::Ready(())
                })
                .await;
                if seq.rig.counts().4 == 0 {
                    break;
                }
                tokio::task::yield_now().await;
            }
        });
        // new sends
        let mut sent: Vec<(usize, String)> = vec![];
        let new: Vec<(u64, PeerId, HeaderRequest)> = seq.rig.sender.sent[seq.seen_sends..].to_vec();
        seq.seen_sends = seq.rig.sender.sent.len();
        for (sid, peer, req) in new {
            let Some(Data::Origin(o)) = req.data else { continue };
            let r = (o - 1) as usize;
            if r >= seq.attempts.len() || o as usize > chain_len {
                sent.push((usize::MAX, format!("?:{o}")));
                continue;
            }
            seq.attempts[r].push((sid, peer));
            let att = seq.attempts[r].len();
            // observable: the recipient. Its `connected` flag always, its `archival` flag for the third attempt
            let p = seq.peers.iter().find(|p| p.0 == peer);
            let (c, a) = p.map(|p| (p.1, p.3)).unwrap_or((false, false));
            let flags = if att >= 3 { format!("c{}a{}", c as u8, a as u8) } else { format!("c{}", c as u8) };
            sent.push((r, format!("{r}:{att}:{flags}")));
        }
        sent.sort();
        // new answers
        let mut ans: Vec<String> = vec![];
        for (i, rx) in seq.rxs.iter_mut().enumerate() {
            if let Some(rcv) = rx {
                match rcv.try_recv() {
                    Ok(Ok(v)) => {
                        let good = v.len() == 1 && v[0].height() == i as u64 + 1;
                        ans.push(format!("{i}:{}", if good { "ok" } else { "wrong" }));
                        *rx = None;
                    }
                    Ok(Err(e)) => {
                        ans.push(format!("{i}:{}", err_kind(&e)));
                        *rx = None;
                    }
                    Err(tokio::sync::oneshot::error::TryRecvError::Closed) => {
                        ans.push(format!("{i}:dropped"));
                        *rx = None;
                    }
                    Err(_) => {}
                }
            }
        }
        // the handler's own bookkeeping: requests in flight, pending per kind [any, archival, trusted, trusted+archival]
        let (infl, pend, _, _, _) = seq.rig.counts();
        format!(
            "sent={} ans={} pend={} infl={infl}",
            if sent.is_empty() { "-".to_string() } else { sent.into_iter().map(|x| x.1).collect::<Vec<_>>().join(",") },
            if ans.is_empty() { "-".to_string() } else { ans.join(",") },
            natl(&pend)
        )
    }
}

/// S10: `n` peers (style 0: all connected, trusted, archival; 1: no archival peer at all, so third tries wait;
/// 2: mixed), `k` requests issued at once and driven through their tries together; callers going away in bulk,
/// the population shrinking to 9..11 connected peers, and finally `stop` with many requests pending / in flight.
fn big_sequence(rng: &mut Rng, out: &mut Emitter, n: usize, k: usize, style: usize) {
    out.op("reset", &format!("big/seq-peers={n}-reqs={k}"), false);
    let peers: Vec<String> = (0..n)
        .map(|_| match style {
            0 => "cta".to_string(),
            1 => format!("c{}n", if rng.bool() { 't' } else { 'u' }),
            _ => format!(
                "{}{}{}",
                if rng.chance(4, 5) { 'c' } else { 'd' },
                if rng.bool() { 't' } else { 'u' },
                if rng.chance(1, 3) { 'a' } else { 'n' }
            ),
        })
        .collect();
    out.op(format!("peers p={}", peers.join(",")), "big/peers", false);
    let t = "big/req";
    for _ in 0..k {
        let v = if rng.chance(1, 16) { 0 } else { 1 };
        out.op(format!("req v={v}"), t, true);
    }
    // a tenth of the callers go away before the first scheduling round
    for _ in 0..k / 10 {
        out.op(format!("close r={}", rng.usize(0, k - 1)), "big/close", true);
    }
    out.op("sched", "big/sched", true);
    let mut order: Vec<usize> = (0..k).collect();
    // three tries: a third of the requests succeed in each, the rest keep failing
    for attempt in 0..3 {
        rng.shuffle(&mut order);
        for (j, &r) in order.iter().enumerate() {
            let res = if j % 3 == 0 { "ok" } else { *rng.pick(&["nf", "ir", "of"]) };
            out.op(format!("out r={r} att=cur res={res}"), &format!("big/out-{res}"), true);
            if rng.chance(1, 20) {
                out.op(format!("out r={r} att=cur res={res}"), "big/out-duplicate", true);
            }
            if rng.chance(1, 20) {
                out.op(format!("out r={r} att=old res=of"), "big/out-stale", true);
            }
            // scheduling rounds in the middle of the outcomes: batches of retried requests of every size
            if rng.chance(1, 12) {
                out.op("sched", "big/sched", true);
            }
        }
        out.op("sched", "big/sched", true);
        if attempt == 0 && n > 11 {
            // the population shrinks to 11, 10, 9 connected peers
            for i in 11..n {
                out.op(format!("disc i={i}"), "big/disc", false);
            }
            out.op("sched", "big/sched", true);
            out.op("disc i=10", "big/disc", false);
            out.op("sched", "big/sched", true);
            out.op("disc i=9", "big/disc", false);
            out.op("sched", "big/sched", true);
        }
        if attempt == 1 && n > 11 {
            for i in (9..n).step_by(2) {
                out.op(format!("conn i={i}"), "big/conn", false);
            }
        }
    }
    // a second wave that is stopped while pending / in flight
    for _ in 0..(k / 2).max(1) {
        out.op("req v=1", t, true);
    }
    if rng.bool() {
        out.op("sched", "big/sched", true);
    }
    out.op("stop", "big/stop", true);
    out.op("req v=1", t, true);
    out.op("sched", "big/sched", true);
}

fn gen_peers(rng: &mut Rng) -> Vec<String> {
    let n = match rng.below(6) {
        0 => 0,
        1 => rng.usize(11, 14),
        _ => rng.usize(1, 6),
    };
    let style = rng.below(4);
    (0..n)
        .map(|_| {
            let c = match style {
                0 => 'c',
                _ => if rng.chance(3, 4) { 'c' } else { 'd' },
            };
            let t = if rng.bool() { 't' } else { 'u' };
            let a = match style {
                1 => 'n', // no archival peer at all: the third try must wait
                2 => 'a',
                _ => if rng.chance(1, 3) { 'a' } else { 'n' },
            };
            format!("{c}{t}{a}")
        })
        .collect()
}

impl Prop for C32 {
    fn id(&self) -> &'static str {
        "C32"
    }
    fn rule(&self) -> &'static str {
        "sequences (reset-separated, 10..60 ops) against the real client handler: peer populations of 0..14 peers with \
         every connected/trusted/archival combination incl. populations without any archival peer; requests (valid and \
         invalid); scheduling rounds; per-attempt outcomes ok / not-found / invalid-response / outbound-failure for the \
         outstanding attempt, for a stale attempt and duplicated; callers dropping their receiver at any point; peers \
         connecting/disconnecting between rounds; stop, and requests after stop. \
         Size-threshold sequences (S10, tags big/..): populations of 8..12, 16, 17, 32, 33, 64, 65, 128, 129, 513, 1025 peers (all \
         eligible / none archival / mixed) shrinking to 11, 10, 9 connected peers and growing again; 9, 10, 11, 17, 33, 65, 129, 513 \
         (thorough also 8, 12, 16, 32, 64, 128, 257, 1025) requests issued at once and driven through all three tries together \
         with scheduling rounds in between (batches of every size), duplicated and stale outcomes, a tenth of the callers gone \
         before the first round, and a second wave of k/2 requests stopped while pending or in flight. Non-trivial = ops that send, answer or \
         deliver an outcome; distinct = distinct (op, result)."
    }
    fn gen_ops(&mut self, rng: &mut Rng, tier: Tier, out: &mut Emitter) {
        let seqs = if tier == Tier::Thorough { 1500 } else { 150 };
        for _ in 0..seqs {
            out.op("reset", "reset", false);
            let peers = gen_peers(rng);
            let np = peers.len();
            out.op(format!("peers p={}", if peers.is_empty() { "-".to_string() } else { peers.join(",") }), "peers", false);
            let mut nreq = 0usize;
            let len = rng.usize(10, 60);
            let persistent_failure = rng.chance(1, 3); // drive requests through all three tries
            for _ in 0..len {
                match rng.below(24).min(19) {
                    0..=3 if nreq < CHAIN as usize - 2 => {
                        let v = if rng.chance(1, 8) { 0 } else { 1 };
                        out.op(format!("req v={v}"), if v == 1 { "req" } else { "req/invalid" }, true);
                        nreq += 1;
                    }
                    4..=8 => out.op("sched", "sched", true),
                    9..=15 if nreq > 0 => {
                        let r = rng.usize(0, nreq - 1);
                        let res = if persistent_failure {
                            *rng.pick(&["nf", "ir", "of"])
                        } else {
                            *rng.pick(&["ok", "ok", "nf", "ir", "of"])
                        };
                        let att = if rng.chance(1, 8) { "old" } else { "cur" };
                        out.op(format!("out r={r} att={att} res={res}"), &format!("out/{att}/{res}"), true);
                        if rng.chance(1, 10) {
                            out.op(format!("out r={r} att={att} res={res}"), "out/duplicate", true);
                        }
                    }
                    16 if nreq > 0 => out.op(format!("close r={}", rng.usize(0, nreq - 1)), "close", true),
                    17 if np > 0 => {
                        let i = rng.usize(0, np - 1);
                        out.op(format!("{} i={i}", if rng.bool() { "conn" } else { "disc" }), "conn/disc", false);
                    }
                    18 if rng.chance(1, 4) => out.op("stop", "stop", true),
                    19 if nreq > 0 => {
                        // a focused episode: drive one request through its tries
                        let r = rng.usize(0, nreq - 1);
                        for _ in 0..rng.usize(2, 4) {
                            out.op("sched", "sched", true);
                            if rng.chance(1, 10) {
                                out.op(format!("close r={r}"), "close", true);
                            }
                            if rng.chance(1, 10) && np > 0 {
                                let i = rng.usize(0, np - 1);
                                out.op(format!("{} i={i}", if rng.bool() { "conn" } else { "disc" }), "conn/disc", false);
                            }
                            let res = if rng.chance(1, 6) { "ok" } else { *rng.pick(&["nf", "ir", "of"]) };
                            out.op(format!("out r={r} att=cur res={res}"), &format!("out/cur/{res}"), true);
                        }
                    }
                    _ => out.op("sched", "sched", true),
                }
            }
            if rng.bool() {
                out.op("stop", "stop", true);
            }
        }
        // ---- S10 size-threshold stress: appended sequences (each starts with its own `reset`) ----
        // peers: MAX_PEERS = 10 +-1/+-2 and larger populations; requests: many concurrent requests per sequence
        let ns: &[usize] = &[9, 10, 11, 12, 17, 33, 65, 129, 513, 8, 16, 32, 64, 128, 1025];
        let ks: &[usize] = if tier == Tier::Thorough {
            &[8, 9, 10, 11, 12, 16, 17, 32, 33, 64, 65, 128, 129, 257, 513, 1025]
        } else {
            &[9, 10, 11, 17, 33, 65, 129, 513]
        };
        let reps = if tier == Tier::Thorough { 4 } else { 1 };
        for rep in 0..reps {
            for (i, &k) in ks.iter().enumerate() {
                let n = if tier == Tier::Thorough { ns[(i + 3 * rep) % ns.len()] } else { ns[(i + 1) % 9] };
                big_sequence(rng, out, n, k, (i + rep) % 3);
            }
            // peer-count thresholds with few requests
            for &n in &[9usize, 10, 11, 12, 33, 129] {
                let (k, style) = (rng.usize(1, 4), rng.usize(0, 2));
                big_sequence(rng, out, n, k, style);
            }
        }
    }

    fn run(&mut self, line: &str) -> String {
        match opname(line) {
            "reset" => {
                self.seq = None;
                "ok".into()
            }
            "peers" => {
                let p = arg(line, "p").unwrap_or("-");
                let flags: Vec<&str> = if p == "-" { vec![] } else { p.split(',').collect() };
                let rig = self.rt.block_on(async { ClientRig::new() });
                let mut seq = Seq { rig, peers: vec![], rxs: vec![], attempts: vec![], seen_sends: 0 };
                for (i, f) in flags.iter().enumerate() {
                    let id = PeerId::random();
                    let b = f.as_bytes();
                    let (c, t, a) = (b[0] == b'c', b[1] == b't', b[2] == b'a');
                    seq.rig.set_peer(&id, t, a);
                    if c {
                        seq.rig.connect(&id, i);
                    }
                    seq.peers.push((id, c, t, a));
                }
                self.seq = Some(seq);
                "sent=- ans=- pend=0,0,0,0 infl=0".into()
            }
            op => {
                if self.seq.is_none() {
                    return "bad-op".into();
                }
                {
                    let chain = &self.chain;
                    let seq = self.seq.as_mut().unwrap();
                    match op {
                        "conn" | "disc" => {
                            let i = arg_u64(line, "i").unwrap_or(0) as usize;
                            if i < seq.peers.len() {
                                let id = seq.peers[i].0;
                                if op == "conn" && !seq.peers[i].1 {
                                    seq.rig.connect(&id, i);
                                    seq.peers[i].1 = true;
                                } else if op == "disc" && seq.peers[i].1 {
                                    seq.rig.disconnect(&id, i);
                                    seq.peers[i].1 = false;
                                    // PeerTracker::remove_connection forgets `archival` with the last connection
                                    seq.peers[i].3 = false;
                                }
                            }
                        }
                        "req" => {
                            let v = arg_u64(line, "v").unwrap_or(1) == 1;
                            let r = seq.rxs.len() as u64;
                            let req = HeaderRequest { amount: if v { 1 } else { 0 }, data: Some(Data::Origin(r + 1)) };
                            let rx = seq.rig.send_request(req);
                            seq.rxs.push(Some(rx));
                            seq.attempts.push(vec![]);
                        }
                        "sched" => seq.rig.schedule(),
                        "out" => {
                            let r = arg_u64(line, "r").unwrap_or(0) as usize;
                            let old = arg(line, "att") == Some("old");
                            let res = arg(line, "res").unwrap_or("of");
                            if r < seq.attempts.len() {
                                let n = seq.attempts[r].len();
                                let idx = if old { n.checked_sub(2) } else { n.checked_sub(1) };
                                if let Some(idx) = idx {
                                    let (sid, peer) = seq.attempts[r][idx];
                                    let ok = |s: StatusCode, body: Vec<u8>| vec![HeaderResponse { body, status_code: s.into() }];
                                    match res {
                                        "ok" => seq.rig.response(peer, sid, ok(StatusCode::Ok, encode(&chain[r]))),
                                        "nf" => seq.rig.response(peer, sid, ok(StatusCode::NotFound, vec![])),
                                        "ir" => seq.rig.response(peer, sid, ok(StatusCode::Invalid, vec![])),
                                        _ => seq.rig.failure(peer, sid, OutboundFailure::Timeout),
                                    }
                                }
                            }
                        }
                        "close" => {
                            let r = arg_u64(line, "r").unwrap_or(0) as usize;
                            if r < seq.rxs.len() {
                                seq.rxs[r] = None;
                            }
                        }
                        "stop" => seq.rig.stop(),
                        _ => return "bad-op".into(),
                    }
                }
                self.settle()
            }
        }
    }

    fn result_tag(&self, _line: &str, result: &str) -> Option<String> {
        let s = arg(result, "sent").map(|x| x != "-").unwrap_or(false);
        let a = arg(result, "ans").map(|x| x != "-").unwrap_or(false);
        Some(match (s, a) {
            (true, true) => "sent+answered",
            (true, false) => "sent",
            (false, true) => "answered",
            _ => "quiet",
        }
        .to_string())
    }
}

fn main() {
    main_for(C32::new());
}

//! C32 — Header-ex requests are retried boundedly and answered once.
//!
//! Drives the REAL `HeaderExClientHandler` (`ClientRig` in the cfg-guarded hook block of
//! `node/src/p2p/header_ex/client.rs`: real handler + real `PeerTracker` + recording
//! `RequestSender`) with sequences of requests, scheduling rounds, responses / failures (current,
//! stale and duplicated), callers going away, connects / disconnects and stop.
use std::future::poll_fn;
use std::task::Poll;

use celestia_proto::p2p::pb::header_request::Data;
use celestia_proto::p2p::pb::{HeaderRequest, HeaderResponse, StatusCode};
use celestia_types::ExtendedHeader;
use celestia_types::test_utils::ExtendedHeaderGenerator;
use libp2p::PeerId;
use libp2p::request_response::OutboundFailure;
use lumina_node::node::{HeaderExError, P2pError};
use lumina_node::verif::p2p::header_ex::client::{Answer, ClientRig};
use verif_harness::*;

const CHAIN: u64 = 48;

struct Seq {
    rig: ClientRig,
    peers: Vec<(PeerId, bool, bool, bool)>, // id, connected, trusted, archival
    rxs: Vec<Option<Answer>>,
    /// per request: its sends so far (send id, recipient)
    attempts: Vec<Vec<(u64, PeerId)>>,
    seen_sends: usize,
}

struct C32 {
    rt: tokio::runtime::Runtime,
    chain: Vec<ExtendedHeader>,
    seq: Option<Seq>,
}

fn encode(h: &ExtendedHeader) -> Vec<u8> {
    use tendermint_proto::Protobuf;
    <ExtendedHeader as Protobuf<celestia_proto::header::pb::ExtendedHeader>>::encode_vec(h.clone())
}

fn err_kind(e: &P2pError) -> &'static str {
    match e {
        P2pError::HeaderEx(HeaderExError::HeaderNotFound) => "nf",
        P2pError::HeaderEx(HeaderExError::InvalidResponse) => "ir",
        P2pError::HeaderEx(HeaderExError::InvalidRequest) => "iq",
        P2pError::HeaderEx(HeaderExError::OutboundFailure(_)) => "of",
        P2pError::HeaderEx(HeaderExError::RequestCancelled) => "rc",
        _ => "other",
    }
}

impl C32 {
    fn new() -> Self {
        let rt = tokio::runtime::Builder::new_current_thread().enable_time().build().unwrap();
        let chain = ExtendedHeaderGenerator::new().next_many(CHAIN);
        C32 { rt, chain, seq: None }
    }

    /// poll the handler until its tasks are done, then report new sends and new answers
    fn settle(&mut self) -> String {
        let chain_len = self.chain.len();
        let seq = self.seq.as_mut().unwrap();
        self.rt.block_on(async {
            for _ in 0..10_000 {
                let _ = poll_fn(|cx| {
                    let _ = seq.rig.poll(cx);
                    Poll::Ready(())
                })
                .await;
                if seq.rig.counts().4 == 0 {
                    break;
                }
                tokio::task::yield_now().await;
            }
        });
        // new sends
        let mut sent: Vec<(usize, String)> = vec![];
        let new: Vec<(u64, PeerId, HeaderRequest)> = seq.rig.sender.sent[seq.seen_sends..].to_vec();
        seq.seen_sends = seq.rig.sender.sent.len();
        for (sid, peer, req) in new {
            let Some(Data::Origin(o)) = req.data else { continue };
            let r = (o - 1) as usize;
            if r >= seq.attempts.len() || o as usize > chain_len {
                sent.push((usize::MAX, format!("?:{o}")));
                continue;
            }
            seq.attempts[r].push((sid, peer));
            let att = seq.attempts[r].len();
            // observable: the recipient. Its `connected` flag always, its `archival` flag for the third attempt
            let p = seq.peers.iter().find(|p| p.0 == peer);
            let (c, a) = p.map(|p| (p.1, p.3)).unwrap_or((false, false));
            let flags = if att >= 3 { format!("c{}a{}", c as u8, a as u8) } else { format!("c{}", c as u8) };
            sent.push((r, format!("{r}:{att}:{flags}")));
        }
        sent.sort();
        // new answers
        let mut ans: Vec<String> = vec![];
        for (i, rx) in seq.rxs.iter_mut().enumerate() {
            if let Some(rcv) = rx {
                match rcv.try_recv() {
                    Ok(Ok(v)) => {
                        let good = v.len() == 1 && v[0].height() == i as u64 + 1;
                        ans.push(format!("{i}:{}", if good { "ok" } else { "wrong" }));
                        *rx = None;
                    }
                    Ok(Err(e)) => {
                        ans.push(format!("{i}:{}", err_kind(&e)));
                        *rx = None;
                    }
                    Err(tokio::sync::oneshot::error::TryRecvError::Closed) => {
                        ans.push(format!("{i}:dropped"));
                        *rx = None;
                    }
                    Err(_) => {}
                }
            }
        }
        // the handler's own bookkeeping: requests in flight, pending per kind [any, archival, trusted, trusted+archival]
        let (infl, pend, _, _, _) = seq.rig.counts();
        format!(
            "sent={} ans={} pend={} infl={infl}",
            if sent.is_empty() { "-".to_string() } else { sent.into_iter().map(|x| x.1).collect::<Vec<_>>().join(",") },
            if ans.is_empty() { "-".to_string() } else { ans.join(",") },
            natl(&pend)
        )
    }
}

fn gen_peers(rng: &mut Rng) -> Vec<String> {
    let n = match rng.below(6) {
        0 => 0,
        1 => rng.usize(11, 14),
        _ => rng.usize(1, 6),
    };
    let style = rng.below(4);
    (0..n)
        .map(|_| {
            let c = match style {
                0 => 'c',
                _ => if rng.chance(3, 4) { 'c' } else { 'd' },
            };
            let t = if rng.bool() { 't' } else { 'u' };
            let a = match style {
                1 => 'n', // no archival peer at all: the third try must wait
                2 => 'a',
                _ => if rng.chance(1, 3) { 'a' } else { 'n' },
            };
            format!("{c}{t}{a}")
        })
        .collect()
}

impl Prop for C32 {
    fn id(&self) -> &'static str {
        "C32"
    }
    fn rule(&self) -> &'static str {
        "sequences (reset-separated, 10..60 ops) against the real client handler: peer populations of 0..14 peers with \
         every connected/trusted/archival combination incl. populations without any archival peer; requests (valid and \
         invalid); scheduling rounds; per-attempt outcomes ok / not-found / invalid-response / outbound-failure for the \
         outstanding attempt, for a stale attempt and duplicated; callers dropping their receiver at any point; peers \
         connecting/disconnecting between rounds; stop, and requests after stop. Non-trivial = ops that send, answer or \
         deliver an outcome; distinct = distinct (op, result)."
    }
    fn gen_ops(&mut self, rng: &mut Rng, tier: Tier, out: &mut Emitter) {
        let seqs = if tier == Tier::Thorough { 1500 } else { 150 };
        for _ in 0..seqs {
            out.op("reset", "reset", false);
            let peers = gen_peers(rng);
            let np = peers.len();
            out.op(format!("peers p={}", if peers.is_empty() { "-".to_string() } else { peers.join(",") }), "peers", false);
            let mut nreq = 0usize;
            let len = rng.usize(10, 60);
            let persistent_failure = rng.chance(1, 3); // drive requests through all three tries
            for _ in 0..len {
                match rng.below(24).min(19) {
                    0..=3 if nreq < CHAIN as usize - 2 => {
                        let v = if rng.chance(1, 8) { 0 } else { 1 };
                        out.op(format!("req v={v}"), if v == 1 { "req" } else { "req/invalid" }, true);
                        nreq += 1;
                    }
                    4..=8 => out.op("sched", "sched", true),
                    9..=15 if nreq > 0 => {
                        let r = rng.usize(0, nreq - 1);
                        let res = if persistent_failure {
                            *rng.pick(&["nf", "ir", "of"])
                        } else {
                            *rng.pick(&["ok", "ok", "nf", "ir", "of"])
                        };
                        let att = if rng.chance(1, 8) { "old" } else { "cur" };
                        out.op(format!("out r={r} att={att} res={res}"), &format!("out/{att}/{res}"), true);
                        if rng.chance(1, 10) {
                            out.op(format!("out r={r} att={att} res={res}"), "out/duplicate", true);
                        }
                    }
                    16 if nreq > 0 => out.op(format!("close r={}", rng.usize(0, nreq - 1)), "close", true),
                    17 if np > 0 => {
                        let i = rng.usize(0, np - 1);
                        out.op(format!("{} i={i}", if rng.bool() { "conn" } else { "disc" }), "conn/disc", false);
                    }
                    18 if rng.chance(1, 4) => out.op("stop", "stop", true),
                    19 if nreq > 0 => {
                        // a focused episode: drive one request through its tries
                        let r = rng.usize(0, nreq - 1);
                        for _ in 0..rng.usize(2, 4) {
                            out.op("sched", "sched", true);
                            if rng.chance(1, 10) {
                                out.op(format!("close r={r}"), "close", true);
                            }
                            if rng.chance(1, 10) && np > 0 {
                                let i = rng.usize(0, np - 1);
                                out.op(format!("{} i={i}", if rng.bool() { "conn" } else { "disc" }), "conn/disc", false);
                            }
                            let res = if rng.chance(1, 6) { "ok" } else { *rng.pick(&["nf", "ir", "of"]) };
                            out.op(format!("out r={r} att=cur res={res}"), &format!("out/cur/{res}"), true);
                        }
                    }
                    _ => out.op("sched", "sched", true),
                }
            }
            if rng.bool() {
                out.op("stop", "stop", true);
            }
        }
    }

    fn run(&mut self, line: &str) -> String {
        match opname(line) {
            "reset" => {
                self.seq = None;
                "ok".into()
            }
            "peers" => {
                let p = arg(line, "p").unwrap_or("-");
                let flags: Vec<&str> = if p == "-" { vec![] } else { p.split(',').collect() };
                let rig = self.rt.block_on(async { ClientRig::new() });
                let mut seq = Seq { rig, peers: vec![], rxs: vec![], attempts: vec![], seen_sends: 0 };
                for (i, f) in flags.iter().enumerate() {
                    let id = PeerId::random();
                    let b = f.as_bytes();
                    let (c, t, a) = (b[0] == b'c', b[1] == b't', b[2] == b'a');
                    seq.rig.set_peer(&id, t, a);
                    if c {
                        seq.rig.connect(&id, i);
                    }
                    seq.peers.push((id, c, t, a));
                }
                self.seq = Some(seq);
                "sent=- ans=- pend=0,0,0,0 infl=0".into()
            }
            op => {
                if self.seq.is_none() {
                    return "bad-op".into();
                }
                {
                    let chain = &self.chain;
                    let seq = self.seq.as_mut().unwrap();
                    match op {
                        "conn" | "disc" => {
                            let i = arg_u64(line, "i").unwrap_or(0) as usize;
                            if i < seq.peers.len() {
                                let id = seq.peers[i].0;
                                if op == "conn" && !seq.peers[i].1 {
                                    seq.rig.connect(&id, i);
                                    seq.peers[i].1 = true;
                                } else if op == "disc" && seq.peers[i].1 {
                                    seq.rig.disconnect(&id, i);
                                    seq.peers[i].1 = false;
                                    // PeerTracker::remove_connection forgets `archival` with the last connection
                                    seq.peers[i].3 = false;
                                }
                            }
                        }
                        "req" => {
                            let v = arg_u64(line, "v").unwrap_or(1) == 1;
                            let r = seq.rxs.len() as u64;
                            let req = HeaderRequest { amount: if v { 1 } else { 0 }, data: Some(Data::Origin(r + 1)) };
                            let rx = seq.rig.send_request(req);
                            seq.rxs.push(Some(rx));
                            seq.attempts.push(vec![]);
                        }
                        "sched" => seq.rig.schedule(),
                        "out" => {
                            let r = arg_u64(line, "r").unwrap_or(0) as usize;
                            let old = arg(line, "att") == Some("old");
                            let res = arg(line, "res").unwrap_or("of");
                            if r < seq.attempts.len() {
                                let n = seq.attempts[r].len();
                                let idx = if old { n.checked_sub(2) } else { n.checked_sub(1) };
                                if let Some(idx) = idx {
                                    let (sid, peer) = seq.attempts[r][idx];
                                    let ok = |s: StatusCode, body: Vec<u8>| vec![HeaderResponse { body, status_code: s.into() }];
                                    match res {
                                        "ok" => seq.rig.response(peer, sid, ok(StatusCode::Ok, encode(&chain[r]))),
                                        "nf" => seq.rig.response(peer, sid, ok(StatusCode::NotFound, vec![])),
                                        "ir" => seq.rig.response(peer, sid, ok(StatusCode::Invalid, vec![])),
                                        _ => seq.rig.failure(peer, sid, OutboundFailure::Timeout),
                                    }
                                }
                            }
                        }
                        "close" => {
                            let r = arg_u64(line, "r").unwrap_or(0) as usize;
                            if r < seq.rxs.len() {
                                seq.rxs[r] = None;
                            }
                        }
                        "stop" => seq.rig.stop(),
                        _ => return "bad-op".into(),
                    }
                }
                self.settle()
            }
        }
    }

    fn result_tag(&self, _line: &str, result: &str) -> Option<String> {
        let s = arg(result, "sent").map(|x| x != "-").unwrap_or(false);
        let a = arg(result, "ans").map(|x| x != "-").unwrap_or(false);
        Some(match (s, a) {
            (true, true) => "sent+answered",
            (true, false) => "sent",
            (false, true) => "answered",
            _ => "quiet",
        }
        .to_string())
    }
}

fn main() {
    main_for(C32::new());
}

//! C10 — Bitswap accepts Shwap blocks only when they verify against the DAH.
//!
//! Ops:
//!   reset
//!   header rows=<roots> cols=<roots>           append a header with this DAH at the next height (1, 2, …)
//!   hash code=<u64> input=<hex> <oracle>       the real `ShwapMultihasher::hash(code, input)` over the real InMemoryStore
//!   container expected=<cid> input=<hex> <oracle>   the real `get_block_container`
//!
//! `<oracle>` = what prost made of `input` in THIS process (the model takes protobuf decoding as a parameter):
//!   blk=0 | blk=1 bcid=<hex> bcont=<hex>, then per code the raw container fields (cdec=0|1 …) and, for rows, the
//!   shards the real leopard codec returns for the call `Row::from_raw` makes (`ext=`).
#[path = "../d2_common.rs"]
mod d2_common;
#[path = "../d_common.rs"]
mod d_common;

use std::sync::Arc;

use bytes::BytesMut;
use celestia_proto::bitswap::Block;
use celestia_proto::shwap::{Row as RawRow, RowNamespaceData as RawRnd, Sample as RawSample};
use celestia_types::nmt::Namespace;
use celestia_types::row::{ROW_ID_MULTIHASH_CODE, ROW_ID_SIZE, Row, RowId};
use celestia_types::row_namespace_data::{ROW_NAMESPACE_DATA_ID_MULTIHASH_CODE, ROW_NAMESPACE_DATA_ID_SIZE, RowNamespaceDataId};
use celestia_types::sample::{SAMPLE_ID_MULTIHASH_CODE, Sample, SampleId};
const SAMPLE_ID_SIZE: usize = 12;
use celestia_types::test_utils::ExtendedHeaderGenerator;
use celestia_types::{AxisType, DataAvailabilityHeader, ExtendedDataSquare};
use cid::CidGeneric;
use d2_common::*;
use lumina_node::store::{InMemoryStore, Store};
use lumina_node::verif::p2p::shwap as hook;
use prost::Message;
use verif_harness::*;

struct C10 {
    rt: tokio::runtime::Runtime,
    store: Arc<InMemoryStore>,
    /// ONE multihasher over the store for the whole history (until `reset`), as bitswap keeps it
    hasher: hook::VerifMultihasher<InMemoryStore>,
    /// the headers stored now, by height - 1 (`None`: removed)
    headers: Vec<Option<celestia_types::ExtendedHeader>>,
    /// one generator (= one validator key) for the whole history
    generator: ExtendedHeaderGenerator,
}

fn proof_oracle(p: &Option<celestia_proto::proof::pb::Proof>) -> String {
    match p {
        None => "hasproof=0".to_string(),
        Some(p) => format!(
            "hasproof=1 start={} end={} nodes={} leaf={} ign={}",
            p.start as u64,
            p.end as u64,
            hxl(&p.nodes),
            hx(&p.leaf_hash),
            p.is_max_namespace_ignored as u8
        ),
    }
}

/// the shards leopard returns for the codec call `Row::from_raw` makes (all shards, after the call)
fn row_codec_oracle(raw: &RawRow) -> String {
    let halves: Vec<Vec<u8>> = raw.shares_half.iter().map(|s| s.data.clone()).collect();
    let k = halves.len();
    let res = std::panic::catch_unwind(|| {
        if raw.half_side == 1 {
            let mut shards: Vec<Vec<u8>> = vec![vec![]; k];
            shards.extend(halves.iter().cloned());
            leopard_codec::reconstruct(&mut shards, k).ok().map(|_| shards)
        } else {
            let mut shards = halves.clone();
            shards.resize(2 * k, vec![0u8; SHARE]);
            leopard_codec::encode(&mut shards, k).ok().map(|_| shards)
        }
    });
    match res {
        Ok(Some(shards)) => format!("ext={}", hxl(&shards)),
        _ => "ext=none".to_string(),
    }
}

/// prost's view of `input` for the given multihash code
fn oracle(code: u64, input: &[u8]) -> String {
    let Ok(block) = Block::decode(input) else {
        return "blk=0".to_string();
    };
    let mut s = format!("blk=1 bcid={} bcont={}", hx(&block.cid), hx(&block.container));
    let cont = &block.container[..];
    if code == SAMPLE_ID_MULTIHASH_CODE {
        match RawSample::decode(cont) {
            Err(_) => s.push_str(" cdec=0"),
            Ok(r) => {
                let share = r.share.as_ref().map(|sh| hx(&sh.data)).unwrap_or_else(|| "none".into());
                s.push_str(&format!(" cdec=1 axis={} share={} {}", r.proof_type, share, proof_oracle(&r.proof)));
            }
        }
    } else if code == ROW_ID_MULTIHASH_CODE {
        match RawRow::decode(cont) {
            Err(_) => s.push_str(" cdec=0"),
            Ok(r) => {
                let halves: Vec<Vec<u8>> = r.shares_half.iter().map(|x| x.data.clone()).collect();
                s.push_str(&format!(" cdec=1 side={} halves={} {}", r.half_side, hxl(&halves), row_codec_oracle(&r)));
            }
        }
    } else if code == ROW_NAMESPACE_DATA_ID_MULTIHASH_CODE {
        match RawRnd::decode(cont) {
            Err(_) => s.push_str(" cdec=0"),
            Ok(r) => {
                let shares: Vec<Vec<u8>> = r.shares.iter().map(|x| x.data.clone()).collect();
                s.push_str(&format!(" cdec=1 shares={} {}", hxl(&shares), proof_oracle(&r.proof)));
            }
        }
    }
    s
}

fn hash_line(code: u64, input: &[u8]) -> String {
    format!("hash code={code} input={} {}", hx(input), oracle(code, input))
}

fn block_bytes(cid: Vec<u8>, container: Vec<u8>) -> Vec<u8> {
    Block { cid, container }.encode_to_vec()
}

fn sample_cid(r: u16, c: u16, h: u64) -> Vec<u8> {
    let cid: CidGeneric<SAMPLE_ID_SIZE> = SampleId::new(r, c, h).unwrap().into();
    cid.to_bytes()
}
fn row_cid(i: u16, h: u64) -> Vec<u8> {
    let cid: CidGeneric<ROW_ID_SIZE> = RowId::new(i, h).unwrap().into();
    cid.to_bytes()
}
fn rnd_cid(ns: Namespace, i: u16, h: u64) -> Vec<u8> {
    let cid: CidGeneric<ROW_NAMESPACE_DATA_ID_SIZE> = RowNamespaceDataId::new(ns, i, h).unwrap().into();
    cid.to_bytes()
}

fn sample_container(eds: &ExtendedDataSquare, r: u16, c: u16, ax: AxisType) -> Vec<u8> {
    let s = Sample::new(r, c, ax, eds).unwrap();
    let mut b = BytesMut::new();
    s.encode(&mut b);
    b.to_vec()
}
fn row_container(eds: &ExtendedDataSquare, i: u16) -> Vec<u8> {
    let r = Row::new(i, eds).unwrap();
    let mut b = BytesMut::new();
    r.encode(&mut b);
    b.to_vec()
}

/// mutate a byte string: flip a bit, drop the tail, insert a byte, or replace a run
fn mutate(rng: &mut Rng, b: &[u8]) -> Vec<u8> {
    let mut v = b.to_vec();
    if v.is_empty() {
        return vec![rng.byte()];
    }
    match rng.below(5) {
        0 | 1 => {
            let i = rng.usize(0, v.len() - 1);
            v[i] ^= 1 << rng.below(8);
        }
        2 => {
            let n = rng.usize(0, v.len() - 1);
            v.truncate(n);
        }
        3 => {
            let i = rng.usize(0, v.len());
            v.insert(i, rng.byte());
        }
        _ => {
            let i = rng.usize(0, v.len() - 1);
            let n = rng.usize(1, 8).min(v.len() - i);
            for x in &mut v[i..i + n] {
                *x = rng.byte();
            }
        }
    }
    v
}

impl C10 {
    fn new() -> Self {
        let store = Arc::new(InMemoryStore::new());
        C10 {
            rt: tokio::runtime::Builder::new_current_thread().enable_all().build().unwrap(),
            hasher: hook::VerifMultihasher::new(store.clone()),
            store,
            headers: vec![],
            generator: ExtendedHeaderGenerator::new(),
        }
    }

    fn gen_round(&mut self, rng: &mut Rng, widths: &[usize], per: usize, out: &mut Emitter) {
        out.op("reset", "reset", false);
        let mut squares = vec![];
        for (i, &w) in widths.iter().enumerate() {
            let (eds, nss) = d_common::gen_eds(rng, w);
            let dah = DataAvailabilityHeader::from_eds(&eds);
            let raw_sq: Vec<Vec<u8>> = eds.data_square().iter().map(|s| s.to_vec()).collect();
            out.op(format!("header {} w={} data={}", roots_fields(&dah), w, hxl(&raw_sq)), "header", false);
            squares.push((i as u64 + 1, eds, dah, nss));
        }
        let n = squares.len() as u64;
        let known = [SAMPLE_ID_MULTIHASH_CODE, ROW_ID_MULTIHASH_CODE, ROW_NAMESPACE_DATA_ID_MULTIHASH_CODE];
        for (h, eds, dah, nss) in &squares {
            let (h, w) = (*h, eds.square_width());
            for _ in 0..per {
                // ---- samples
                let (r, c) = (rng.below(w as u64) as u16, rng.below(w as u64) as u16);
                let ax = if rng.bool() { AxisType::Row } else { AxisType::Col };
                let cont = sample_container(eds, r, c, ax);
                let good = block_bytes(sample_cid(r, c, h), cont.clone());
                out.op(hash_line(SAMPLE_ID_MULTIHASH_CODE, &good), "hash/sample-honest", true);
                // unknown height, other stored height (other DAH), height 0 is not encodable
                out.op(hash_line(SAMPLE_ID_MULTIHASH_CODE, &block_bytes(sample_cid(r, c, n + 1 + rng.below(5)), cont.clone())), "hash/sample-unknown-height", true);
                let oh = 1 + (h % n);
                out.op(hash_line(SAMPLE_ID_MULTIHASH_CODE, &block_bytes(sample_cid(r, c, oh), cont.clone())), "hash/sample-other-height", oh != h);
                // mismatched id: other coordinate of the same row/column, transposed, out of the square
                let c2 = (c + 1 + rng.below(w as u64 - 1) as u16) % w;
                out.op(hash_line(SAMPLE_ID_MULTIHASH_CODE, &block_bytes(sample_cid(r, c2, h), cont.clone())), "hash/sample-mismatched-id", true);
                out.op(hash_line(SAMPLE_ID_MULTIHASH_CODE, &block_bytes(sample_cid(c, r, h), cont.clone())), "hash/sample-transposed-id", r != c);
                out.op(hash_line(SAMPLE_ID_MULTIHASH_CODE, &block_bytes(sample_cid(r, w + c, h), cont.clone())), "hash/sample-id-outside-square", true);
                // mutated container / cid / whole block
                out.op(hash_line(SAMPLE_ID_MULTIHASH_CODE, &block_bytes(sample_cid(r, c, h), mutate(rng, &cont))), "hash/sample-mutated-container", true);
                out.op(hash_line(SAMPLE_ID_MULTIHASH_CODE, &block_bytes(mutate(rng, &sample_cid(r, c, h)), cont.clone())), "hash/sample-mutated-cid", true);
                out.op(hash_line(SAMPLE_ID_MULTIHASH_CODE, &mutate(rng, &good)), "hash/sample-mutated-block", true);
                // trailing bytes after the CID are ignored by `read_bytes`
                let mut cid_t = sample_cid(r, c, h);
                cid_t.extend_from_slice(&rng.bytes(3));
                out.op(hash_line(SAMPLE_ID_MULTIHASH_CODE, &block_bytes(cid_t, cont.clone())), "hash/sample-cid-trailing-bytes", true);
                // the same block under the other codes and under unknown codes
                out.op(hash_line(ROW_ID_MULTIHASH_CODE, &good), "hash/sample-under-row-code", true);
                out.op(hash_line(ROW_NAMESPACE_DATA_ID_MULTIHASH_CODE, &good), "hash/sample-under-rnd-code", true);
                let unk = match rng.below(4) {
                    0 => 0x12,
                    1 => *rng.pick(&known) + 1,
                    2 => *rng.pick(&known) - 1,
                    _ => rng.next_u64(),
                };
                out.op(hash_line(unk, &good), "hash/unknown-code", !known.contains(&unk));

                // ---- rows
                let i = rng.below(w as u64) as u16;
                let cont = row_container(eds, i);
                let good = block_bytes(row_cid(i, h), cont.clone());
                out.op(hash_line(ROW_ID_MULTIHASH_CODE, &good), "hash/row-honest", true);
                let i2 = (i + 1 + rng.below(w as u64 - 1) as u16) % w;
                out.op(hash_line(ROW_ID_MULTIHASH_CODE, &block_bytes(row_cid(i2, h), cont.clone())), "hash/row-mismatched-id", true);
                out.op(hash_line(ROW_ID_MULTIHASH_CODE, &block_bytes(row_cid(i, n + 2), cont.clone())), "hash/row-unknown-height", true);
                out.op(hash_line(ROW_ID_MULTIHASH_CODE, &block_bytes(row_cid(i, h), mutate(rng, &cont))), "hash/row-mutated-container", true);
                out.op(hash_line(ROW_ID_MULTIHASH_CODE, &mutate(rng, &good)), "hash/row-mutated-block", true);
                // right half on the wire
                {
                    let row = Row::new(i, eds).unwrap();
                    let mut raw = RawRow::from(row);
                    let all: Vec<Vec<u8>> = eds.row(i).unwrap().iter().map(|s| s.to_vec()).collect();
                    raw.shares_half = all[all.len() / 2..].iter().map(|d| celestia_proto::shwap::Share { data: d.clone() }).collect();
                    raw.half_side = 1;
                    out.op(hash_line(ROW_ID_MULTIHASH_CODE, &block_bytes(row_cid(i, h), raw.encode_to_vec())), "hash/row-honest-right-half", true);
                    // a share of the half replaced by one of another row
                    let j = rng.usize(0, raw.shares_half.len() - 1);
                    raw.shares_half[j].data = eds.share(i2, j as u16).unwrap().to_vec();
                    out.op(hash_line(ROW_ID_MULTIHASH_CODE, &block_bytes(row_cid(i, h), raw.encode_to_vec())), "hash/row-substituted-share", true);
                }

                // ---- namespace data of a row
                let ns = if rng.chance(3, 4) { *rng.pick(nss) } else { d_common::user_ns(rng) };
                let rows = eds.get_namespace_data(ns, dah, h).unwrap();
                if let Some((id, data)) = rows.first() {
                    let mut b = BytesMut::new();
                    data.encode(&mut b);
                    let cont = b.to_vec();
                    let ri = id.row_index();
                    let good = block_bytes(rnd_cid(ns, ri, h), cont.clone());
                    out.op(hash_line(ROW_NAMESPACE_DATA_ID_MULTIHASH_CODE, &good), "hash/rnd-honest", true);
                    let ri2 = (ri + 1) % w;
                    out.op(hash_line(ROW_NAMESPACE_DATA_ID_MULTIHASH_CODE, &block_bytes(rnd_cid(ns, ri2, h), cont.clone())), "hash/rnd-mismatched-row", true);
                    let ns2 = d_common::user_ns(rng);
                    out.op(hash_line(ROW_NAMESPACE_DATA_ID_MULTIHASH_CODE, &block_bytes(rnd_cid(ns2, ri, h), cont.clone())), "hash/rnd-mismatched-namespace", ns2 != ns);
                    out.op(hash_line(ROW_NAMESPACE_DATA_ID_MULTIHASH_CODE, &block_bytes(rnd_cid(ns, ri, n + 3), cont.clone())), "hash/rnd-unknown-height", true);
                    out.op(hash_line(ROW_NAMESPACE_DATA_ID_MULTIHASH_CODE, &block_bytes(rnd_cid(ns, ri, h), mutate(rng, &cont))), "hash/rnd-mutated-container", true);
                    // a share dropped (incomplete namespace)
                    if let Ok(mut raw) = RawRnd::decode(&cont[..]) {
                        if raw.shares.len() > 1 {
                            raw.shares.pop();
                            out.op(hash_line(ROW_NAMESPACE_DATA_ID_MULTIHASH_CODE, &block_bytes(rnd_cid(ns, ri, h), raw.encode_to_vec())), "hash/rnd-share-dropped", true);
                        }
                    }
                    out.op(hash_line(SAMPLE_ID_MULTIHASH_CODE, &good), "hash/rnd-under-sample-code", true);
                }

                // ---- adversarial but WELL-PROVEN row-namespace-data: a proper contiguous sub-range of the namespace's shares
                // of a row, with a freshly built, valid NMT range proof for exactly the kept shares (first dropped, last
                // dropped, a middle part only): every proof check passes except completeness of the namespace
                {
                    let k = (w / 2) as usize;
                    // the longest run of one namespace inside a row of the original data
                    let mut best: Option<(u16, usize, usize)> = None;
                    for r in 0..k {
                        let mut c = 0;
                        while c < k {
                            let ns_c = eds.share(r as u16, c as u16).unwrap().namespace();
                            let mut e = c + 1;
                            while e < k && eds.share(r as u16, e as u16).unwrap().namespace() == ns_c {
                                e += 1;
                            }
                            if e - c >= 2 && best.map(|(_, s0, e0)| e - c > e0 - s0).unwrap_or(true) {
                                best = Some((r as u16, c, e));
                            }
                            c = e;
                        }
                    }
                    if let Some((r, s0, e0)) = best {
                        let ns = eds.share(r, s0 as u16).unwrap().namespace();
                        let mut ranges = vec![(s0 + 1, e0, "hash/rnd-subrange-first-dropped"), (s0, e0 - 1, "hash/rnd-subrange-last-dropped")];
                        if e0 - s0 >= 3 {
                            ranges.push((s0 + 1, e0 - 1, "hash/rnd-subrange-middle-only"));
                        }
                        ranges.push((s0, s0 + 1, "hash/rnd-subrange-single-share"));
                        for (a, b, tag) in ranges {
                            let mut nmt = eds.row_nmt(r).unwrap();
                            let (leaves, proof) = nmt.get_range_with_proof(a..b);
                            let proof: celestia_types::nmt::NamespaceProof = proof.into();
                            let raw = RawRnd {
                                shares: leaves.into_iter().map(|data| celestia_proto::shwap::Share { data }).collect(),
                                proof: Some(proof.into()),
                            };
                            let blk = block_bytes(rnd_cid(ns, r, h), raw.encode_to_vec());
                            out.op(hash_line(ROW_NAMESPACE_DATA_ID_MULTIHASH_CODE, &blk), tag, true);
                        }
                        // control: the full range with the same kind of proof is the honest block
                        let mut nmt = eds.row_nmt(r).unwrap();
                        let (leaves, proof) = nmt.get_range_with_proof(s0..e0);
                        let proof: celestia_types::nmt::NamespaceProof = proof.into();
                        let raw = RawRnd {
                            shares: leaves.into_iter().map(|data| celestia_proto::shwap::Share { data }).collect(),
                            proof: Some(proof.into()),
                        };
                        out.op(hash_line(ROW_NAMESPACE_DATA_ID_MULTIHASH_CODE, &block_bytes(rnd_cid(ns, r, h), raw.encode_to_vec())), "hash/rnd-full-range-proof", true);
                    }
                }

                // ---- get_block_container
                let cid = sample_cid(r, c, h);
                let nb = rng.usize(0, 40);
                let blk = block_bytes(cid.clone(), rng.bytes(nb));
                out.op(format!("container expected={} input={} {}", hx(&cid), hx(&blk), oracle(0, &blk)), "container/same-cid", true);
                let other = sample_cid(r, c2, h);
                out.op(format!("container expected={} input={} {}", hx(&other), hx(&blk), oracle(0, &blk)), "container/other-cid", true);
                let m = mutate(rng, &blk);
                out.op(format!("container expected={} input={} {}", hx(&cid), hx(&m), oracle(0, &m)), "container/mutated-block", true);
            }
        }
        // ---- histories on the SAME multihasher: the header at the top height is removed / replaced between two blocks of
        // that height; the verdict must follow the header stored NOW
        {
            let (h, eds_a, _, _) = squares.last().unwrap();
            let (h, w) = (*h, eds_a.square_width());
            for interleave in [false, true] {
                let (r, c) = (rng.below(w as u64) as u16, rng.below(w as u64) as u16);
                let blk_a = block_bytes(sample_cid(r, c, h), sample_container(eds_a, r, c, AxisType::Row));
                let row_a = block_bytes(row_cid(r, h), row_container(eds_a, r));
                let other = block_bytes(sample_cid(0, 0, 1), sample_container(&squares[0].1, 0, 0, AxisType::Col));
                out.op(hash_line(SAMPLE_ID_MULTIHASH_CODE, &blk_a), "history/block-at-top-height", true);
                out.op(format!("unstore h={h}"), "history/unstore", true);
                if interleave && h != 1 {
                    out.op(hash_line(SAMPLE_ID_MULTIHASH_CODE, &other), "history/other-height-in-between", true);
                }
                out.op(hash_line(SAMPLE_ID_MULTIHASH_CODE, &blk_a), "history/same-block-after-unstore", true);
                out.op(hash_line(ROW_ID_MULTIHASH_CODE, &row_a), "history/row-block-after-unstore", true);
                // another square's header at the same height
                let (eds_b, _) = d_common::gen_eds(rng, w as usize);
                let dah_b = DataAvailabilityHeader::from_eds(&eds_b);
                let raw_b: Vec<Vec<u8>> = eds_b.data_square().iter().map(|s| s.to_vec()).collect();
                out.op(format!("header at={h} {} w={} data={}", roots_fields(&dah_b), w, hxl(&raw_b)), "history/restore-other-header", true);
                out.op(hash_line(SAMPLE_ID_MULTIHASH_CODE, &blk_a), "history/old-block-after-replace", true);
                let blk_b = block_bytes(sample_cid(r, c, h), sample_container(&eds_b, r, c, AxisType::Col));
                out.op(hash_line(SAMPLE_ID_MULTIHASH_CODE, &blk_b), "history/new-block-after-replace", true);
                out.op(hash_line(ROW_ID_MULTIHASH_CODE, &row_a), "history/old-row-after-replace", true);
                // put the original header back for the second pass
                out.op(format!("unstore h={h}"), "history/unstore", true);
                let raw_a: Vec<Vec<u8>> = eds_a.data_square().iter().map(|s| s.to_vec()).collect();
                let dah_a = DataAvailabilityHeader::from_eds(eds_a);
                out.op(format!("header at={h} {} w={} data={}", roots_fields(&dah_a), w, hxl(&raw_a)), "history/restore-original-header", true);
                out.op(hash_line(SAMPLE_ID_MULTIHASH_CODE, &blk_b), "history/replaced-block-after-restore", true);
            }
        }
        // random bytes as a block
        for _ in 0..per {
            let nb = rng.usize(0, 60);
            let b = rng.bytes(nb);
            out.op(hash_line(*rng.pick(&known), &b), "hash/random-bytes", false);
        }
    }
}

impl Prop for C10 {
    fn id(&self) -> &'static str {
        "C10"
    }
    fn rule(&self) -> &'static str {
        "stores of 2-4 headers whose DAHs come from real squares (widths 2..16); for each: honest sample (both axes) / row (left and \
         right half) / row-namespace-data (present and absent namespaces) blocks built with the repository's own types, then the \
         same container under an unknown height, another stored height, a mismatched / transposed / out-of-square id, a mutated \
         container, a mutated CID, a mutated block, a CID with trailing bytes, the other two multihash codes and unknown codes \
         (0x12, known±1, random); substituted / dropped shares; get_block_container with equal, different and mutated CIDs. \
         Every line carries prost's decoding of the input and leopard's output as oracle. Non-trivial = all but random byte \
         blobs; distinct = distinct (op, result) lines."
    }
    fn gen_ops(&mut self, rng: &mut Rng, tier: Tier, out: &mut Emitter) {
        if tier == Tier::Thorough {
            for _ in 0..6 {
                self.gen_round(rng, &[2, 4, 8, 4], 6, out);
                self.gen_round(rng, &[16, 2, 8], 3, out);
            }
            self.gen_round(rng, &[32, 4], 2, out);
        } else {
            self.gen_round(rng, &[2, 4, 8], 3, out);
            self.gen_round(rng, &[4, 16], 2, out);
        }
    }
    fn run(&mut self, line: &str) -> String {
        match opname(line) {
            "reset" => {
                self.store = Arc::new(InMemoryStore::new());
                self.hasher = hook::VerifMultihasher::new(self.store.clone());
                self.headers = vec![];
                self.generator = ExtendedHeaderGenerator::new();
                "ok".into()
            }
            "header" => {
                let Some(dah) = dah_from_line(line) else { return "bad-op".into() };
                // the square on the line is the spec's ground truth: it must be the square this DAH commits to
                // (recomputed on every run, also for corpus / replay lines)
                let Some(data) = arg(line, "data").and_then(unhxl) else { return "bad-op".into() };
                match ExtendedDataSquare::new(data, "Leopard".to_string(), d_common::app()) {
                    Ok(eds) if DataAvailabilityHeader::from_eds(&eds) == dah => {}
                    _ => return "stale-square-on-line".into(),
                }
                // `at=N`: (re)store at height N — the next height, or the top height after it was removed
                let n = self.headers.len() as u64;
                let at = arg_u64(line, "at").unwrap_or(n + 1);
                let replacing = at == n && n >= 1 && self.headers[(n - 1) as usize].is_none();
                if !(at == n + 1 || replacing) {
                    return "bad-op".into();
                }
                let header = if at == 1 {
                    if replacing {
                        return "bad-op".into();
                    }
                    self.generator.next_with_dah(dah)
                } else {
                    let Some(prev) = &self.headers[(at - 2) as usize] else { return "bad-op".into() };
                    self.generator.next_of_with_dah(prev, dah)
                };
                let h = header.height();
                let store = self.store.clone();
                let hdr = header.clone();
                match self.rt.block_on(async move { store.insert(hdr).await }) {
                    Ok(()) => {
                        if replacing {
                            self.headers[(at - 1) as usize] = Some(header);
                        } else {
                            self.headers.push(Some(header));
                        }
                        format!("ok h={h}")
                    }
                    Err(e) => format!("err {e}"),
                }
            }
            "unstore" => {
                let Some(h) = arg_u64(line, "h") else { return "bad-op".into() };
                let store = self.store.clone();
                match self.rt.block_on(async move { store.remove_height(h).await }) {
                    Ok(()) => {
                        if let Some(slot) = self.headers.get_mut((h as usize).wrapping_sub(1)) {
                            *slot = None;
                        }
                        "ok".into()
                    }
                    Err(_) => "err".into(),
                }
            }
            "hash" => {
                let (Some(code), Some(input)) = (arg_u64(line, "code"), arg_hex(line, "input")) else {
                    return "bad-op".into();
                };
                let hasher = &self.hasher;
                match self.rt.block_on(async { hasher.hash(code, &input).await }) {
                    Ok(mh) => format!("ok {}", hx(&mh)),
                    Err((class, _msg)) => format!("err {class}"),
                }
            }
            "container" => {
                let (Some(exp), Some(input)) = (arg_hex(line, "expected"), arg_hex(line, "input")) else {
                    return "bad-op".into();
                };
                let Ok(cid) = cid::Cid::read_bytes(&exp[..]) else { return "bad-op".into() };
                match hook::block_container(&cid, &input) {
                    Ok(c) => format!("ok {}", hx(&c)),
                    Err(_) => "err".into(),
                }
            }
            _ => "bad-op".into(),
        }
    }
    fn result_tag(&self, line: &str, result: &str) -> Option<String> {
        let mut w = result.split(' ');
        let first = w.next().unwrap_or("");
        let kind = if first == "err" { format!("err {}", w.next().unwrap_or("")) } else { first.to_string() };
        let code = arg(line, "code").and_then(|c| c.parse::<u64>().ok());
        let which = match code {
            Some(c) if c == SAMPLE_ID_MULTIHASH_CODE => "sample:",
            Some(c) if c == ROW_ID_MULTIHASH_CODE => "row:",
            Some(c) if c == ROW_NAMESPACE_DATA_ID_MULTIHASH_CODE => "rnd:",
            Some(_) => "other:",
            None => "",
        };
        Some(format!("{which}{kind}"))
    }
}

fn main() {
    main_for(C10::new());
}

//! C46 — Public data types round-trip through their wire and JSON forms.
//!
//! Every op names a type and gives the fields of its RAW structure (or, for the value-level ops, of the
//! value).  `run` converts raw -> value with the real `TryFrom`, converts back with the real `From`
//! (printed canonically, compared with the model's conversion layer), and round-trips the value through
//! protobuf bytes and through JSON with the real encoders/decoders: `pb=same|diff|err|-`, `json=…`.
#[path = "../d_common.rs"]
mod d_common;
#[path = "../consensus_e.rs"]
mod consensus_e;

use celestia_proto::celestia::core::v1::da::DataAvailabilityHeader as RawDah;
use celestia_proto::celestia::core::v1::proof::{NmtProof as RawNmtProof, RowProof as RawRowProof, ShareProof as RawShareProof};
use celestia_proto::proof::pb::Proof as RawProof;
use celestia_proto::share::eds::byzantine::pb::{BadEncoding as RawBefp, Share as RawBefpShare};
use base64::prelude::*;
use celestia_types::fraud_proof::{BadEncodingFraudProof, Proof as FraudProofEnum};
use celestia_types::nmt::{NS_SIZE, Namespace, NamespaceProof};
use celestia_types::{AxisType, Blob, DataAvailabilityHeader, ExtendedHeader, MerkleProof, RawShare, RowProof, Share, ShareProof};
use d_common::*;
use lumina_node::block_ranges::BlockRanges;
use prost::Message;
use serde::{Serialize, de::DeserializeOwned};
use tendermint_proto::Protobuf;
use celestia_proto::celestia::core::v1::proof::Proof as RawMerkleProof;
use verif_harness::*;

struct C46;

fn flag(same: Option<bool>) -> &'static str {
    match same {
        Some(true) => "same",
        Some(false) => "diff",
        None => "err",
    }
}

/// value -> JSON -> value
fn json_rt<T: Serialize + DeserializeOwned + PartialEq>(v: &T) -> &'static str {
    match serde_json::to_string(v) {
        Err(_) => "err",
        Ok(s) => flag(serde_json::from_str::<T>(&s).ok().map(|d| &d == v)),
    }
}

/// value -> protobuf bytes -> value through `tendermint_proto::Protobuf`
fn pb_rt<R: Message + Default + From<T>, T: Protobuf<R> + PartialEq + Clone>(v: &T) -> &'static str
where
    T: TryFrom<R>,
    <T as TryFrom<R>>::Error: std::fmt::Display,
{
    let bytes = v.clone().encode_vec();
    flag(T::decode_vec(&bytes).ok().map(|d| &d == v))
}

// ---- line formats --------------------------------------------------------------------------------

fn i32s(v: i32) -> String {
    v.to_string()
}

fn merkle_word(p: &RawMerkleProof) -> String {
    format!("mp={}/{}/{}/{}", p.index, p.total, hx(&p.leaf_hash), hxl(&p.aunts))
}
fn merkle_unword(w: &str) -> Option<RawMerkleProof> {
    let f: Vec<&str> = w.split('/').collect();
    if f.len() != 4 {
        return None;
    }
    Some(RawMerkleProof { index: f[0].parse().ok()?, total: f[1].parse().ok()?, leaf_hash: unhx(f[2])?, aunts: unhxl(f[3])? })
}
fn nmt_word(p: &RawNmtProof) -> String {
    format!("sp={}/{}/{}/{}", i32s(p.start), i32s(p.end), hxl(&p.nodes), hx(&p.leaf_hash))
}
fn nmt_unword(w: &str) -> Option<RawNmtProof> {
    let f: Vec<&str> = w.split('/').collect();
    if f.len() != 4 {
        return None;
    }
    Some(RawNmtProof { start: f[0].parse().ok()?, end: f[1].parse().ok()?, nodes: unhxl(f[2])?, leaf_hash: unhx(f[3])? })
}
fn all_args<'a>(line: &'a str, key: &str) -> Vec<&'a str> {
    line.split(' ')
        .filter_map(|w| {
            let (k, v) = w.split_once('=')?;
            (k == key).then_some(v)
        })
        .collect()
}
fn raw_proof_fields(p: &RawProof) -> String {
    format!("start={} end={} nodes={} leaf={} ign={}", p.start as u64, p.end as u64, hxl(&p.nodes), hx(&p.leaf_hash), p.is_max_namespace_ignored as u8)
}
fn raw_proof_slash(p: &Option<RawProof>) -> String {
    match p {
        None => "0/0/0/-/-/0".into(),
        Some(p) => format!("1/{}/{}/{}/{}/{}", p.start as u64, p.end as u64, hxl(&p.nodes), hx(&p.leaf_hash), p.is_max_namespace_ignored as u8),
    }
}
fn raw_proof_unslash(f: &[&str]) -> Option<Option<RawProof>> {
    if f.len() != 6 {
        return None;
    }
    if f[0] == "0" {
        return Some(None);
    }
    Some(Some(RawProof {
        start: f[1].parse::<u64>().ok()? as i64,
        end: f[2].parse::<u64>().ok()? as i64,
        nodes: unhxl(f[3])?,
        leaf_hash: unhx(f[4])?,
        is_max_namespace_ignored: f[5] == "1",
    }))
}
fn befp_word(s: &RawBefpShare) -> String {
    format!("sh={}/{}/{}", hx(&s.data), raw_proof_slash(&s.proof), s.proof_axis as u32)
}
fn befp_unword(w: &str) -> Option<RawBefpShare> {
    let f: Vec<&str> = w.split('/').collect();
    if f.len() != 8 {
        return None;
    }
    Some(RawBefpShare { data: unhx(f[0])?, proof: raw_proof_unslash(&f[1..7])?, proof_axis: f[7].parse::<u32>().ok()? as i32 })
}
fn rowproof_fields(p: &RawRowProof) -> String {
    let mut l = format!("roots={} start={} end={} root={}", hxl(&p.row_roots), p.start_row, p.end_row, hx(&p.root));
    for m in &p.proofs {
        l.push(' ');
        l.push_str(&merkle_word(m));
    }
    l
}
fn rowproof_from(line: &str) -> Option<RawRowProof> {
    Some(RawRowProof {
        row_roots: unhxl(arg(line, "roots")?)?,
        proofs: all_args(line, "mp").into_iter().map(merkle_unword).collect::<Option<Vec<_>>>()?,
        root: arg_hex(line, "root")?,
        start_row: arg_u64(line, "start")? as u32,
        end_row: arg_u64(line, "end")? as u32,
    })
}
fn shareproof_fields(p: &RawShareProof) -> String {
    let mut l = format!("data={} nsid={} nsver={}", hxl(&p.data), hx(&p.namespace_id), p.namespace_version);
    for s in &p.share_proofs {
        l.push(' ');
        l.push_str(&nmt_word(s));
    }
    match &p.row_proof {
        Some(r) => {
            l.push_str(" hasrp=1 ");
            l.push_str(&rowproof_fields(r));
        }
        None => l.push_str(" hasrp=0"),
    }
    l
}
fn befp_fields(p: &RawBefp) -> String {
    let mut l = format!("hash={} height={} index={} axis={}", hx(&p.header_hash), p.height, p.index, p.axis as u32);
    for s in &p.shares {
        l.push(' ');
        l.push_str(&befp_word(s));
    }
    l
}

// raw field lines built from the VALUES' public accessors / fields, not through the `From<T> for RawT`
// conversions under test (a broken conversion must not be able to hide by corrupting the generated input)
fn merkle_word_of(m: &MerkleProof) -> String {
    let aunts: Vec<Vec<u8>> = m.aunts.iter().map(|h| h.to_vec()).collect();
    format!("mp={}/{}/{}/{}", m.index, m.total, hx(&m.leaf_hash[..]), hxl(&aunts))
}
fn rowproof_fields_of(p: &RowProof, start: u16, end: u16) -> String {
    let roots: Vec<Vec<u8>> = p.row_roots().iter().map(nh).collect();
    let mut l = format!("roots={} start={start} end={end} root=-", hxl(&roots));
    for m in p.proofs() {
        l.push(' ');
        l.push_str(&merkle_word_of(m));
    }
    l
}
fn nmt_word_of(p: &NamespaceProof) -> String {
    let nodes: Vec<Vec<u8>> = p.siblings().iter().map(nh).collect();
    format!("sp={}/{}/{}/{}", p.start_idx() as i32, p.end_idx() as i32, hxl(&nodes), p.leaf().map(|l| hx(&nh(l))).unwrap_or_else(|| "-".into()))
}

fn set(line: &str, key: &str, val: &str) -> String {
    line.split(' ')
        .map(|w| match w.split_once('=') {
            Some((k, _)) if k == key => format!("{key}={val}"),
            _ => w.to_string(),
        })
        .collect::<Vec<_>>()
        .join(" ")
}

// ---- strengthening round: Blob / ExtendedHeader conversion layers ---------------------------------

type RawEh = celestia_proto::header::pb::ExtendedHeader;

fn raw_blob_fields(r: &celestia_types::blob::RawBlob) -> String {
    format!("nsid={};nsver={};data={};sv={};signer={}", hx(&r.namespace_id), r.namespace_version, hx(&r.data), r.share_version, hx(&r.signer))
}

fn blob_err_kind(e: &celestia_types::Error) -> &'static str {
    use celestia_types::Error as E;
    match e {
        E::UnsupportedNamespaceVersion(_) | E::InvalidNamespaceSize | E::InvalidNamespaceV0 | E::InvalidNamespaceV255 => "ns",
        E::UnsupportedShareVersion(_) => "share-version",
        E::SignerNotSupported => "signer-not-supported",
        E::MissingSigner => "missing-signer",
        _ => "other",
    }
}

/// value -> RawBlob -> protobuf bytes -> RawBlob -> Blob::from_raw
fn blob_pb(b: &Blob, app: celestia_types::AppVersion) -> &'static str {
    let bytes = celestia_types::blob::RawBlob::from(b.clone()).encode_to_vec();
    flag(celestia_types::blob::RawBlob::decode(&bytes[..]).ok().and_then(|r| Blob::from_raw(r, app).ok()).map(|x| &x == b))
}

/// oracle of an `ehraw` line: what the THIRD-PARTY conversions say about each message
/// (`ok` / `err` / `none` = message absent), the raw DAH in full, and — when all four convert —
/// whether the assembled header passes `ExtendedHeader::validate`
fn ehraw_oracle(r: &RawEh) -> String {
    let st = |present: bool, ok: bool| if !present { "none" } else if ok { "ok" } else { "err" };
    let h = r.header.clone().map(tendermint::block::Header::try_from);
    let c = r.commit.clone().map(tendermint::block::Commit::try_from);
    let v = r.validator_set.clone().map(tendermint::validator::Set::try_from);
    let d = r.dah.clone().map(DataAvailabilityHeader::try_from);
    let valid = match (&h, &c, &v, &d) {
        (Some(Ok(h)), Some(Ok(c)), Some(Ok(v)), Some(Ok(d))) => {
            let eh = ExtendedHeader { header: h.clone(), commit: c.clone(), validator_set: v.clone(), dah: d.clone() };
            if eh.validate().is_ok() { "1" } else { "0" }
        }
        _ => "0",
    };
    let dah = match &r.dah {
        None => "d=none".to_string(),
        Some(d) => format!("d=some rows={} cols={}", hxl(&d.row_roots), hxl(&d.column_roots)),
    };
    format!(
        "h={} c={} v={} {dah} valid={valid}",
        st(h.is_some(), matches!(h, Some(Ok(_)))),
        st(c.is_some(), matches!(c, Some(Ok(_)))),
        st(v.is_some(), matches!(v, Some(Ok(_))))
    )
}

fn ehraw_line(r: &RawEh) -> String {
    format!("ehraw bytes={} {}", hx(&r.encode_to_vec()), ehraw_oracle(r))
}

fn b64_arg(s: &str) -> String {
    if s == "-" { String::new() } else { s.to_string() }
}

impl C46 {
    fn gen_square(&mut self, rng: &mut Rng, w: usize, per: usize, out: &mut Emitter) {
        let (eds, nss) = gen_eds(rng, w);
        let dah = DataAvailabilityHeader::from_eds(&eds);
        let w16 = w as u16;
        // DAH
        let rd = RawDah { row_roots: dah.row_roots().iter().map(nh).collect(), column_roots: dah.column_roots().iter().map(nh).collect() };
        let dl = format!("dah rows={} cols={}", hxl(&rd.row_roots), hxl(&rd.column_roots));
        out.op(dl.clone(), "dah/honest", true);
        let mut bad = rd.row_roots.clone();
        bad[0].pop();
        out.op(format!("dah rows={} cols={}", hxl(&bad), hxl(&rd.column_roots)), "dah/short-root", true);
        out.op(format!("dah rows={} cols=-", hxl(&rd.row_roots)), "dah/no-cols", true);

        for _ in 0..per {
            let r = rng.below(w as u64) as u16;
            let c = rng.below(w as u64) as u16;
            // shares (value level: data + parity flag)
            let sh = eds.share(r, c).unwrap();
            out.op(format!("share data={} parity={}", hx(sh.as_ref()), sh.is_parity() as u8), if sh.is_parity() { "share/parity" } else { "share/data" }, true);
            // namespace proofs (value level)
            let mut nmt = if rng.bool() { eds.row_nmt(r).unwrap() } else { eds.column_nmt(c).unwrap() };
            let a = rng.below(w as u64) as usize;
            let b = rng.range(a as u64 + 1, w as u64) as usize;
            let proof: NamespaceProof = NmtNamespaceProof::PresenceProof { proof: nmt.build_range_proof(a..b), ignore_max_ns: true }.into();
            let pl = format!("nsproof {} absent=0", proof_fields(&proof));
            out.op(pl.clone(), "nsproof/presence", true);
            out.op(set(&pl, "ign", "0"), "nsproof/presence-ign-false", true);
            out.op(pl.replacen("nsproof", "nmtproof", 1), "nmtproof/presence", true);
            out.op(set(&pl, "ign", "0").replacen("nsproof", "nmtproof", 1), "nmtproof/ign-false", true);
            // absence proofs from the real tree
            let ns = if rng.bool() { user_ns(rng) } else { *rng.pick(&nss) };
            let np: NamespaceProof = nmt.get_namespace_proof(*ns).into();
            let tag = if np.is_of_absence() { if np.leaf().is_some() { "absence-with-leaf" } else { "absence-without-leaf" } } else { "namespace" };
            let absent = if np.is_of_absence() { if np.leaf().is_some() { 1 } else { 2 } } else { 0 };
            out.op(format!("nsproof {} absent={absent}", proof_fields(&np)), &format!("nsproof/{tag}"), true);
            out.op(format!("nmtproof {} absent={absent}", proof_fields(&np)), &format!("nmtproof/{tag}"), true);
        }
        // absence without leaf: always at least one
        let mut nmt = eds.row_nmt(w16 - 1).unwrap();
        let np: NamespaceProof = nmt.get_namespace_proof(*Namespace::TRANSACTION).into();
        let absent = if np.is_of_absence() { if np.leaf().is_some() { 1 } else { 2 } } else { 0 };
        out.op(format!("nsproof {} absent={absent}", proof_fields(&np)), "nsproof/parity-row-foreign-namespace", true);
        // extreme indices
        out.op("nsproof start=4294967295 end=4294967295 nodes=- ign=1 leaf=- absent=0".to_string(), "nsproof/u32-max", true);
        out.op("nmtproof start=4294967295 end=2147483648 nodes=- ign=1 leaf=- absent=0".to_string(), "nmtproof/u32-high-bit", true);

        // row proofs and share proofs (raw level)
        for _ in 0..per.div_ceil(2) {
            let a = rng.below(w as u64) as u16;
            let b = rng.range(a as u64, (a as u64 + 3).min(w as u64 - 1)) as u16;
            let rp = dah.row_proof(a..=b).unwrap();
            let l = format!("rowproof {}", rowproof_fields_of(&rp, a, b));
            out.op(l.clone(), "rowproof/honest", true);
            out.op(set(&l, "root", &hx(&rng.bytes(32))), "rowproof/root-field-set", true);
            out.op(set(&l, "start", "65536"), "rowproof/start-exceeds-u16", true);
            out.op(set(&l, "end", "4294967295"), "rowproof/end-u32-max", true);
            for m in rp.proofs().iter().take(2) {
                out.op(format!("merkle {}", merkle_word_of(m)), "merkle/honest", true);
                let m = &merkle_unword(&merkle_word_of(m)[3..]).unwrap();
                let mut n = m.clone();
                n.index = -1;
                out.op(format!("merkle {}", merkle_word(&n)), "merkle/negative-index", true);
                let mut n = m.clone();
                n.total = 0;
                out.op(format!("merkle {}", merkle_word(&n)), "merkle/zero-total", true);
                let mut n = m.clone();
                n.total = i64::MAX;
                n.index = i64::MAX - 1;
                out.op(format!("merkle {}", merkle_word(&n)), "merkle/i64-max", true);
                let mut n = m.clone();
                n.leaf_hash.pop();
                out.op(format!("merkle {}", merkle_word(&n)), "merkle/short-leaf-hash", true);
                let mut n = m.clone();
                if let Some(x) = n.aunts.first_mut() {
                    x.push(0);
                }
                out.op(format!("merkle {}", merkle_word(&n)), "merkle/long-aunt", true);
            }
            // share proof for one namespace inside one row of the ODS
            let row = rng.below(w as u64 / 2) as u16;
            let shares = eds.row(row).unwrap();
            let ns = shares[rng.below(w as u64 / 2) as usize].namespace();
            let idx: Vec<usize> = (0..w).filter(|i| shares[*i].namespace() == ns && !shares[*i].is_parity()).collect();
            let (s0, e0) = (idx[0], idx[idx.len() - 1] + 1);
            let mut nmt = eds.row_nmt(row).unwrap();
            let np: NamespaceProof = NmtNamespaceProof::PresenceProof { proof: nmt.build_range_proof(s0..e0), ignore_max_ns: true }.into();
            let sp = ShareProof {
                data: shares[s0..e0].iter().map(|s| s.as_ref().try_into().unwrap()).collect(),
                namespace_id: ns,
                share_proofs: vec![np],
                row_proof: dah.row_proof(row..=row).unwrap(),
            };
            let l = {
                let data: Vec<Vec<u8>> = sp.data.iter().map(|d| d.to_vec()).collect();
                let mut l = format!("shareproof data={} nsid={} nsver={}", hxl(&data), hx(sp.namespace_id.id()), sp.namespace_id.version());
                for q in &sp.share_proofs {
                    l.push(' ');
                    l.push_str(&nmt_word_of(q));
                }
                l.push_str(" hasrp=1 ");
                l.push_str(&rowproof_fields_of(&sp.row_proof, row, row));
                l
            };
            let raw = RawShareProof::from(sp);
            out.op(l.clone(), "shareproof/honest", true);
            out.op(set(&l, "nsver", "256"), "shareproof/ns-version-256", true);
            out.op(set(&l, "nsver", "1"), "shareproof/ns-version-1", true);
            out.op(set(&l, "hasrp", "0"), "shareproof/no-row-proof", true);
            let mut r2 = raw.clone();
            r2.data[0].pop();
            out.op(format!("shareproof {}", shareproof_fields(&r2)), "shareproof/short-share", true);
            let mut r2 = raw.clone();
            r2.namespace_id.pop();
            out.op(format!("shareproof {}", shareproof_fields(&r2)), "shareproof/short-ns-id", true);
        }

        // bad encoding fraud proofs (raw level; built like the repository's test util, deterministic)
        for _ in 0..per.div_ceil(3) {
            let axis = if rng.bool() { AxisType::Row } else { AxisType::Col };
            let aidx = rng.below(w as u64) as u16;
            let mut shares: Vec<RawBefpShare> = vec![];
            for i in 0..w16 {
                if rng.chance(1, 4) {
                    shares.push(RawBefpShare::default());
                    continue;
                }
                let paxis = if rng.bool() { AxisType::Row } else { AxisType::Col };
                let (mut nmt, idx) = match (axis, paxis) {
                    (AxisType::Row, AxisType::Row) => (eds.row_nmt(aidx).unwrap(), i),
                    (AxisType::Row, AxisType::Col) => (eds.column_nmt(i).unwrap(), aidx),
                    (AxisType::Col, AxisType::Row) => (eds.row_nmt(i).unwrap(), aidx),
                    (AxisType::Col, AxisType::Col) => (eds.column_nmt(aidx).unwrap(), i),
                };
                let (share, proof) = nmt.get_index_with_proof(idx as usize);
                let ns = if aidx < w16 / 2 && i < w16 / 2 { Namespace::from_raw(&share[..NS_SIZE]).unwrap() } else { Namespace::PARITY_SHARE };
                let proof: NamespaceProof = NmtNamespaceProof::PresenceProof { proof, ignore_max_ns: true }.into();
                let mut data = ns.as_bytes().to_vec();
                data.extend_from_slice(&share);
                shares.push(RawBefpShare { data, proof: Some(proof.into()), proof_axis: paxis as i32 });
            }
            let raw = RawBefp { header_hash: rng.bytes(32), height: rng.range(1, 1 << 40), shares, index: aidx as u32, axis: axis as i32 };
            let l = format!("befp {}", befp_fields(&raw));
            out.op(l.clone(), "befp/honest", true);
            out.op(set(&l, "hash", "-"), "befp/no-header-hash", true);
            out.op(set(&l, "hash", &hx(&rng.bytes(20))), "befp/hash-20-bytes", true);
            out.op(set(&l, "height", &u64::MAX.to_string()), "befp/height-u64-max", true);
            out.op(set(&l, "index", "65536"), "befp/index-65536", true);
            out.op(set(&l, "axis", "2"), "befp/bad-axis", true);
            // the JSON form of fraud proofs, raw level: { proof_type, data = base64(protobuf) }
            let fl = l.replacen("befp ", "fraudjson type=badencoding ", 1);
            out.op(fl.clone(), "fraudjson/honest", true);
            for t in ["BadEncoding", "badencodingx", "-", "bad"] {
                out.op(set(&fl, "type", t), "fraudjson/unknown-type", true);
            }
            out.op(set(&fl, "index", "65536"), "fraudjson/bad-payload", true);
            // a second, all-shares-present proof and one with only the parity half present
            let mut full = raw.clone();
            full.shares = raw.shares.iter().map(|s| if s.proof.is_some() { s.clone() } else { raw.shares.iter().find(|x| x.proof.is_some()).cloned().unwrap_or_default() }).collect();
            out.op(format!("befp {}", befp_fields(&full)), "befp/honest-all-present", true);
            let mut half = full.clone();
            for s in half.shares.iter_mut().take(w / 2) {
                *s = RawBefpShare::default();
            }
            half.header_hash = vec![];
            out.op(format!("befp {}", befp_fields(&half)), "befp/honest-parity-half-no-hash", true);
        }
    }

    fn gen_misc(&mut self, rng: &mut Rng, n: usize, out: &mut Emitter) {
        // namespaces
        for _ in 0..n {
            let ns = user_ns(rng);
            out.op(format!("ns bytes={}", hx(ns.as_bytes())), "ns/user", true);
        }
        for ns in [Namespace::TRANSACTION, Namespace::PAY_FOR_BLOB, Namespace::TAIL_PADDING, Namespace::PARITY_SHARE, Namespace::PRIMARY_RESERVED_PADDING] {
            out.op(format!("ns bytes={}", hx(ns.as_bytes())), "ns/reserved", true);
        }
        out.op(format!("ns bytes={}", hx(&[7u8; 29])), "ns/invalid", true);
        // block ranges
        for _ in 0..n {
            let mut v: Vec<(u64, u64)> = vec![];
            let mut cur = rng.range(1, 50);
            for _ in 0..rng.usize(0, 6) {
                let len = rng.range(0, 40);
                v.push((cur, cur + len));
                cur += len + rng.range(2, 30);
            }
            let s = if v.is_empty() { "-".to_string() } else { v.iter().map(|(a, b)| format!("{a}-{b}")).collect::<Vec<_>>().join(",") };
            out.op(format!("ranges v={s}"), "ranges/valid", true);
        }
        out.op(format!("ranges v=1-{}", u64::MAX), "ranges/full", true);
        out.op(format!("ranges v={}-{}", u64::MAX, u64::MAX), "ranges/last-height", true);
        out.op("ranges v=1-2,3-4".to_string(), "ranges/adjacent", true);
        out.op("ranges v=5-9,1-3".to_string(), "ranges/unsorted", true);
        out.op("ranges v=0-3".to_string(), "ranges/height-zero", true);
        out.op("ranges v=1-5,4-9".to_string(), "ranges/overlap", true);
        out.op("ranges v=7-3".to_string(), "ranges/inverted", true);
        // blobs: value level (`blobv`), raw level (`blobraw`, Blob::from_raw), JSON field level (`blobjson`).
        // Field lines are built from the value's public fields, never through the conversions under test.
        let latest = celestia_types::AppVersion::latest().as_u64();
        for i in 0..n {
            let ns = user_ns(rng);
            let len = *rng.pick(&[1usize, 100, 478, 479, 500, 2000]);
            let data = rng.bytes(len);
            let signer_b = if rng.bool() { Some(rng.bytes(20)) } else { None };
            let signer = signer_b.as_ref().map(|b| hx(b)).unwrap_or_else(|| "-".to_string());
            let av = if signer_b.is_some() { rng.range(3, latest) } else { rng.range(1, latest) };
            // the old correspondence-only op (kept: cheap, and the corpus may hold such lines)
            out.op(format!("blob ns={} data={} signer={signer}", hx(ns.as_bytes()), hx(&data)), "blob/valid", true);
            let v = format!("blobv ns={} data={} signer={signer} index=none av={av}", hx(ns.as_bytes()), hx(&data));
            out.op(v.clone(), "blobv/valid", true);
            if i % 4 == 0 {
                // a blob as retrieved from chain: `index` set (not carried by BlobProto)
                let idx = *rng.pick(&[0u64, 1, 7, 1 << 20, i64::MAX as u64]);
                out.op(set(&v, "index", &idx.to_string()), "blobv/index-set", true);
            }
            if i % 7 == 0 && signer_b.is_some() {
                out.op(set(&v, "av", "2"), "blobv/signer-before-v3", true);
            }
            // raw level
            let sv = if signer_b.is_some() { 1 } else { 0 };
            let r = format!("blobraw nsver={} nsid={} data={} sv={sv} signer={signer} av={av}", ns.version(), hx(ns.id()), hx(&data));
            out.op(r.clone(), "blobraw/honest", true);
            match i % 10 {
                0 => out.op(set(&r, "nsver", "256"), "blobraw/ns-version-256-wraps", true),
                1 => out.op(set(&r, "nsver", "1"), "blobraw/ns-version-1", true),
                2 => out.op(set(&r, "nsid", &hx(&ns.id()[1..])), "blobraw/short-ns-id", true),
                3 => out.op(set(&r, "sv", "256"), "blobraw/share-version-256", true),
                4 => out.op(set(&r, "sv", "2"), "blobraw/share-version-2", true),
                5 => out.op(set(&r, "sv", &(1 - sv).to_string()), "blobraw/share-version-signer-mismatch", true),
                6 => out.op(set(&r, "signer", &hx(&rng.bytes(5))), "blobraw/signer-5-bytes", true),
                7 => out.op(set(&r, "signer", &hx(&rng.bytes(21))), "blobraw/signer-21-bytes", true),
                8 => out.op(set(&r, "av", "1"), "blobraw/app-version-1", true),
                _ => out.op(set(&r, "nsid", &hx(&[7u8; 28])), "blobraw/ns-id-not-v0", true),
            }
            // JSON field level: the commitment is the real one (computed through the public constructor)
            if let Ok(b) = Blob::new(ns, data.clone(), signer_b.as_ref().and_then(|b| celestia_types::state::AccAddress::try_from(&b[..]).ok()), celestia_types::AppVersion::from_u64(av).unwrap()) {
                use base64::Engine;
                let e = |b: &[u8]| if b.is_empty() { "-".to_string() } else { base64::engine::general_purpose::STANDARD.encode(b) };
                let sj = signer_b.as_ref().map(|b| e(b)).unwrap_or_else(|| "null".to_string());
                let idx = *rng.pick(&["-1", "0", "5", "9223372036854775807", "absent", "-7"]);
                let j = format!("blobjson ns={} data={} sv={sv} commit={} index={idx} signer={sj}", e(ns.as_bytes()), e(&data), e(b.commitment.hash()));
                out.op(j.clone(), "blobjson/honest", true);
                match i % 10 {
                    0 => {
                        let other = if signer_b.is_some() { "null".to_string() } else { e(&[9u8; 20]) };
                        out.op(set(&j, "signer", &other), "blobjson/share-version-signer-mismatch", true)
                    }
                    1 => out.op(set(&j, "signer", "absent"), "blobjson/signer-absent", true),
                    2 => out.op(set(&j, "signer", &e(&[9u8; 19])), "blobjson/signer-19-bytes", true),
                    3 => out.op(set(&j, "sv", "2"), "blobjson/share-version-2", true),
                    4 => out.op(set(&j, "sv", "256"), "blobjson/share-version-256", true),
                    5 => out.op(set(&j, "commit", &e(&[1u8; 31])), "blobjson/commitment-31-bytes", true),
                    6 => out.op(set(&j, "commit", &e(&[1u8; 32])), "blobjson/foreign-commitment", true),
                    7 => out.op(set(&j, "ns", &e(&[7u8; 29])), "blobjson/invalid-namespace", true),
                    8 => out.op(set(&j, "ns", &e(&ns.as_bytes()[..28])), "blobjson/short-namespace", true),
                    _ => out.op(set(&j, "signer", "-"), "blobjson/signer-empty-string", true),
                }
            }
        }
        // extended headers (correspondence only): deterministic honest headers
        for _ in 0..n {
            use consensus_e::*;
            let nparties = rng.usize(1, 4);
            let parties: Vec<Party> = (0..nparties)
                .map(|_| {
                    let p = rng.range(1, 1000);
                    new_party(rng, p)
                })
                .collect();
            let (ordered, set) = set_of_parties(&parties);
            let hw = *rng.pick(&[2usize, 4]);
            let (eds, _) = gen_eds(rng, hw);
            let dah = DataAvailabilityHeader::from_eds(&eds);
            let height = rng.range(1, 1_000_000);
            let app = celestia_types::AppVersion::latest().as_u64();
            let lbi = if height == 1 { None } else { some_block_id(rng) };
            let eh = make_header(rng, "private", height, 1_700_000_000_000_000_000, app, lbi, &ordered, &set, &set, dah, &|_| true);
            out.op(format!("eh bytes={}", hx(&eh.clone().encode_vec())), "eh/honest", true);
            // raw level: which messages are required, the order of the checks, validate() on decode
            let raw = RawEh::from(eh.clone());
            for mask in 0..16u32 {
                let mut r = raw.clone();
                if mask & 1 != 0 { r.header = None; }
                if mask & 2 != 0 { r.commit = None; }
                if mask & 4 != 0 { r.validator_set = None; }
                if mask & 8 != 0 { r.dah = None; }
                out.op(ehraw_line(&r), if mask == 0 { "ehraw/honest" } else { "ehraw/missing-fields" }, true);
            }
            let (eds2, _) = gen_eds(rng, hw);
            let other_dah: RawDah = DataAvailabilityHeader::from_eds(&eds2).into();
            let tampers: Vec<(&str, Box<dyn Fn(&mut RawEh)>)> = vec![
                ("ehraw/header-does-not-convert", Box::new(|r: &mut RawEh| r.header.as_mut().unwrap().version = None)),
                ("ehraw/commit-does-not-convert", Box::new(|r: &mut RawEh| r.commit.as_mut().unwrap().height = -1)),
                ("ehraw/validator-set-does-not-convert", Box::new(|r: &mut RawEh| r.validator_set.as_mut().unwrap().validators[0].pub_key = None)),
                ("ehraw/dah-does-not-convert", Box::new(|r: &mut RawEh| { r.dah.as_mut().unwrap().row_roots[0].pop(); })),
                ("ehraw/invalid-foreign-dah", Box::new(move |r: &mut RawEh| r.dah = Some(other_dah.clone()))),
                ("ehraw/invalid-commit-height", Box::new(|r: &mut RawEh| r.commit.as_mut().unwrap().height += 1)),
                ("ehraw/invalid-header-height", Box::new(|r: &mut RawEh| r.header.as_mut().unwrap().height += 1)),
                ("ehraw/invalid-no-signatures", Box::new(|r: &mut RawEh| r.commit.as_mut().unwrap().signatures.clear())),
            ];
            for (tag, f) in &tampers {
                let mut r = raw.clone();
                f(&mut r);
                out.op(ehraw_line(&r), tag, true);
                // a later message missing / an earlier one missing: the first failing check decides
                let mut r2 = r.clone();
                r2.dah = None;
                out.op(ehraw_line(&r2), &format!("{tag}+no-dah"), true);
                let mut r3 = r.clone();
                r3.header = None;
                out.op(ehraw_line(&r3), &format!("{tag}+no-header"), true);
            }
        }
    }
}

impl Prop for C46 {
    fn id(&self) -> &'static str {
        "C46"
    }
    fn rule(&self) -> &'static str {
        "Valid values of every type named in the property, built from random namespace-sorted squares extended with the real \
         leopard codec: DAHs, data and parity shares, namespaces (user + reserved), namespace proofs from the real trees \
         (presence ranges, absence with and without leaf, both ignore_max_ns settings, u32 extremes) through both raw proof forms, \
         merkle / row / share proofs, bad-encoding fraud proofs (all axis combinations, absent shares; protobuf AND the JSON form fraud_proof::Proof <-> RawFraudProof incl. unknown type tags), block ranges, blobs \
         (v0 and signer v1, lengths around the share boundaries, with and without a chain index; raw BlobProto and JSON field forms \
         incl. wrapped namespace versions, out-of-range / inconsistent share versions, signers of wrong length, foreign commitments), \
         honest signed extended headers and their raw forms with every subset of the four messages missing, messages the third-party \
         conversions refuse, and assembled headers that fail validate(); plus structurally invalid raw \
         forms (short hashes, negative/zero/i64-max indices, out-of-u16 rows, missing fields, wrong lengths). For each: raw -> value \
         -> raw with the real conversions (compared with the model), value -> protobuf bytes -> value and value -> JSON -> value \
         with the real encoders (equality of the decoded value). Non-trivial = every case; distinct = distinct (op, result) lines."
    }
    fn gen_ops(&mut self, rng: &mut Rng, tier: Tier, out: &mut Emitter) {
        let plan: Vec<(usize, usize, usize)> =
            if tier == Tier::Thorough { vec![(2, 6, 10), (4, 6, 12), (8, 5, 14), (16, 3, 14), (32, 2, 10)] } else { vec![(2, 3, 6), (4, 3, 8), (8, 3, 8), (16, 2, 8)] };
        for (w, squares, per) in plan {
            for _ in 0..squares {
                self.gen_square(rng, w, per, out);
            }
        }
        self.gen_misc(rng, if tier == Tier::Thorough { 120 } else { 20 }, out);
    }
    fn run(&mut self, line: &str) -> String {
        match opname(line) {
            "reset" => "ok".into(),
            "ns" => {
                let Some(b) = arg_hex(line, "bytes") else { return "bad-op".into() };
                match Namespace::from_raw(&b) {
                    Err(_) => "err-decode".into(),
                    Ok(ns) => format!("ok raw=bytes={} pb=- json={}", hx(ns.as_bytes()), json_rt(&ns)),
                }
            }
            "share" => {
                let (Some(d), Some(par)) = (arg_hex(line, "data"), arg_u64(line, "parity")) else { return "bad-op".into() };
                let Some(s) = share_of(&d, par == 1) else { return "err-decode".into() };
                let raw = RawShare::from(s.clone());
                let back = Share::try_from(raw.clone()).ok();
                let pb = {
                    let bytes = raw.encode_to_vec();
                    flag(RawShare::decode(&bytes[..]).ok().and_then(|r| Share::try_from(r).ok()).map(|x| x == s))
                };
                format!("ok raw=data={} conv={} pb={pb} json={}", hx(&raw.data), flag(back.map(|x| x == s)), json_rt(&s))
            }
            "dah" => {
                let (Some(rows), Some(cols)) = (arg(line, "rows").and_then(unhxl), arg(line, "cols").and_then(unhxl)) else { return "bad-op".into() };
                match DataAvailabilityHeader::try_from(RawDah { row_roots: rows, column_roots: cols }) {
                    Err(_) => "err-decode".into(),
                    Ok(d) => {
                        let raw = RawDah::from(d.clone());
                        format!("ok raw=rows={},cols={} pb={} json={}", hxl(&raw.row_roots).replace(',', ";"), hxl(&raw.column_roots).replace(',', ";"), pb_rt::<RawDah, _>(&d), json_rt(&d))
                    }
                }
            }
            "nsproof" | "nmtproof" => {
                let Some(p) = proof_from_line(line) else { return "err-decode".into() };
                if opname(line) == "nsproof" {
                    let raw = RawProof::from(p.clone());
                    let back = NamespaceProof::try_from(raw.clone()).ok();
                    format!(
                        "ok raw={} conv={} pb={} json={}",
                        raw_proof_fields(&raw).replace(' ', ";"),
                        flag(back.map(|x| x == p)),
                        pb_rt::<RawProof, _>(&p),
                        json_rt(&p)
                    )
                } else {
                    let raw = RawNmtProof::from(p.clone());
                    let back = NamespaceProof::try_from(raw.clone()).ok();
                    let pb = {
                        let bytes = raw.encode_to_vec();
                        flag(RawNmtProof::decode(&bytes[..]).ok().and_then(|r| NamespaceProof::try_from(r).ok()).map(|x| x == p))
                    };
                    let json = match serde_json::to_string(&raw) {
                        Err(_) => "err",
                        Ok(s) => flag(serde_json::from_str::<RawNmtProof>(&s).ok().and_then(|r| NamespaceProof::try_from(r).ok()).map(|x| x == p)),
                    };
                    format!("ok raw={} conv={} pb={pb} json={json}", nmt_word(&raw), flag(back.map(|x| x == p)))
                }
            }
            "merkle" => {
                let Some(raw) = arg(line, "mp").and_then(merkle_unword) else { return "bad-op".into() };
                match MerkleProof::try_from(raw) {
                    Err(_) => "err-decode".into(),
                    Ok(p) => {
                        let back = RawMerkleProof::from(p.clone());
                        format!("ok raw={} pb=- json={}", merkle_word(&back), json_rt(&p))
                    }
                }
            }
            "rowproof" => {
                let Some(raw) = rowproof_from(line) else { return "bad-op".into() };
                match RowProof::try_from(raw) {
                    Err(_) => "err-decode".into(),
                    Ok(p) => {
                        let back = RawRowProof::from(p.clone());
                        format!("ok raw={} pb={} json={}", rowproof_fields(&back).replace(' ', ";"), pb_rt::<RawRowProof, _>(&p), json_rt(&p))
                    }
                }
            }
            "shareproof" => {
                let (Some(data), Some(nsid), Some(nsver)) = (arg(line, "data").and_then(unhxl), arg_hex(line, "nsid"), arg_u64(line, "nsver")) else {
                    return "bad-op".into();
                };
                let Some(sps) = all_args(line, "sp").into_iter().map(nmt_unword).collect::<Option<Vec<_>>>() else { return "bad-op".into() };
                let row_proof = if arg_u64(line, "hasrp") == Some(1) {
                    match rowproof_from(line) {
                        Some(r) => Some(r),
                        None => return "bad-op".into(),
                    }
                } else {
                    None
                };
                let raw = RawShareProof { data, share_proofs: sps, namespace_id: nsid, row_proof, namespace_version: nsver as u32 };
                match ShareProof::try_from(raw) {
                    Err(_) => "err-decode".into(),
                    Ok(p) => {
                        let back = RawShareProof::from(p.clone());
                        format!("ok raw={} pb={} json={}", shareproof_fields(&back).replace(' ', ";"), pb_rt::<RawShareProof, _>(&p), json_rt(&p))
                    }
                }
            }
            "befp" => {
                let (Some(hash), Some(height), Some(index), Some(axis)) = (arg_hex(line, "hash"), arg_u64(line, "height"), arg_u64(line, "index"), arg_u64(line, "axis")) else {
                    return "bad-op".into();
                };
                let Some(shares) = all_args(line, "sh").into_iter().map(befp_unword).collect::<Option<Vec<_>>>() else { return "bad-op".into() };
                let raw = RawBefp { header_hash: hash, height, shares, index: index as u32, axis: axis as u32 as i32 };
                match BadEncodingFraudProof::try_from(raw) {
                    Err(_) => "err-decode".into(),
                    Ok(p) => {
                        let back = RawBefp::from(p.clone());
                        // the JSON form of fraud proofs: fraud_proof::Proof <-> RawFraudProof { proof_type, data }
                        let fp = FraudProofEnum::BadEncoding(p.clone());
                        let (jtype, jdata) = match serde_json::to_value(&fp) {
                            Ok(v) => {
                                let t = v.get("proof_type").and_then(|t| t.as_str()).unwrap_or("?").to_string();
                                let d = v.get("data").and_then(|d| d.as_str()).and_then(|d| BASE64_STANDARD.decode(d).ok());
                                (if t.is_empty() { "-".to_string() } else { t.replace(' ', "_") }, flag(d.map(|d| d == p.clone().encode_vec())))
                            }
                            Err(_) => ("?".to_string(), "err"),
                        };
                        format!(
                            "ok raw={} pb={} json={} jtype={jtype} jdata={jdata}",
                            befp_fields(&back).replace(' ', ";"),
                            pb_rt::<RawBefp, _>(&p),
                            json_rt(&fp)
                        )
                    }
                }
            }
            "fraudjson" => {
                let (Some(ty), Some(hash), Some(height), Some(index), Some(axis)) =
                    (arg(line, "type"), arg_hex(line, "hash"), arg_u64(line, "height"), arg_u64(line, "index"), arg_u64(line, "axis"))
                else {
                    return "bad-op".into();
                };
                let Some(shares) = all_args(line, "sh").into_iter().map(befp_unword).collect::<Option<Vec<_>>>() else { return "bad-op".into() };
                let raw = RawBefp { header_hash: hash, height, shares, index: index as u32, axis: axis as u32 as i32 };
                let ty = if ty == "-" { "" } else { ty };
                let text = serde_json::json!({ "proof_type": ty, "data": BASE64_STANDARD.encode(raw.encode_to_vec()) }).to_string();
                match serde_json::from_str::<FraudProofEnum>(&text) {
                    Err(_) => "err-decode".into(),
                    Ok(fp) => {
                        let FraudProofEnum::BadEncoding(p) = &fp else { return "other-variant".into() };
                        let back = RawBefp::from(p.clone());
                        format!("ok raw={} json={}", befp_fields(&back).replace(' ', ";"), json_rt(&fp))
                    }
                }
            }
            "ranges" => {
                let Some(v) = arg(line, "v") else { return "bad-op".into() };
                let mut rs = vec![];
                if v != "-" {
                    for t in v.split(',') {
                        let Some((a, b)) = t.split_once('-') else { return "bad-op".into() };
                        let (Ok(a), Ok(b)) = (a.parse::<u64>(), b.parse::<u64>()) else { return "bad-op".into() };
                        rs.push(a..=b);
                    }
                }
                match BlockRanges::from_vec(rs.into()) {
                    Err(_) => "err-decode".into(),
                    Ok(r) => {
                        let shown: Vec<String> = r.as_ref().iter().map(|x| format!("{}-{}", x.start(), x.end())).collect();
                        format!("ok raw=v={} pb=- json={}", if shown.is_empty() { "-".into() } else { shown.join(";") }, json_rt(&r))
                    }
                }
            }
            "blob" => {
                let (Some(ns), Some(data)) = (arg_hex(line, "ns").and_then(|b| Namespace::from_raw(&b).ok()), arg_hex(line, "data")) else { return "bad-op".into() };
                let signer = match arg(line, "signer") {
                    Some("-") | None => None,
                    Some(h) => unhx(h).and_then(|b| celestia_types::state::AccAddress::try_from(&b[..]).ok()),
                };
                let app = celestia_types::AppVersion::latest();
                match Blob::new(ns, data, signer, app) {
                    Err(_) => "err-decode".into(),
                    Ok(b) => {
                        let raw = celestia_types::blob::RawBlob::from(b.clone());
                        let pb = {
                            let bytes = raw.encode_to_vec();
                            flag(celestia_types::blob::RawBlob::decode(&bytes[..]).ok().and_then(|r| Blob::from_raw(r, app).ok()).map(|x| x == b))
                        };
                        format!("ok pb={pb} json={}", json_rt(&b))
                    }
                }
            }
            "blobv" => {
                let (Some(ns), Some(data), Some(av)) = (arg_hex(line, "ns").and_then(|b| Namespace::from_raw(&b).ok()), arg_hex(line, "data"), arg_u64(line, "av").and_then(celestia_types::AppVersion::from_u64)) else {
                    return "bad-op".into();
                };
                let signer = match arg(line, "signer") {
                    Some("-") | None => None,
                    Some(h) => unhx(h).and_then(|b| celestia_types::state::AccAddress::try_from(&b[..]).ok()),
                };
                let index = match arg(line, "index") {
                    Some("none") | None => None,
                    Some(i) => match i.parse::<u64>() {
                        Ok(i) => Some(i),
                        Err(_) => return "bad-op".into(),
                    },
                };
                match Blob::new(ns, data, signer, av) {
                    Err(_) => "err-decode".into(),
                    Ok(mut b) => {
                        b.index = index;
                        let raw = celestia_types::blob::RawBlob::from(b.clone());
                        let conv = flag(Blob::from_raw(raw.clone(), av).ok().map(|x| x == b));
                        format!("ok raw={} commit={} conv={conv} pb={} json={}", raw_blob_fields(&raw), hx(b.commitment.hash()), blob_pb(&b, av), json_rt(&b))
                    }
                }
            }
            "blobraw" => {
                let (Some(nsver), Some(nsid), Some(data), Some(sv), Some(signer), Some(av)) = (
                    arg_u64(line, "nsver"),
                    arg_hex(line, "nsid"),
                    arg_hex(line, "data"),
                    arg_u64(line, "sv"),
                    arg_hex(line, "signer"),
                    arg_u64(line, "av").and_then(celestia_types::AppVersion::from_u64),
                ) else {
                    return "bad-op".into();
                };
                let raw = celestia_types::blob::RawBlob { namespace_id: nsid, namespace_version: nsver as u32, data, share_version: sv as u32, signer };
                match Blob::from_raw(raw, av) {
                    Err(e) => format!("err-decode kind={}", blob_err_kind(&e)),
                    Ok(b) => {
                        let back = celestia_types::blob::RawBlob::from(b.clone());
                        let index = b.index.map(|i| i.to_string()).unwrap_or_else(|| "none".into());
                        format!("ok raw={} commit={} index={index} pb={} json={}", raw_blob_fields(&back), hx(b.commitment.hash()), blob_pb(&b, av), json_rt(&b))
                    }
                }
            }
            "blobjson" => {
                let (Some(ns), Some(data), Some(sv), Some(commit), Some(index), Some(signer)) =
                    (arg(line, "ns"), arg(line, "data"), arg_u64(line, "sv"), arg(line, "commit"), arg(line, "index"), arg(line, "signer"))
                else {
                    return "bad-op".into();
                };
                let mut m = serde_json::Map::new();
                m.insert("namespace".into(), b64_arg(ns).into());
                m.insert("data".into(), b64_arg(data).into());
                m.insert("share_version".into(), sv.into());
                m.insert("commitment".into(), b64_arg(commit).into());
                if index != "absent" {
                    let Ok(i) = index.parse::<i64>() else { return "bad-op".into() };
                    m.insert("index".into(), i.into());
                }
                match signer {
                    "absent" => {}
                    "null" => {
                        m.insert("signer".into(), serde_json::Value::Null);
                    }
                    s => {
                        m.insert("signer".into(), b64_arg(s).into());
                    }
                }
                let text = serde_json::Value::Object(m).to_string();
                match serde_json::from_str::<Blob>(&text) {
                    Err(_) => "err-decode".into(),
                    Ok(b) => {
                        let index = b.index.map(|i| i.to_string()).unwrap_or_else(|| "none".into());
                        let signer = b.signer.as_ref().map(|a| { use celestia_types::state::AddressTrait; hx(a.as_bytes()) }).unwrap_or_else(|| "-".into());
                        format!(
                            "ok ns={} data={} sv={} commit={} index={index} signer={signer} json={}",
                            hx(b.namespace.as_bytes()),
                            hx(&b.data),
                            b.share_version,
                            hx(b.commitment.hash()),
                            json_rt(&b)
                        )
                    }
                }
            }
            "ehraw" => {
                let Some(bytes) = arg_hex(line, "bytes") else { return "bad-op".into() };
                let Ok(raw) = RawEh::decode(&bytes[..]) else { return "bad-op".into() };
                // the oracle words of the line must be what the third-party code says today
                let expect = ehraw_line(&raw);
                if expect != line {
                    return "oracle-mismatch".into();
                }
                match ExtendedHeader::try_from(raw) {
                    Ok(_) => "ok".into(),
                    Err(e) => {
                        use celestia_types::Error as E;
                        let kind = match e {
                            E::MissingHeader => "MissingHeader",
                            E::MissingCommit => "MissingCommit",
                            E::MissingValidatorSet => "MissingValidatorSet",
                            E::MissingDataAvailabilityHeader => "MissingDah",
                            _ => "other",
                        };
                        format!("err-decode kind={kind}")
                    }
                }
            }
            "eh" => {
                let Some(b) = arg_hex(line, "bytes") else { return "bad-op".into() };
                match ExtendedHeader::decode_and_validate(&b) {
                    Err(e) => {
                        if std::env::var_os("VERIF_SHOW_PANICS").is_some() {
                            eprintln!("eh decode error: {e}");
                        }
                        "err-decode".into()
                    }
                    Ok(h) => format!("ok pb={} json={}", pb_rt::<celestia_proto::header::pb::ExtendedHeader, _>(&h), json_rt(&h)),
                }
            }
            _ => "bad-op".into(),
        }
    }
    fn result_tag(&self, _line: &str, result: &str) -> Option<String> {
        let pb = arg(result, "pb").unwrap_or("");
        let json = arg(result, "json").unwrap_or("");
        Some(format!("{}:pb={pb}:json={json}", result.split(' ').next().unwrap_or("")))
    }
}

/// a well-formed previous block id (any hash): headers above height 1 need one
fn some_block_id(rng: &mut Rng) -> Option<tendermint::block::Id> {
    let h = |rng: &mut Rng| tendermint::Hash::Sha256(rng.bytes(32).try_into().unwrap());
    Some(tendermint::block::Id { hash: h(rng), part_set_header: tendermint::block::parts::Header::new(1, h(rng)).unwrap() })
}

fn main() {
    main_for(C46);
}

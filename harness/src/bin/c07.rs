//! C07 — Bad-encoding fraud proofs are sound and complete.
//!
//! Op (stateless):
//!   validate hh=<header height> rows=<roots> cols=<roots> height=<befp height> index=<u32> axis=<i32>
//!            axisdata=<the shares of the indicated axis of the COMMITTED square | none> axpar=<real codec parity of its first half>
//!            honest=0|1 rec=<shards after the real reconstruct | -> par=<parity after the real encode | ->
//!            sh=<data/hasproof/start/end/nodes/leaf/ign/proofaxis> … (one word per share, in order)
//!   → the real `BadEncodingFraudProof::try_from(raw)` then `validate(&header)` with `header.dah` = the given roots.
//!
//! With `C07_UNFIXED=1` in the environment the op is named `validate_u`: the driver then runs its model of the code
//! BEFORE the fix commits (used once, on the unfixed tree, to confirm the findings).
#[path = "../d2_common.rs"]
mod d2_common;
#[path = "../d_common.rs"]
mod d_common;

use celestia_proto::proof::pb::Proof as RawProof;
use celestia_proto::share::eds::byzantine::pb::{BadEncoding as RawBefp, Share as RawBefpShare};
use celestia_types::fraud_proof::{BadEncodingFraudProof, FraudProof};
use celestia_types::nmt::{NS_SIZE, Namespace, NamespaceProof, NamespacedHash, NamespacedHashExt, Nmt, NmtExt};
use celestia_types::test_utils::ExtendedHeaderGenerator;
use celestia_types::{AxisType, DataAvailabilityHeader, ExtendedDataSquare};
use d2_common::*;
use verif_harness::*;

struct C07 {
    opname: &'static str,
}

fn proof_slash(p: &Option<RawProof>) -> String {
    match p {
        None => "0/0/0/-/-/0".to_string(),
        Some(p) => format!(
            "1/{}/{}/{}/{}/{}",
            p.start as u64,
            p.end as u64,
            hxl(&p.nodes),
            hx(&p.leaf_hash),
            p.is_max_namespace_ignored as u8
        ),
    }
}

fn share_word(s: &RawBefpShare) -> String {
    format!("sh={}/{}/{}", hx(&s.data), proof_slash(&s.proof), s.proof_axis)
}

fn share_unword(w: &str) -> Option<RawBefpShare> {
    let f: Vec<&str> = w.split('/').collect();
    if f.len() != 8 {
        return None;
    }
    let proof = if f[1] == "0" {
        None
    } else {
        Some(RawProof {
            start: f[2].parse::<u64>().ok()? as i64,
            end: f[3].parse::<u64>().ok()? as i64,
            nodes: unhxl(f[4])?,
            leaf_hash: unhx(f[5])?,
            is_max_namespace_ignored: f[6] == "1",
        })
    };
    Some(RawBefpShare { data: unhx(f[0])?, proof, proof_axis: f[7].parse::<i32>().ok()? })
}

fn all_args<'a>(line: &'a str, key: &str) -> Vec<&'a str> {
    line.split(' ')
        .filter_map(|w| {
            let (k, v) = w.split_once('=')?;
            (k == key).then_some(v)
        })
        .collect()
}

/// the honest share-with-proof of position `i` on axis `(axis, aidx)` of `eds`, proven along `paxis`
fn honest_share(eds: &ExtendedDataSquare, axis: AxisType, aidx: u16, i: u16, paxis: AxisType) -> RawBefpShare {
    let w = eds.square_width();
    let (mut nmt, idx) = match (axis, paxis) {
        (AxisType::Row, AxisType::Row) => (eds.row_nmt(aidx).unwrap(), i),
        (AxisType::Row, AxisType::Col) => (eds.column_nmt(i).unwrap(), aidx),
        (AxisType::Col, AxisType::Row) => (eds.row_nmt(i).unwrap(), aidx),
        (AxisType::Col, AxisType::Col) => (eds.column_nmt(aidx).unwrap(), i),
    };
    let (share, proof) = nmt.get_index_with_proof(idx as usize);
    let ns = if aidx < w / 2 && i < w / 2 { Namespace::from_raw(&share[..NS_SIZE]).unwrap() } else { Namespace::PARITY_SHARE };
    let proof: NamespaceProof = d_common::NmtNamespaceProof::PresenceProof { proof, ignore_max_ns: true }.into();
    let mut data = ns.as_bytes().to_vec();
    data.extend_from_slice(&share);
    RawBefpShare { data, proof: Some(proof.into()), proof_axis: paxis as i32 }
}

fn absent() -> RawBefpShare {
    RawBefpShare { data: vec![], proof: None, proof_axis: 0 }
}

struct Ctx<'a> {
    opname: &'static str,
    eds: &'a ExtendedDataSquare,
    dah: &'a DataAvailabilityHeader,
}

impl Ctx<'_> {
    /// one op line; `axis`/`index` as claimed by the proof, shares as given
    fn line(&self, hh: u64, height: u64, index: u32, axis: i32, honest: bool, shares: &[RawBefpShare]) -> String {
        let w = self.eds.square_width() as usize;
        let k = w / 2;
        // ground truth about the committed square: the shares of the indicated axis (the driver checks that their NMT root
        // is the DAH's root; the codec's parity of their first half and the honesty of the proof are recomputed by
        // `observed` on every run)
        let _ = honest;
        let ax = AxisType::try_from(axis).ok();
        let axisdata = match ax {
            Some(a) if (index as usize) < w => {
                let d: Vec<Vec<u8>> = self.eds.axis(a, index as u16).unwrap().iter().map(|s| s.to_vec()).collect();
                hxl(&d)
            }
            _ => "none".to_string(),
        };
        // codec oracle: what leopard makes of the rebuilt axis
        let rebuilt: Vec<Vec<u8>> = shares
            .iter()
            .map(|s| if s.proof.is_some() && s.data.len() == SHARE + NS_SIZE { s.data[NS_SIZE..].to_vec() } else { vec![] })
            .collect();
        let (rec, par) = codec_oracle(&rebuilt, k);
        let mut l = format!(
            "{} hh={hh} {} height={height} index={index} axis={axis} axisdata={axisdata} rec={rec} par={par}",
            self.opname,
            roots_fields(self.dah),
        );
        for s in shares {
            l.push(' ');
            l.push_str(&share_word(s));
        }
        l
    }
}

fn encode_first_half(axis: &[Vec<u8>]) -> Option<Vec<Vec<u8>>> {
    let k = axis.len() / 2;
    let mut shards: Vec<Vec<u8>> = axis[..k].to_vec();
    shards.resize(2 * k, vec![0u8; SHARE]);
    std::panic::catch_unwind(move || leopard_codec::encode(&mut shards, k).ok().map(|_| shards.split_off(k))).ok().flatten()
}

/// (shards after reconstruct, parity after the following encode), `-` where leopard failed
fn codec_oracle(rebuilt: &[Vec<u8>], k: usize) -> (String, String) {
    let s0 = rebuilt.to_vec();
    let r = std::panic::catch_unwind(move || {
        let mut s = s0;
        if leopard_codec::reconstruct(&mut s, k).is_err() {
            return (None, None);
        }
        let rec = s.clone();
        if leopard_codec::encode(&mut s, k).is_err() {
            return (Some(rec), None);
        }
        (Some(rec), Some(s.split_off(k)))
    });
    let (a, b) = r.unwrap_or((None, None));
    (a.map(|x| hxl(&x)).unwrap_or_else(|| "-".into()), b.map(|x| hxl(&x)).unwrap_or_else(|| "-".into()))
}

fn random_subset(rng: &mut Rng, n: usize, m: usize) -> Vec<bool> {
    let mut idx: Vec<usize> = (0..n).collect();
    rng.shuffle(&mut idx);
    let mut v = vec![false; n];
    for i in idx.into_iter().take(m) {
        v[i] = true;
    }
    v
}

/// "a proof carrying at least half of that axis's shares, each proven at its own position", judged from the line alone:
/// right height, an existing axis, one entry per position, at least half present, every present entry = the committed
/// share of ITS position under the namespace of that position, with an inclusion proof for exactly that leaf of the tree
/// its proof axis names (checked with nmt-rs against the DAH root on the line).
fn honest_proof(line: &str, axisdata: Option<&[Vec<u8>]>) -> Option<bool> {
    let hh = arg_u64(line, "hh")?;
    let dah = dah_from_line(line)?;
    let height = arg_u64(line, "height")?;
    let index = arg_u64(line, "index")? as usize;
    let axis = arg(line, "axis")?.parse::<i32>().ok()?;
    let shares = all_args(line, "sh").into_iter().map(share_unword).collect::<Option<Vec<_>>>()?;
    let axisdata = axisdata?;
    let w = dah.row_roots().len();
    if hh != height || !(axis == 0 || axis == 1) || index >= w || shares.len() != w || axisdata.len() != w || dah.column_roots().len() != w {
        return Some(false);
    }
    let k = w / 2;
    if shares.iter().filter(|s| s.proof.is_some()).count() < k {
        return Some(false);
    }
    for (i, s) in shares.iter().enumerate() {
        let Some(raw_proof) = &s.proof else { continue };
        if s.data.len() != SHARE + NS_SIZE || s.data[NS_SIZE..] != axisdata[i][..] {
            return Some(false);
        }
        // the namespace the leaf was committed under: by the protocol's rule, or (S9) as the line's `axisns=` says
        let committed: Option<Vec<Vec<u8>>> = arg(line, "axisns").and_then(unhxl);
        let ns_expected: Vec<u8> = match &committed {
            Some(v) if v.len() == w => v[i].clone(),
            Some(_) => return Some(false),
            None => if index < k && i < k { axisdata[i][..NS_SIZE].to_vec() } else { Namespace::PARITY_SHARE.as_bytes().to_vec() },
        };
        if s.data[..NS_SIZE] != ns_expected[..] {
            return Some(false);
        }
        let Ok(ns) = Namespace::from_raw(&ns_expected) else { return Some(false) };
        let Ok(proof) = NamespaceProof::try_from(raw_proof.clone()) else { return Some(false) };
        let (root, leaf) = match (axis, s.proof_axis) {
            (0, 0) => (dah.row_root(index as u16), i),
            (0, 1) => (dah.column_root(i as u16), index),
            (1, 0) => (dah.row_root(i as u16), index),
            (1, 1) => (dah.column_root(index as u16), i),
            _ => return Some(false),
        };
        let Some(root) = root else { return Some(false) };
        if proof.start_idx() as usize != leaf || proof.end_idx() as usize != leaf + 1 {
            return Some(false);
        }
        let ok = std::panic::catch_unwind(|| proof.verify_range(&root, &[&axisdata[i][..]], *ns).is_ok()).unwrap_or(false);
        if !ok {
            return Some(false);
        }
    }
    Some(true)
}

const HH: u64 = 9;

impl C07 {
    /// all proof shapes for axis `(axis, aidx)` of the committed square `eds`
    fn gen_axis(&mut self, rng: &mut Rng, c: &Ctx, axis: AxisType, aidx: u16, tag: &str, out: &mut Emitter) {
        let w = c.eds.square_width();
        let k = (w / 2) as usize;
        let wz = w as usize;
        let ax = axis as i32;
        let mixed: Vec<RawBefpShare> =
            (0..w).map(|i| honest_share(c.eds, axis, aidx, i, if rng.bool() { AxisType::Row } else { AxisType::Col })).collect();
        let same: Vec<RawBefpShare> = (0..w).map(|i| honest_share(c.eds, axis, aidx, i, axis)).collect();
        let orth: Vec<RawBefpShare> =
            (0..w).map(|i| honest_share(c.eds, axis, aidx, i, if axis == AxisType::Row { AxisType::Col } else { AxisType::Row })).collect();
        let keep = |all: &[RawBefpShare], mask: &[bool]| -> Vec<RawBefpShare> {
            all.iter().zip(mask.iter()).map(|(s, m)| if *m { s.clone() } else { absent() }).collect()
        };
        let t = |s: &str| format!("{tag}/{s}");
        // honest proofs: all shares, exactly half at random, the parity half, the data half, every proof-axis mix
        out.op(c.line(HH, HH, aidx as u32, ax, true, &mixed), &t("honest/all-mixed-axes"), true);
        out.op(c.line(HH, HH, aidx as u32, ax, true, &same), &t("honest/all-same-axis"), true);
        out.op(c.line(HH, HH, aidx as u32, ax, true, &orth), &t("honest/all-orthogonal-axis"), true);
        out.op(c.line(HH, HH, aidx as u32, ax, true, &keep(&mixed, &random_subset(rng, wz, k))), &t("honest/half-random"), true);
        let par_half: Vec<bool> = (0..wz).map(|i| i >= k).collect();
        out.op(c.line(HH, HH, aidx as u32, ax, true, &keep(&mixed, &par_half)), &t("honest/parity-half"), true);
        let data_half: Vec<bool> = (0..wz).map(|i| i < k).collect();
        out.op(c.line(HH, HH, aidx as u32, ax, true, &keep(&orth, &data_half)), &t("honest/data-half"), true);
        let m = rng.usize(k, wz);
        out.op(c.line(HH, HH, aidx as u32, ax, true, &keep(&same, &random_subset(rng, wz, m))), &t("honest/more-than-half"), true);
        // too few
        if k >= 1 {
            out.op(c.line(HH, HH, aidx as u32, ax, false, &keep(&mixed, &random_subset(rng, wz, k - 1))), &t("too-few"), true);
        }
        // permuted: two shares exchange their positions, proofs travel with them
        if wz >= 2 {
            for src in [&same, &mixed] {
                let i = rng.usize(0, wz - 1);
                let mut j = rng.usize(0, wz - 1);
                if i == j {
                    j = (j + 1) % wz;
                }
                let mut v = src.clone();
                v.swap(i, j);
                out.op(c.line(HH, HH, aidx as u32, ax, false, &v), &t("permuted/swap-two"), true);
            }
            // swap the two halves; rotate by one; reverse
            let mut v = same.clone();
            v.rotate_left(k);
            out.op(c.line(HH, HH, aidx as u32, ax, false, &v), &t("permuted/halves-exchanged"), true);
            let mut v = same.clone();
            v.rotate_left(1);
            out.op(c.line(HH, HH, aidx as u32, ax, false, &v), &t("permuted/rotated"), true);
            // permutation inside the parity half only, data half absent (DESIGN.md section 8 #2)
            if k >= 2 {
                let mut v = keep(&same, &par_half);
                v.swap(k, k + 1);
                out.op(c.line(HH, HH, aidx as u32, ax, false, &v), &t("permuted/parity-half-swap"), true);
            }
            // duplicated: one proven share (with its proof) also placed at another position
            let mut v = same.clone();
            let i = rng.usize(0, wz - 1);
            let j = (i + 1 + rng.usize(0, wz - 2)) % wz;
            v[j] = v[i].clone();
            out.op(c.line(HH, HH, aidx as u32, ax, false, &v), &t("duplicated"), true);
        }
        // substituted: share bytes replaced (proof kept), proof of another position, claimed namespace changed
        {
            let mut v = mixed.clone();
            let i = rng.usize(0, wz - 1);
            let p = NS_SIZE + rng.usize(64, SHARE - 1);
            v[i].data[p] ^= 1 << rng.below(8);
            out.op(c.line(HH, HH, aidx as u32, ax, false, &v), &t("substituted/share-bytes"), true);
            let mut v = mixed.clone();
            let i = rng.usize(0, wz - 1);
            let ns = if v[i].data[..NS_SIZE] == Namespace::PARITY_SHARE.as_bytes()[..] { Namespace::TAIL_PADDING } else { Namespace::PARITY_SHARE };
            v[i].data[..NS_SIZE].copy_from_slice(ns.as_bytes());
            out.op(c.line(HH, HH, aidx as u32, ax, false, &v), &t("substituted/claimed-namespace"), true);
            // shares of ANOTHER axis of the same square with their honest proofs
            let other = (aidx + 1) % w;
            let v: Vec<RawBefpShare> = (0..w).map(|i| honest_share(c.eds, axis, other, i, axis)).collect();
            out.op(c.line(HH, HH, aidx as u32, ax, false, &v), &t("substituted/other-axis-shares"), true);
            // proof-axis label flipped
            let mut v = same.clone();
            let i = rng.usize(0, wz - 1);
            v[i].proof_axis = 1 - v[i].proof_axis;
            out.op(c.line(HH, HH, aidx as u32, ax, false, &v), &t("substituted/proof-axis-label"), true);
        }
        // wrong height / index / axis
        out.op(c.line(HH + 1, HH, aidx as u32, ax, false, &mixed), &t("wrong/header-height"), true);
        out.op(c.line(HH, HH, w as u32, ax, false, &mixed), &t("wrong/index-eq-width"), true);
        out.op(c.line(HH, HH, ((aidx + 1) % w) as u32, ax, false, &same), &t("wrong/index-of-other-axis"), true);
        out.op(c.line(HH, HH, aidx as u32, 1 - ax, false, &same), &t("wrong/axis-flag"), true);
        let mut v = mixed.clone();
        v.pop();
        out.op(c.line(HH, HH, aidx as u32, ax, false, &v), &t("wrong/one-share-less"), true);
    }

    fn gen_square(&mut self, rng: &mut Rng, w: usize, out: &mut Emitter) {
        let w16 = w as u16;
        let k = w16 / 2;
        // an honest block: every axis class
        let (eds, _) = d_common::gen_eds(rng, w);
        let dah = DataAvailabilityHeader::from_eds(&eds);
        let c = Ctx { opname: self.opname, eds: &eds, dah: &dah };
        let classes: Vec<(AxisType, u16, &str)> = vec![
            (AxisType::Row, rng.below(k as u64) as u16, "honest-block/upper-row"),
            (AxisType::Row, k + rng.below(k as u64) as u16, "honest-block/lower-row"),
            (AxisType::Col, rng.below(k as u64) as u16, "honest-block/left-column"),
            (AxisType::Col, k + rng.below(k as u64) as u16, "honest-block/right-column"),
        ];
        for (axis, aidx, tag) in classes {
            self.gen_axis(rng, &c, axis, aidx, tag, out);
        }
        // a block with one corrupted axis (shape and namespaces kept, so that the square is well-formed)
        for (axis, lower) in [(AxisType::Row, false), (AxisType::Row, true), (AxisType::Col, false), (AxisType::Col, true)] {
            let aidx = if lower { k + rng.below(k as u64) as u16 } else { rng.below(k as u64) as u16 };
            let mut raw: Vec<Vec<u8>> = eds.data_square().iter().map(|s| s.to_vec()).collect();
            let n_bad = *rng.pick(&[1usize, w / 2, w / 2 + 1, w]);
            let mut pos: Vec<usize> = (0..w).collect();
            rng.shuffle(&mut pos);
            for &i in pos.iter().take(n_bad) {
                let (r, cc) = match axis {
                    AxisType::Row => (aidx as usize, i),
                    AxisType::Col => (i, aidx as usize),
                };
                let s = &mut raw[r * w + cc];
                let rnd = rng.bytes(SHARE - 64);
                s[64..].copy_from_slice(&rnd);
            }
            let Ok(ceds) = ExtendedDataSquare::new(raw, "Leopard".into(), d_common::app()) else { continue };
            let cdah = DataAvailabilityHeader::from_eds(&ceds);
            let cc = Ctx { opname: self.opname, eds: &ceds, dah: &cdah };
            let tag = match (axis, lower) {
                (AxisType::Row, false) => "corrupted/upper-row",
                (AxisType::Row, true) => "corrupted/lower-row",
                (AxisType::Col, false) => "corrupted/left-column",
                (AxisType::Col, true) => "corrupted/right-column",
            };
            self.gen_axis(rng, &cc, axis, aidx, tag, out);
            // an axis of the corrupted block that is itself intact: parallel to the corrupted one
            let other = if lower { k + (aidx - k + 1) % k } else { (aidx + 1) % k };
            if other != aidx {
                self.gen_axis(rng, &cc, axis, other, &format!("{tag}-block/intact-parallel-axis"), out);
            }
        }
    }
}

impl C07 {
    /// a DAH wider than the codec supports (512): only row `idx` is a real tree (512 parity leaves); the proof carries
    /// 256 shares of it with honest same-axis proofs.  Nothing can be re-encoded, so nothing may be "proven".
    fn gen_wide(&mut self, rng: &mut Rng, out: &mut Emitter) {
        let w = 512usize;
        // a lower row: all its leaves are parity leaves by position
        let idx = rng.usize(w / 2, w - 1);
        let leaves: Vec<Vec<u8>> = (0..w).map(|_| rng.bytes(SHARE)).collect();
        let mut nmt = Nmt::default();
        for l in &leaves {
            nmt.push_leaf(l, *Namespace::PARITY_SHARE).unwrap();
        }
        let root = nmt.root();
        let dummy = NamespacedHash::from_raw(&d_common::random_node(rng)).unwrap();
        let mut rows = vec![dummy.clone(); w];
        rows[idx] = root;
        let dah = DataAvailabilityHeader::new_unchecked(rows, vec![dummy; w]);
        let present = random_subset(rng, w, w / 2);
        let shares: Vec<RawBefpShare> = (0..w)
            .map(|i| {
                if !present[i] {
                    return absent();
                }
                let (share, proof) = nmt.get_index_with_proof(i);
                let proof: NamespaceProof = d_common::NmtNamespaceProof::PresenceProof { proof, ignore_max_ns: true }.into();
                let mut data = Namespace::PARITY_SHARE.as_bytes().to_vec();
                data.extend_from_slice(&share);
                RawBefpShare { data, proof: Some(proof.into()), proof_axis: 0 }
            })
            .collect();
        let mut l = format!(
            "{} hh={HH} {} height={HH} index={idx} axis=0 axisdata={} rec=- par=-",
            self.opname,
            roots_fields(&dah),
            hxl(&leaves)
        );
        for s in &shares {
            l.push(' ');
            l.push_str(&share_word(s));
        }
        out.op(l, "wider-than-codec/half-proven", true);
    }
}

/// S9: a hand-built "committed square" of ANY width (odd ones too): row-major shares; row and column trees built with
/// the protocol's leaf-namespace rule (first quadrant: the share's own namespace; elsewhere the parity namespace)
struct Grid {
    w: usize,
    shares: Vec<Vec<u8>>,
    /// S9: the block producer committed the first-quadrant leaves under THIS namespace although the shares' own first
    /// 29 bytes are something else (not even a valid namespace): the trees verify, the rule of the protocol is broken
    forged: Option<Namespace>,
}

impl Grid {
    fn random(rng: &mut Rng, w: usize) -> Grid {
        let k = w / 2;
        // first quadrant: ONE namespace for all its shares (any order of rows/columns is then sorted)
        let ns = d_common::user_ns(rng);
        let shares = (0..w * w)
            .map(|p| {
                let (r, c) = (p / w, p % w);
                if r < k && c < k {
                    let mut s = ns.as_bytes().to_vec();
                    s.extend(rng.bytes(SHARE - NS_SIZE));
                    s
                } else {
                    rng.bytes(SHARE)
                }
            })
            .collect();
        Grid { w, shares, forged: None }
    }
    /// first-quadrant shares that start with 29 bytes that are NOT a namespace (unsupported version / version 0 with a
    /// non-zero prefix), committed under a valid namespace; row `cw` (if any) is a Reed-Solomon codeword of the real codec
    fn forged(rng: &mut Rng, w: usize, cw: Option<usize>) -> Grid {
        let mut g = Grid::random(rng, w);
        let k = w / 2;
        g.forged = Some(d_common::user_ns(rng));
        for r in 0..k {
            for c in 0..k {
                let bad: Vec<u8> = if rng.bool() {
                    let mut v = vec![rng.range(1, 254) as u8];
                    v.extend(rng.bytes(NS_SIZE - 1));
                    v
                } else {
                    let mut v = vec![0u8, 0xAA];
                    v.extend(rng.bytes(NS_SIZE - 2));
                    v
                };
                g.shares[r * w + c][..NS_SIZE].copy_from_slice(&bad);
            }
        }
        if let Some(r) = cw {
            let row: Vec<Vec<u8>> = (0..w).map(|c| g.at(r, c).clone()).collect();
            if let Some(par) = encode_first_half(&row) {
                for (j, p) in par.into_iter().enumerate() {
                    g.shares[r * w + k + j] = p;
                }
            }
        }
        g
    }
    fn at(&self, r: usize, c: usize) -> &Vec<u8> {
        &self.shares[r * self.w + c]
    }
    fn ns_at(&self, r: usize, c: usize) -> Namespace {
        let k = self.w / 2;
        if r < k && c < k {
            self.forged.unwrap_or_else(|| Namespace::from_raw(&self.at(r, c)[..NS_SIZE]).unwrap())
        } else {
            Namespace::PARITY_SHARE
        }
    }
    fn pos(axis: AxisType, aidx: usize, i: usize) -> (usize, usize) {
        match axis {
            AxisType::Row => (aidx, i),
            AxisType::Col => (i, aidx),
        }
    }
    fn axis(&self, axis: AxisType, aidx: usize) -> Vec<Vec<u8>> {
        (0..self.w).map(|i| { let (r, c) = Self::pos(axis, aidx, i); self.at(r, c).clone() }).collect()
    }
    fn nmt(&self, axis: AxisType, aidx: usize) -> Nmt {
        let mut t = Nmt::default();
        for i in 0..self.w {
            let (r, c) = Self::pos(axis, aidx, i);
            t.push_leaf(self.at(r, c), *self.ns_at(r, c)).unwrap();
        }
        t
    }
    fn dah(&self) -> DataAvailabilityHeader {
        let rows = (0..self.w).map(|r| self.nmt(AxisType::Row, r).root()).collect();
        let cols = (0..self.w).map(|c| self.nmt(AxisType::Col, c).root()).collect();
        DataAvailabilityHeader::new_unchecked(rows, cols)
    }
    /// the honest share-with-proof of position `i` on axis `(axis, aidx)`, proven along `paxis`
    fn share(&self, axis: AxisType, aidx: usize, i: usize, paxis: AxisType) -> RawBefpShare {
        let (r, c) = Self::pos(axis, aidx, i);
        let (mut nmt, idx) = match paxis {
            AxisType::Row => (self.nmt(AxisType::Row, r), c),
            AxisType::Col => (self.nmt(AxisType::Col, c), r),
        };
        let (share, proof) = nmt.get_index_with_proof(idx);
        let proof: NamespaceProof = d_common::NmtNamespaceProof::PresenceProof { proof, ignore_max_ns: true }.into();
        let mut data = self.ns_at(r, c).as_bytes().to_vec();
        data.extend_from_slice(&share);
        RawBefpShare { data, proof: Some(proof.into()), proof_axis: paxis as i32 }
    }
    fn line(&self, opname: &str, dah: &DataAvailabilityHeader, index: usize, axis: AxisType, shares: &[RawBefpShare]) -> String {
        let rebuilt: Vec<Vec<u8>> = shares
            .iter()
            .map(|s| if s.proof.is_some() && s.data.len() == SHARE + NS_SIZE { s.data[NS_SIZE..].to_vec() } else { vec![] })
            .collect();
        let (rec, par) = codec_oracle(&rebuilt, self.w / 2);
        let mut l = format!(
            "{opname} hh={HH} {} height={HH} index={index} axis={} axisdata={} rec={rec} par={par}",
            roots_fields(dah),
            axis as i32,
            hxl(&self.axis(axis, index)),
        );
        if self.forged.is_some() {
            // ground truth: the namespaces the axis leaves were COMMITTED under
            let nss: Vec<Vec<u8>> =
                (0..self.w).map(|i| { let (r, c) = Self::pos(axis, index, i); self.ns_at(r, c).as_bytes().to_vec() }).collect();
            l.push_str(&format!(" axisns={}", hxl(&nss)));
        }
        for s in shares {
            l.push(' ');
            l.push_str(&share_word(s));
        }
        l
    }
}

impl C07 {
    /// S9 (byzantine.rs:191): the original data reconstructed from PROVEN shares does not carry a valid namespace: the
    /// first-quadrant leaves were committed under a valid namespace that is not the shares' own first 29 bytes (which are
    /// no namespace at all).  Proofs verify, the codec reconstructs and re-encodes, `Namespace::from_raw` fails on leaf 0:
    /// "befp is legit".  Such an axis is not "a codeword consistent with its root" even when it is a codeword (`cw`).
    fn gen_forged_ns(&mut self, rng: &mut Rng, w: usize, out: &mut Emitter) {
        let k = w / 2;
        for codeword in [false, true] {
            let r = rng.usize(0, k - 1);
            let g = Grid::forged(rng, w, codeword.then_some(r));
            let dah = g.dah();
            let base = if codeword { "forged-leaf-namespace/codeword-row" } else { "forged-leaf-namespace/random-row" };
            // the upper row (original data in its first half), a left column (same), and a lower row (parity leaves only:
            // the forged quadrant is not on it, the usual verdicts apply)
            for (axis, aidx, tag) in [
                (AxisType::Row, r, "upper-row"),
                (AxisType::Col, rng.usize(0, k - 1), "left-column"),
                (AxisType::Row, k + rng.usize(0, k - 1), "lower-row"),
            ] {
                let other = if axis == AxisType::Row { AxisType::Col } else { AxisType::Row };
                let same: Vec<RawBefpShare> = (0..w).map(|i| g.share(axis, aidx, i, axis)).collect();
                let orth: Vec<RawBefpShare> = (0..w).map(|i| g.share(axis, aidx, i, other)).collect();
                let keep = |all: &[RawBefpShare], mask: &[bool]| -> Vec<RawBefpShare> {
                    all.iter().zip(mask.iter()).map(|(s, m)| if *m { s.clone() } else { absent() }).collect()
                };
                let t = |x: &str| format!("{base}/{tag}/{x}");
                out.op(g.line(self.opname, &dah, aidx, axis, &same), &t("all-same-axis"), true);
                out.op(g.line(self.opname, &dah, aidx, axis, &orth), &t("all-orthogonal-axis"), true);
                let par_half: Vec<bool> = (0..w).map(|i| i >= k).collect();
                out.op(g.line(self.opname, &dah, aidx, axis, &keep(&same, &par_half)), &t("parity-half"), true);
                out.op(g.line(self.opname, &dah, aidx, axis, &keep(&orth, &random_subset(rng, w, k))), &t("half-random"), true);
                // the shares claim their OWN (invalid) first bytes as namespace: not decodable as a proof at all
                let mut v = same.clone();
                let own = g.at(Grid::pos(axis, aidx, 0).0, Grid::pos(axis, aidx, 0).1)[..NS_SIZE].to_vec();
                v[0].data[..NS_SIZE].copy_from_slice(&own);
                out.op(g.line(self.opname, &dah, aidx, axis, &v), &t("claims-own-invalid-namespace"), true);
            }
        }
    }

    /// S9 (byzantine.rs:164): a DAH of ODD width passes `ExtendedHeader::validate` (`dah.validate_basic` only bounds the
    /// width; C01 tag `ok/dah-odd-width`).  With `ods_width = w / 2` the axis has more parity than data shards, so
    /// `leopard_codec::reconstruct` refuses although enough shares are proven: "befp is legit", `Ok(())`.  No axis of
    /// odd length is a codeword, so the verdict is the sound one; an honest proof must validate.
    fn gen_odd(&mut self, rng: &mut Rng, w: usize, out: &mut Emitter) {
        let g = Grid::random(rng, w);
        let dah = g.dah();
        let k = w / 2;
        for (axis, aidx, tag) in [
            (AxisType::Row, 0usize, "odd-width/first-row"),
            (AxisType::Row, w - 1, "odd-width/last-row"),
            (AxisType::Col, 0, "odd-width/first-column"),
            (AxisType::Col, w - 1, "odd-width/last-column"),
        ] {
            let other = if axis == AxisType::Row { AxisType::Col } else { AxisType::Row };
            let same: Vec<RawBefpShare> = (0..w).map(|i| g.share(axis, aidx, i, axis)).collect();
            let orth: Vec<RawBefpShare> = (0..w).map(|i| g.share(axis, aidx, i, other)).collect();
            let keep = |all: &[RawBefpShare], mask: &[bool]| -> Vec<RawBefpShare> {
                all.iter().zip(mask.iter()).map(|(s, m)| if *m { s.clone() } else { absent() }).collect()
            };
            let t = |s: &str| format!("{tag}/{s}");
            out.op(g.line(self.opname, &dah, aidx, axis, &same), &t("honest/all-same-axis"), true);
            out.op(g.line(self.opname, &dah, aidx, axis, &orth), &t("honest/all-orthogonal-axis"), true);
            out.op(g.line(self.opname, &dah, aidx, axis, &keep(&same, &random_subset(rng, w, k))), &t("honest/floor-half"), true);
            out.op(g.line(self.opname, &dah, aidx, axis, &keep(&orth, &random_subset(rng, w, k + 1))), &t("honest/ceil-half"), true);
            out.op(g.line(self.opname, &dah, aidx, axis, &keep(&same, &random_subset(rng, w, k - 1))), &t("too-few"), true);
            let mut v = same.clone();
            v.swap(0, w - 1);
            out.op(g.line(self.opname, &dah, aidx, axis, &v), &t("permuted/swap-two"), true);
            let mut v = same.clone();
            let p = NS_SIZE + rng.usize(64, SHARE - 1);
            v[w / 2].data[p] ^= 1;
            out.op(g.line(self.opname, &dah, aidx, axis, &v), &t("substituted/share-bytes"), true);
        }
    }

    /// S9 (byzantine.rs:64): `validate` re-checks rows = columns of the DAH itself ("shouldn't ever happen as header
    /// should be validated before"): an honest proof against a header whose DAH lost / gained a row or column root
    fn gen_rows_ne_cols(&mut self, rng: &mut Rng, w: usize, out: &mut Emitter) {
        let (eds, _) = d_common::gen_eds(rng, w);
        let dah = DataAvailabilityHeader::from_eds(&eds);
        let rows = dah.row_roots().to_vec();
        let cols = dah.column_roots().to_vec();
        let extra = NamespacedHash::from_raw(&d_common::random_node(rng)).unwrap();
        let variants: Vec<(Vec<NamespacedHash>, Vec<NamespacedHash>, &str)> = vec![
            (rows.clone(), cols[..w - 1].to_vec(), "dah-rows-ne-cols/one-column-root-less"),
            (rows.clone(), [cols.clone(), vec![extra.clone()]].concat(), "dah-rows-ne-cols/one-column-root-more"),
            (rows[..w - 1].to_vec(), cols.clone(), "dah-rows-ne-cols/one-row-root-less"),
            ([rows.clone(), vec![extra]].concat(), cols.clone(), "dah-rows-ne-cols/one-row-root-more"),
            (rows.clone(), vec![], "dah-rows-ne-cols/no-column-roots"),
        ];
        for (r, c, tag) in variants {
            let bad = DataAvailabilityHeader::new_unchecked(r, c);
            let cx = Ctx { opname: self.opname, eds: &eds, dah: &bad };
            for (axis, aidx) in [(AxisType::Row, 0u16), (AxisType::Col, (w / 2) as u16)] {
                // the line's ground truth (`axisdata`) must be an axis the header still commits to
                let has_root = match axis {
                    AxisType::Row => bad.row_root(aidx).is_some(),
                    AxisType::Col => bad.column_root(aidx).is_some(),
                };
                if !has_root {
                    continue;
                }
                let same: Vec<RawBefpShare> = (0..w as u16).map(|i| honest_share(&eds, axis, aidx, i, axis)).collect();
                out.op(cx.line(HH, HH, aidx as u32, axis as i32, false, &same), tag, true);
            }
        }
    }
}

impl Prop for C07 {
    fn id(&self) -> &'static str {
        "C07"
    }
    fn rule(&self) -> &'static str {
        "squares of width 2,4,8,16(,32) from the real codec: the honest block and blocks with one corrupted row/column (1, k, k+1 or \
         all shares of it altered; upper/lower rows, left/right columns), DAH = from_eds of that block.  For every axis class: honest \
         proofs (all shares with mixed / same / orthogonal proof axes, exactly half at random, parity half, data half, more than half), \
         too few shares, permuted shares with their proofs (swap two, halves exchanged, rotated, swap inside the parity half), a \
         duplicated proven share, substituted share bytes / claimed namespace / shares of another axis / proof-axis label, wrong header \
         height, index, axis flag, share count.  Every line carries the ground truth about the committed axis, the real codec's parity \
         of its first half, and what the real reconstruct/encode return on the rebuilt axis.  S9: hand-built squares of ODD width 3, 5(, 7, 9) \
         (more parity than data shards: the codec refuses to reconstruct although enough shares are proven; honest all / floor-half / \
         ceil-half, too few, swapped, substituted), an honest proof against a DAH that lost / gained a row or column root, and squares \
         whose first-quadrant leaves were committed under a valid namespace that is not the shares' own (invalid) first 29 bytes \
         (`axisns=`; random row and codeword row).  \
         Non-trivial = every op; distinct = \
         distinct (op, result) lines."
    }
    fn gen_ops(&mut self, rng: &mut Rng, tier: Tier, out: &mut Emitter) {
        let plan: &[(usize, usize)] = if tier == Tier::Thorough { &[(2, 6), (4, 6), (8, 4), (16, 2), (32, 1)] } else { &[(2, 2), (4, 2), (8, 1), (16, 1)] };
        for &(w, n) in plan {
            for _ in 0..n {
                self.gen_square(rng, w, out);
            }
        }
        self.gen_wide(rng, out);
        // S9: the early exits of `validate` the squares above never reach
        for &w in if tier == Tier::Thorough { &[3usize, 5, 7, 9][..] } else { &[3usize, 5][..] } {
            self.gen_odd(rng, w, out);
        }
        self.gen_rows_ne_cols(rng, 4, out);
        for &w in if tier == Tier::Thorough { &[2usize, 4, 8, 16][..] } else { &[4usize, 8][..] } {
            self.gen_forged_ns(rng, w, out);
        }
    }
    fn run(&mut self, line: &str) -> String {
        match opname(line) {
            "reset" => "ok".into(),
            "validate" | "validate_u" => {
                let (Some(hh), Some(dah), Some(height), Some(index), Some(axis)) = (
                    arg_u64(line, "hh"),
                    dah_from_line(line),
                    arg_u64(line, "height"),
                    arg_u64(line, "index"),
                    arg(line, "axis").and_then(|a| a.parse::<i32>().ok()),
                ) else {
                    return "bad-op".into();
                };
                let Some(shares) = all_args(line, "sh").into_iter().map(share_unword).collect::<Option<Vec<_>>>() else {
                    return "bad-op".into();
                };
                let raw = RawBefp { header_hash: vec![0u8; 32], height, shares, index: index as u32, axis };
                let Ok(h) = tendermint::block::Height::try_from(hh) else { return "bad-op".into() };
                let mut header = ExtendedHeaderGenerator::new_from_height(HH).next();
                header.header.height = h;
                header.dah = dah;
                match BadEncodingFraudProof::try_from(raw) {
                    Err(_) => "err-decode".into(),
                    Ok(p) => match p.validate(&header) {
                        Ok(()) => "ok".into(),
                        Err(e) => format!("err {}", d_common::err_kind(&e)),
                    },
                }
            }
            _ => "bad-op".into(),
        }
    }
    /// ground truth that does not come from the generator: recomputed from the line on EVERY run (also corpus / replay):
    /// `<honest 0|1>/<the real codec's parity of the first half of axisdata>`
    fn observed(&mut self, line: &str) -> Option<String> {
        if !matches!(opname(line), "validate" | "validate_u") {
            return None;
        }
        let axisdata: Option<Vec<Vec<u8>>> = arg(line, "axisdata").filter(|a| *a != "none").and_then(unhxl);
        let axpar = axisdata
            .as_ref()
            .filter(|d| !d.is_empty() && d.len() % 2 == 0 && d.len() <= 256 && d.iter().all(|s| s.len() == SHARE))
            .and_then(|d| encode_first_half(d))
            .map(|p| hxl(&p))
            .unwrap_or_else(|| "-".into());
        let honest = honest_proof(line, axisdata.as_deref()).unwrap_or(false);
        Some(format!("{}/{}", honest as u8, axpar))
    }
    fn result_tag(&self, _line: &str, result: &str) -> Option<String> {
        Some(result.split(' ').take(2).collect::<Vec<_>>().join(" "))
    }
}

fn main() {
    let opname = if std::env::var_os("C07_UNFIXED").is_some() { "validate_u" } else { "validate" };
    main_for(C07 { opname });
}

//! C19 — header stores (shared history harness in ../shared/store_hist.rs).
#[path = "../shared/store_hist.rs"]
mod store_hist;

use store_hist::*;
use verif_harness::*;

struct P(Hist);

impl Prop for P {
    fn id(&self) -> &'static str {
        "C19"
    }
    fn rule(&self) -> &'static str {
        "random histories on a pool of real headers (main chain + forks + same-height siblings + unvalidated mutants with a repeated hash / foreign validator set / altered height): valid placements (empty store, append head, new head with gap, extend left/right, gap fills), invalid batches (overlap, no neighbour, hole, reversed, substituted/repeated header, mutants, failing seams), removals (tail/middle/head/absent), sampling marks and metadata updates with repeated CIDs, all Store queries incl. get_range with every bound form; the SAME line is run on InMemoryStore and RedbStore::in_memory() and the full observable state of both is dumped after every mutating op. Non-trivial = every op except reset/dump; distinct = distinct (op, result) lines."
    }
    fn gen_ops(&mut self, rng: &mut Rng, tier: Tier, out: &mut Emitter) {
        let mk = |histories, max_ops, max_chain, max_batch| GenCfg {
            histories, max_ops, max_chain, max_batch,
            dup_pct: 15, invalid_pct: 35, remove_w: 35, query_w: 25, sample_w: 30,
        };
        if tier == Tier::Thorough {
            // many medium histories, plus a few at the scale the property names
            // (chains of ~200 headers, a few hundred operations)
            gen_all(&mut self.0, rng, &mk(80, 250, 100, 32), out);
            gen_all(&mut self.0, rng, &mk(6, 400, 200, 64), out);
        } else {
            gen_all(&mut self.0, rng, &mk(30, 50, 20, 8), out);
            gen_all(&mut self.0, rng, &mk(1, 120, 60, 16), out);
        }
    }
    fn run(&mut self, line: &str) -> String {
        self.0.run(line)
    }
    fn result_tag(&self, line: &str, result: &str) -> Option<String> {
        // histogram of the in-memory store's result kind per op
        let r = result.strip_prefix("mem ").unwrap_or(result);
        let _ = line;
        Some(r.split(' ').next().unwrap_or("").to_string())
    }
}

fn main() {
    main_for(P(Hist::new(Mode::C19)));
}

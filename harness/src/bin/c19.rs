//! C19 — header stores (shared history harness in ../shared/store_hist.rs).
#[path = "../shared/store_hist.rs"]
mod store_hist;

use store_hist::*;
use verif_harness::*;

struct P(Hist);

impl Prop for P {
    fn id(&self) -> &'static str {
        "C19"
    }
    fn rule(&self) -> &'static str {
        "random histories on a pool of real headers (main chain + forks + same-height siblings + unvalidated mutants with a repeated hash / foreign validator set / altered height): valid placements (empty store, append head, new head with gap, extend left/right, gap fills), invalid batches (overlap, no neighbour, hole, reversed, substituted/repeated header, mutants, failing seams), removals (tail/middle/head/absent), sampling marks and metadata updates with repeated CIDs, all Store queries incl. get_range with every bound form; the SAME line is run on InMemoryStore and RedbStore::in_memory() and the full observable state of both is dumped after every mutating op. Non-trivial = every op except reset/dump; distinct = distinct (op, result) lines. S10 size-threshold stress (both tiers, after the random histories; store_hist::big_cfgs): big histories on long chains — stores driven to >= 9/17/33 (thorough 65/129/257) disjoint ranges (one tag thr/ranges-N per threshold crossing), batches of exactly 63/64/65 and one of 511/512/513 headers (thorough: 7..9, 15..17, 31..33, 63..65, 127..129, 511..513 and one 2100+ batch on a 2300-header chain) as new heads, merged by one-height gap fills, split by middle removals, rejected overlapping / duplicate-hash batches of threshold size, sampling-metadata lists of 9/17/33/65 (thorough 129/257) CIDs with repeats, then the usual random mix on the large state."
    }
    fn gen_ops(&mut self, rng: &mut Rng, tier: Tier, out: &mut Emitter) {
        let mk = |histories, max_ops, max_chain, max_batch| GenCfg {
            histories, max_ops, max_chain, max_batch,
            dup_pct: 15, invalid_pct: 35, remove_w: 35, query_w: 25, sample_w: 30,
        };
        if tier == Tier::Thorough {
            // many medium histories, plus a few at the scale the property names
            // (chains of ~200 headers, a few hundred operations)
            gen_all(&mut self.0, rng, &mk(80, 250, 100, 32), out);
            gen_all(&mut self.0, rng, &mk(6, 400, 200, 64), out);
            // S10 size-threshold stress (sizes: store_hist::big_cfgs)
            let bigs = big_cfgs(rng, true);
            gen_big(&mut self.0, rng, &mk(1, 0, 0, 32), &bigs, out);
        } else {
            gen_all(&mut self.0, rng, &mk(30, 50, 20, 8), out);
            gen_all(&mut self.0, rng, &mk(1, 120, 60, 16), out);
            // S10 size-threshold stress (sizes: store_hist::big_cfgs)
            let bigs = big_cfgs(rng, false);
            gen_big(&mut self.0, rng, &mk(1, 0, 0, 16), &bigs, out);
        }
    }
    fn run(&mut self, line: &str) -> String {
        self.0.run(line)
    }
    fn result_tag(&self, line: &str, result: &str) -> Option<String> {
        // histogram of the in-memory store's result kind per op
        let r = result.strip_prefix("mem ").unwrap_or(result);
        let _ = line;
        Some(r.split(' ').next().unwrap_or("").to_string())
    }
}

fn main() {
    main_for(P(Hist::new(Mode::C19)));
}

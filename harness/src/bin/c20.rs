//! C20 — header stores (shared history harness in ../shared/store_hist.rs).
#[path = "../shared/store_hist.rs"]
mod store_hist;

use store_hist::*;
use verif_harness::*;

struct P(Hist);

impl Prop for P {
    fn id(&self) -> &'static str {
        "C20"
    }
    fn rule(&self) -> &'static str {
        "as C19 but biased to rejected operations: invalid batches of every error kind (constraints Invalid/Overlap/NoAdjacent, neighbour verification, header verification at every batch position, duplicate hash at every batch position incl. duplicates inside the batch), removals/marks/metadata on absent heights; for every failed op the full observable state BEFORE and AFTER the op is dumped for both stores. Non-trivial = every op except reset/dump."
    }
    fn gen_ops(&mut self, rng: &mut Rng, tier: Tier, out: &mut Emitter) {
        let cfg = if tier == Tier::Thorough {
            GenCfg { histories: 150, max_ops: 300, max_chain: 120, max_batch: 48, invalid_pct: 65, remove_w: 30, query_w: 5, sample_w: 25 }
        } else {
            GenCfg { histories: 40, max_ops: 60, max_chain: 24, max_batch: 8, invalid_pct: 65, remove_w: 30, query_w: 5, sample_w: 25 }
        };
        gen_all(&mut self.0, rng, &cfg, out);
    }
    fn run(&mut self, line: &str) -> String {
        self.0.run(line)
    }
    fn result_tag(&self, line: &str, result: &str) -> Option<String> {
        // histogram of the in-memory store's result kind per op
        let r = result.strip_prefix("mem ").unwrap_or(result);
        let _ = line;
        Some(r.split(' ').next().unwrap_or("").to_string())
    }
}

fn main() {
    main_for(P(Hist::new(Mode::C20)));
}

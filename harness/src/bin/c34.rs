//! C34 — data sampling respects concurrency limits and recency order
//! (shared rig in ../shared/daser_rig.rs: the real Daser worker on a harness-owned P2p / store).
#[path = "../shared/daser_rig.rs"]
mod daser_rig;

use daser_rig::*;
use verif_harness::*;

struct P(Rig);

impl Prop for P {
    fn id(&self) -> &'static str {
        "C34"
    }
    fn rule(&self) -> &'static str {
        "episodes on the real Daser worker (Daser::start -> Worker::run) with concurrency limit 0..6 and head allowance 0..5 over a chain of 3..N real headers (widths mostly 2, some 1..64; a prefix of the chain two sampling windows old): random store inserts (append, new head after a gap, fills, invalid ones), pruner commands (want_to_prune incl. height 0, highest-prunable and backlog reports around 512), granted and rogue removals, reconnections, and network answers (success / timeout) to arbitrary pending requests in arbitrary order; the result line is the worker's complete observable action trace for the stimulus. Non-trivial = every op except reset; distinct = distinct (op, observed choice, result) lines."
    }
    fn gen_ops(&mut self, rng: &mut Rng, tier: Tier, out: &mut Emitter) {
        let cfg = if tier == Tier::Thorough {
            GenCfg { episodes: 400, max_ops: 160, max_chain: 60, c34_bias: true, ridx_widths: vec![] }
        } else {
            GenCfg { episodes: 40, max_ops: 80, max_chain: 30, c34_bias: true, ridx_widths: vec![] }
        };
        gen_all(rng, &cfg, out);
    }
    fn run(&mut self, line: &str) -> String {
        self.0.run(line)
    }
    fn observed(&mut self, line: &str) -> Option<String> {
        if opname(line) == "reset" { None } else { self.0.observed() }
    }
    fn result_tag(&self, _line: &str, result: &str) -> Option<String> {
        // which kinds of actions the stimulus caused
        let mut kinds: Vec<&str> = result.split(' ').map(|t| t.split(':').next().unwrap_or("")).collect();
        kinds.dedup();
        Some(kinds.join("+"))
    }
}

fn main() {
    main_for(P(Rig::new()));
}

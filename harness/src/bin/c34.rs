//! C34 — data sampling respects concurrency limits and recency order
//! (shared rig in ../shared/daser_rig.rs: the real Daser worker on a harness-owned P2p / store).
#[path = "../shared/daser_rig.rs"]
mod daser_rig;

use daser_rig::*;
use verif_harness::*;

struct P(Rig);

impl Prop for P {
    fn id(&self) -> &'static str {
        "C34"
    }
    fn rule(&self) -> &'static str {
        "episodes on the real Daser worker (Daser::start -> Worker::run) with concurrency limit 0..6 and head allowance 0..5 over a chain of 3..N real headers (widths mostly 2, some 1..64; a prefix of the chain two sampling windows old): random store inserts (append, new head after a gap, fills, invalid ones), pruner commands (want_to_prune incl. height 0, highest-prunable and backlog reports around 512), granted and rogue removals, reconnections, and network answers (success / timeout) to arbitrary pending requests in arbitrary order; the result line is the worker's complete observable action trace for the stimulus. Size-threshold episodes (S10, tags big/.., thr/..): concurrency limits 7, 8, 9, 16, 17, 32, 33, 63, 64, 65 (C33 quick: 8, 9, 17, 33, 64, 65; thorough also 10, 15, 31, 127, 128, 129) with head allowance 0/1/2/5 really reached (that many blocks in progress at once, up to 129 started by one stimulus) over chains pre-filled in one range or in many 1..3-block ranges, new heads arriving one by one on top, pruner backlog reports 511/512/513 crossing the threshold in both directions, pruner questions, a disconnect with everything in progress, and the chain drained; long queues of 65/129/513 blocks (thorough 65..1025, contiguous and in many ranges) under limit 1..3; one block each of square widths 3,4,5,7,8,9,15,16,17,31,32,33,63,64,65,127,128,129 (thorough also 2, 255, 256) sampled to the end with timeouts. Non-trivial = every op except reset; distinct = distinct (op, observed choice, result) lines."
    }
    fn gen_ops(&mut self, rng: &mut Rng, tier: Tier, out: &mut Emitter) {
        let cfg = if tier == Tier::Thorough {
            GenCfg { episodes: 400, max_ops: 160, max_chain: 60, c34_bias: true, ridx_widths: vec![], thorough: true }
        } else {
            GenCfg { episodes: 40, max_ops: 80, max_chain: 30, c34_bias: true, ridx_widths: vec![], thorough: false }
        };
        gen_all(rng, &cfg, out);
    }
    fn run(&mut self, line: &str) -> String {
        self.0.run(line)
    }
    fn observed(&mut self, line: &str) -> Option<String> {
        if opname(line) == "reset" { None } else { self.0.observed() }
    }
    fn result_tag(&self, _line: &str, result: &str) -> Option<String> {
        // which kinds of actions the stimulus caused
        let mut kinds: Vec<&str> = result.split(' ').map(|t| t.split(':').next().unwrap_or("")).collect();
        kinds.dedup();
        Some(kinds.join("+"))
    }
}

fn main() {
    main_for(P(Rig::new()));
}

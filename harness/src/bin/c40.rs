//! C40 — Shrex peer pools contain only peers that announced the right data.
//!
//! Drives the real `PoolTracker` over a real `InMemoryStore`: ShrEx/Sub notifications, headers reaching
//! the store (the tracker's own `wait_height` tasks complete), injected task timeouts / store errors
//! (hook), peer removals, single `poll` calls with a no-op waker, and `get_pool` queries.  After every op
//! the complete tracker state is dumped through the hook.
use std::collections::{BTreeSet, HashMap};
use std::sync::Arc;
use std::task::Context;

use celestia_types::ExtendedHeader;
use celestia_types::hash::Hash;
use celestia_types::test_utils::ExtendedHeaderGenerator;
use libp2p::PeerId;
use lumina_node::store::{InMemoryStore, Store};
use lumina_node::verif::p2p::shrex::pool_tracker as pt;
use verif_harness::*;

/// heights the ORIGINAL random phases stay below
const CHAIN: u64 = 120;
/// length of the generated header chains (S10: the many-heights phases go up to ~1050 pending heights)
const CHAIN_GEN: u64 = 1100;
const N_PEERS: usize = 6;
/// number of distinct peer ids the harness can name (S10: up to 1025 announcers of one height)
const N_IDS: usize = 1100;

struct C40 {
    rt: tokio::runtime::Runtime,
    /// chain[0]: all data hashes distinct; chain[1]: heights 2k and 2k+1 share a data hash
    chains: [Vec<ExtendedHeader>; 2],
    dup: usize,
    peers: Vec<PeerId>,
    pidx: HashMap<PeerId, usize>,
    store: Arc<InMemoryStore>,
    tracker: pt::Tracker<InMemoryStore>,
    codes: HashMap<Hash, u64>,
}

fn fake_hash(x: u64) -> Hash {
    Hash::Sha256([x as u8; 32])
}

fn chain_code(dup: usize, h: u64) -> u64 {
    if dup == 1 { 1000 + h / 2 * 2 } else { 1000 + h }
}

impl C40 {
    fn new() -> Self {
        let rt = tokio::runtime::Builder::new_current_thread().enable_all().build().unwrap();
        let plain = ExtendedHeaderGenerator::new().next_many(CHAIN_GEN);
        let mut g = ExtendedHeaderGenerator::new();
        let mut dupc: Vec<ExtendedHeader> = vec![];
        for h in 1..=CHAIN_GEN {
            let hd = if h % 2 == 1 && h > 1 { g.next_with_dah(dupc[(h - 2) as usize].dah.clone()) } else { g.next() };
            dupc.push(hd);
        }
        let store = Arc::new(InMemoryStore::new());
        let tracker = {
            let _g = rt.enter();
            pt::Tracker::new(store.clone())
        };
        let peers: Vec<PeerId> = (0..N_IDS).map(|_| PeerId::random()).collect();
        let pidx = peers.iter().enumerate().map(|(i, p)| (*p, i)).collect();
        let mut me = C40 {
            rt,
            chains: [plain, dupc],
            dup: 0,
            peers,
            pidx,
            store,
            tracker,
            codes: HashMap::new(),
        };
        me.rebuild_codes();
        me
    }
    fn rebuild_codes(&mut self) {
        self.codes.clear();
        for x in 1..=9 {
            self.codes.insert(fake_hash(x), x);
        }
        for h in 1..=CHAIN_GEN {
            let dh = self.chains[self.dup][(h - 1) as usize].header.data_hash.unwrap();
            self.codes.entry(dh).or_insert(chain_code(self.dup, h));
        }
    }
    fn header(&self, h: u64) -> ExtendedHeader {
        self.chains[self.dup][(h - 1) as usize].clone()
    }
    fn hash_of_code(&self, x: u64) -> Hash {
        if x < 1000 { fake_hash(x) } else { self.header((x - 1000).max(1)).header.data_hash.unwrap() }
    }
    fn code(&self, h: &Hash) -> u64 {
        *self.codes.get(h).unwrap_or(&99999)
    }
    fn pidx(&self, p: &PeerId) -> usize {
        *self.pidx.get(p).expect("known peer")
    }
    fn peers_str(&self, ps: &[PeerId], sort: bool) -> String {
        let mut v: Vec<usize> = ps.iter().map(|p| self.pidx(p)).collect();
        if sort {
            v.sort();
        }
        if v.is_empty() { "-".into() } else { v.iter().map(|x| x.to_string()).collect::<Vec<_>>().join("+") }
    }
    fn ev_str(&self, ev: &pt::VEvent) -> String {
        match ev {
            pt::VEvent::AddPeers(ps) => format!("A{}", self.peers_str(ps, false)),
            pt::VEvent::BlockPeers(ps) => format!("B{}", self.peers_str(ps, true)),
            pt::VEvent::Other => "other".into(),
        }
    }
    fn poll_once(&mut self) -> pt::VPoll {
        let _g = self.rt.enter();
        let waker = futures::task::noop_waker();
        let mut cx = Context::from_waker(&waker);
        pt::poll(&mut self.tracker, &mut cx)
    }
    fn state(&self) -> String {
        let d = pt::dump(&self.tracker);
        let mut pools = d.hash_pools.clone();
        pools.sort_by_key(|(h, _)| *h);
        let pools: Vec<String> = pools
            .iter()
            .map(|(h, p)| match p {
                pt::VPool::Candidates { voted, candidates } => {
                    let mut cs: Vec<(u64, String)> =
                        candidates.iter().map(|(k, v)| (self.code(k), self.peers_str(v, false))).collect();
                    cs.sort();
                    let cs: Vec<String> = cs.iter().map(|(k, v)| format!("{k}>{v}")).collect();
                    format!("{h}:C[{};{}]", self.peers_str(voted, true), if cs.is_empty() { "-".to_string() } else { cs.join(",") })
                }
                pt::VPool::Validated(x) => format!("{h}:V[{}]", self.code(x)),
            })
            .collect();
        let mut vp: Vec<(u64, String)> =
            d.validated_pools.iter().map(|(k, v)| (self.code(k), self.peers_str(v, false))).collect();
        vp.sort();
        let vp: Vec<String> = vp.iter().map(|(k, v)| format!("{k}>{v}")).collect();
        let evs: Vec<String> = d.pending_events.iter().map(|e| self.ev_str(e)).collect();
        format!(
            "head={} pools={} vp={} ev={}",
            d.subjective_head.map(|h| h.to_string()).unwrap_or("none".into()),
            if pools.is_empty() { "-".to_string() } else { pools.join("|") },
            if vp.is_empty() { "-".to_string() } else { vp.join("|") },
            if evs.is_empty() { "-".to_string() } else { evs.join(",") }
        )
    }
}

impl Prop for C40 {
    fn id(&self) -> &'static str {
        "C40"
    }
    fn rule(&self) -> &'static str {
        "Histories over a real InMemoryStore and the real PoolTracker: a pre-filled (or empty) store, then 40..140 \
         interleaved ops: ShrEx/Sub notifications of 6 peers for heights around the head (right hash, one of 3 fake \
         hashes, or the hash of another height; repeated announcements before and after validation), headers reaching \
         the store (next height, gaps, adjacent fill-ins), single poll() calls, get_pool queries over the whole window \
         and beyond, peer removals, injected task timeouts and store errors (each followed at once by `drain` = poll until Pending, so the failed task is consumed before anything else; the height may be announced and stored again afterwards); 1 history in 8 uses a chain whose \
         neighbouring heights share a data hash (the property's precondition for get_pool is then false). \
         Size-threshold histories (S10, tags thr/window, big/peers, big/heights): announcements and get_pool 8..12 heights \
         below the head with all ten window heights tracked and head jumps of 1, 9, 10, 11, 12, 20; n peers announcing one \
         height before validation, after validation and for a height that times out (quick n = 9, 17, 33, 65, 129; thorough \
         7..9, 15..17, 31..33, 63..65, 127..129, 257, 513, 1025: voted set, candidate list, validated pool, AddPeers and \
         BlockPeers of that size); k heights pending at once (k candidate pools, k header tasks parked on the store's \
         Notify) with headers arriving bottom-up, top-down or from both ends (quick k = 9, 10, 11, 17, 32, 33, 65, 129, 513; \
         thorough 8..12, 16, 17, 31..34, 63..66, 127..129, 257, 513, 1025). \
         Non-trivial = an op at position >= 5 of its history; distinct = distinct (op, full tracker state) lines."
    }
    fn gen_ops(&mut self, rng: &mut Rng, tier: Tier, out: &mut Emitter) {
        let histories = if tier == Tier::Thorough { 1500 } else { 60 };
        for hist in 0..histories {
            let dup = hist % 8 == 7;
            let mut stored: BTreeSet<u64> = BTreeSet::new();
            if rng.chance(1, 10) {
                out.op(format!("reset from=0 to=0 dup={}", dup as u8), "reset/empty", false);
            } else {
                let b = rng.range(12, 40);
                let a = b - rng.range(0, 5);
                out.op(format!("reset from={a} to={b} dup={}", dup as u8), "reset/filled", false);
                (a..=b).for_each(|h| {
                    stored.insert(h);
                });
            }
            if dup && hist % 16 == 7 {
                // scripted: two neighbouring heights share a data hash; evicting the lower one's pool removes the
                // shared validated pool and `get_pool` of the higher one hits its `expect` (the property's
                // precondition "data hashes differ across heights" is false here)
                let b = 2 * rng.range(8, 20);
                out.op(format!("reset from={} to={} dup=1", b - 1, b - 1), "reset/filled", false);
                for l in [
                    format!("notify p=0 x={} h={b}", 1000 + b),
                    format!("notify p=1 x={} h={}", 1000 + b, b + 1),
                    format!("store h={b}"),
                    format!("store h={}", b + 1),
                    "poll".into(),
                    "poll".into(),
                    "poll".into(),
                    "poll".into(),
                    format!("get h={b}"),
                    format!("get h={}", b + 1),
                ] {
                    out.op(l, "scripted/shared-hash", true);
                }
                for h in b + 2..=b + 10 {
                    out.op(format!("store h={h}"), "scripted/shared-hash", true);
                }
                out.op(format!("notify p=2 x={} h={}", 1000 + b + 10, b + 10), "scripted/shared-hash", true);
                out.op("poll", "scripted/shared-hash", true);
                out.op(format!("get h={b}"), "scripted/shared-hash", true);
                out.op(format!("get h={}", b + 1), "scripted/shared-hash", true);
                stored.clear();
                (b - 1..=b + 10).for_each(|h| {
                    stored.insert(h);
                });
            }
            let len = rng.usize(40, 140);
            let mut recent: Vec<u64> = vec![];
            for i in 0..len {
                let nt = i >= 5;
                let max = stored.iter().next_back().copied().unwrap_or(20);
                let w = rng.below(100);
                if w < 46 {
                    let p = rng.usize(0, N_PEERS - 1);
                    let h = match rng.below(10) {
                        0 => max.saturating_sub(rng.range(9, 13)).max(1),
                        1 => max.saturating_sub(rng.range(1, 9)).max(1),
                        2 | 3 => max,
                        4..=7 => max + 1,
                        _ => max + rng.range(2, 4),
                    }
                    .min(CHAIN - 1);
                    let real = if dup { 1000 + h / 2 * 2 } else { 1000 + h };
                    let x = match rng.below(10) {
                        0 | 1 => rng.range(1, 3),
                        2 => {
                            let o = (h + rng.range(1, 3)).min(CHAIN - 1);
                            if dup { 1000 + o / 2 * 2 } else { 1000 + o }
                        }
                        _ => real,
                    };
                    out.op(format!("notify p={p} x={x} h={h}"), if x == real { "notify/right" } else { "notify/wrong" }, nt);
                    recent.push(h);
                } else if w < 60 {
                    // a header reaches the store: new head (sometimes with a gap) or an adjacent fill-in
                    let cands: Vec<u64> = {
                        let mut c = vec![max + 1, max + 1, max + 1, max + 2, max + 3];
                        for &s in &stored {
                            if s > 1 && !stored.contains(&(s - 1)) {
                                c.push(s - 1);
                            }
                            if !stored.contains(&(s + 1)) {
                                c.push(s + 1);
                            }
                        }
                        c
                    };
                    let h = if stored.is_empty() { rng.range(10, 30) } else { *rng.pick(&cands) };
                    if h < CHAIN && !stored.contains(&h) {
                        out.op(format!("store h={h}"), "store", nt);
                        stored.insert(h);
                    }
                } else if w < 86 {
                    out.op("poll", "poll", nt);
                } else if w < 94 {
                    let h = if rng.chance(2, 3) && !recent.is_empty() { *rng.pick(&recent) } else { max.saturating_sub(rng.range(0, 14)).max(1) + rng.range(0, 3) };
                    out.op(format!("get h={h}"), "get", nt);
                } else if w < 96 {
                    out.op(format!("remove p={}", rng.usize(0, N_PEERS - 1)), "remove", nt);
                } else if !recent.is_empty() {
                    // the header task of a recently announced (not yet stored) height ends in a timeout / store error.
                    // The height may well be announced and stored afterwards (the injected result does not consume the
                    // tracker's own `wait_height` task, which then completes too: the model keeps it in its queue as well)
                    let h = *rng.pick(&recent);
                    if !stored.contains(&h) {
                        let name = if rng.bool() { "timeout" } else { "storeerr" };
                        out.op(format!("{name} h={h}"), name, nt);
                        // the failure is consumed at once (`drain` = poll until Pending): in the real tracker the
                        // failed task IS the height's only task, so the header can not be delivered "before" it
                        out.op("drain", "drain", nt);
                    }
                }
            }
            // flush
            for _ in 0..6 {
                out.op("poll", "poll", true);
            }
            for h in recent.iter().rev().take(4) {
                out.op(format!("get h={h}"), "get", true);
            }
        }
        // ---- S10 size-threshold stress: appended scripted/random histories, each starting with its own `reset` ----
        // (a) the 10-height window +-1: announcements / get_pool 8..12 heights below the head, 10 tracked pools, and
        //     head jumps by 1, 9, 10, 11, 12, 20 heights (eviction range of 2 / 10 / 11 / 12 / 13 / 21 heights)
        for &j in &[1u64, 9, 10, 11, 12, 20] {
            window_history(rng, out, j);
        }
        // (b) many PEERS announcing one height (voted set / candidate list / validated pool / AddPeers / BlockPeers of that size)
        let ps: &[usize] = if tier == Tier::Thorough {
            &[7, 8, 9, 15, 16, 17, 31, 32, 33, 63, 64, 65, 127, 128, 129, 257, 513, 1025]
        } else {
            &[9, 17, 33, 65, 129]
        };
        for &n in ps {
            many_peers_history(rng, out, n);
        }
        // (c) many HEIGHTS pending at once (that many candidate pools and header tasks parked on the store's Notify,
        //     which wakes its waiters in batches of 32), headers then arriving bottom-up / top-down / from both ends
        let ks: &[usize] = if tier == Tier::Thorough {
            &[8, 9, 10, 11, 12, 16, 17, 31, 32, 33, 34, 63, 64, 65, 66, 127, 128, 129, 257, 513, 1025]
        } else {
            &[9, 10, 11, 17, 32, 33, 65, 129, 513]
        };
        for (i, &k) in ks.iter().enumerate() {
            many_heights_history(rng, out, k, i % 3);
            if tier == Tier::Thorough && k <= 129 {
                many_heights_history(rng, out, k, (i + 1) % 3);
            }
        }
        out.op("reset from=0 to=0 dup=0", "reset/empty", false);
    }
    fn run(&mut self, line: &str) -> String {
        match opname(line) {
            "reset" => {
                self.dup = arg_u64(line, "dup").unwrap_or(0) as usize;
                self.rebuild_codes();
                self.store = Arc::new(InMemoryStore::new());
                let (a, b) = (arg_u64(line, "from").unwrap_or(0), arg_u64(line, "to").unwrap_or(0));
                if b > 0 {
                    let hs: Vec<ExtendedHeader> = (a..=b).map(|h| self.header(h)).collect();
                    let store = self.store.clone();
                    self.rt.block_on(async { store.insert(hs).await }).expect("prefill");
                }
                self.tracker = {
                    let _g = self.rt.enter();
                    pt::Tracker::new(self.store.clone())
                };
                if b > 0 {
                    // the initial task reads the store head
                    let r = self.poll_once();
                    assert_eq!(r, pt::VPoll::ReadyNone, "initial poll");
                }
                "ok".into()
            }
            "notify" => {
                let p = self.peers[arg_u64(line, "p").expect("p") as usize];
                let x = self.hash_of_code(arg_u64(line, "x").expect("x"));
                let h = arg_u64(line, "h").expect("h");
                let _g = self.rt.enter();
                self.tracker.add_peer_for_hash(p, x, h);
                drop(_g);
                self.state()
            }
            "remove" => {
                let p = self.peers[arg_u64(line, "p").expect("p") as usize];
                self.tracker.remove_peer(&p);
                self.state()
            }
            "poll" => {
                let r = match self.poll_once() {
                    pt::VPoll::Pending => "pending".to_string(),
                    pt::VPoll::ReadyNone => "none".to_string(),
                    pt::VPoll::Ready(ev) => self.ev_str(&ev),
                };
                format!("poll={r} {}", self.state())
            }
            "drain" => {
                let mut segs = vec![];
                for _ in 0..64 {
                    let r = self.poll_once();
                    let pending = r == pt::VPoll::Pending;
                    let rs = match r {
                        pt::VPoll::Pending => "pending".to_string(),
                        pt::VPoll::ReadyNone => "none".to_string(),
                        pt::VPoll::Ready(ev) => self.ev_str(&ev),
                    };
                    segs.push(format!("poll={rs} {}", self.state()));
                    if pending {
                        break;
                    }
                }
                segs.join(" ;; ")
            }
            "store" => {
                let h = arg_u64(line, "h").expect("h");
                let hd = self.header(h);
                let store = self.store.clone();
                self.rt.block_on(async { store.insert(hd).await }).expect("store insert");
                self.state()
            }
            "timeout" => {
                pt::inject_timeout(&mut self.tracker, arg_u64(line, "h").expect("h"));
                self.state()
            }
            "storeerr" => {
                pt::inject_store_error(&mut self.tracker, arg_u64(line, "h").expect("h"));
                self.state()
            }
            "get" => {
                let h = arg_u64(line, "h").expect("h");
                let r = match pt::get_pool(&self.tracker, h) {
                    Ok(ps) => format!("ok:{}", self.peers_str(&ps, false)),
                    Err(e) => e.to_string(),
                };
                format!("get={r} {}", self.state())
            }
            _ => "bad-op".into(),
        }
    }
    fn result_tag(&self, line: &str, result: &str) -> Option<String> {
        match opname(line) {
            "poll" => arg(result, "poll").map(|r| r.chars().next().map(|c| c.to_string()).unwrap_or_default()),
            "get" => arg(result, "get").map(|r| r.split(':').next().unwrap_or("").to_string()),
            _ => Some("-".into()),
        }
    }
}

/// S10 (a): window thresholds.  Head = 30 after the reset.
fn window_history(rng: &mut Rng, out: &mut Emitter, jump: u64) {
    let b = 30u64;
    let t = "thr/window";
    out.op(format!("reset from=18 to={b} dup=0"), &format!("thr/window-jump={jump}"), false);
    // announcements 12, 11, 10 heights below the head are ignored, 9 and fewer are tracked
    for d in [12u64, 11, 10, 9, 8, 1, 0] {
        out.op(format!("notify p={} x={} h={}", d % 6, 1000 + b - d, b - d), t, true);
    }
    for d in [11u64, 10, 9, 8] {
        out.op(format!("get h={}", b - d), t, true);
    }
    for _ in 0..10 {
        out.op("poll", t, true);
    }
    // all ten heights of the window are tracked (some validated, some still candidates)
    for d in 0..=9u64 {
        let x = if rng.chance(1, 5) { rng.range(1, 3) } else { 1000 + b - d };
        out.op(format!("notify p={} x={x} h={}", 6 + d % 3, b - d), t, true);
    }
    for _ in 0..rng.usize(4, 14) {
        out.op("poll", t, true);
    }
    for h in b - 11..=b + 1 {
        out.op(format!("get h={h}"), t, true);
    }
    // the head jumps
    let n = b + jump;
    out.op(format!("notify p=0 x={} h={n}", 1000 + n), t, true);
    out.op(format!("notify p=1 x=2 h={n}"), t, true);
    out.op(format!("store h={n}"), t, true);
    for _ in 0..16 {
        out.op("poll", t, true);
    }
    for h in b - 11..=n + 1 {
        out.op(format!("get h={h}"), t, true);
    }
    for d in [11u64, 10, 9] {
        out.op(format!("notify p=2 x={} h={}", 1000 + n - d, n - d), t, true);
        out.op(format!("get h={}", n - d), t, true);
    }
    for _ in 0..4 {
        out.op("poll", t, true);
    }
}

/// S10 (b): n peers announce height 21 (not stored yet: candidates), height 20 (stored: validated by the next
/// polls) and height 22 (its task is made to time out: every voter is blocked in one event)
fn many_peers_history(rng: &mut Rng, out: &mut Emitter, n: usize) {
    let t = "big/peers";
    out.op("reset from=15 to=20 dup=0", &format!("big/peers={n}"), false);
    let mut order: Vec<usize> = (0..n).collect();
    rng.shuffle(&mut order);
    // every poll hands out ONE queued event and looks at the header tasks only when no event is queued:
    // `ev` bounds the number of queued events, so that the polls below really reach the validation
    let mut ev = 0usize;
    for (i, &p) in order.iter().enumerate() {
        let x = if rng.chance(1, 8) { rng.range(1, 3) } else { 1021 };
        out.op(format!("notify p={p} x={x} h=21"), t, i >= 5);
        if rng.chance(1, 2) {
            let x = if rng.chance(1, 8) { rng.range(1, 3) } else { 1020 };
            out.op(format!("notify p={p} x={x} h=20"), t, i >= 5);
        }
        if rng.chance(1, 24) {
            // announces twice: blocked (and removed from every pool by the poll that hands the event out)
            out.op(format!("notify p={p} x=1021 h=21"), t, true);
            ev += 1;
        }
    }
    // height 20 is in the store: validated by the first poll that reaches the tasks (AddPeers + BlockPeers of ~n/2 peers)
    for _ in 0..ev + 5 {
        out.op("poll", t, true);
    }
    out.op("get h=20", t, true);
    out.op("get h=21", t, true);
    out.op("store h=21", t, true);
    for _ in 0..5 {
        out.op("poll", t, true);
    }
    out.op("get h=21", t, true);
    // late announcers of the validated height, one repeat, one wrong hash
    for q in n..n + 6 {
        out.op(format!("notify p={q} x=1021 h=21"), t, true);
    }
    out.op(format!("notify p={n} x=1021 h=21"), t, true);
    out.op(format!("notify p={} x=3 h=21", n + 7), t, true);
    for _ in 0..10 {
        out.op("poll", t, true);
    }
    for _ in 0..3 {
        out.op(format!("remove p={}", rng.usize(0, n - 1)), t, true);
    }
    out.op("get h=21", t, true);
    out.op("get h=20", t, true);
    // everybody announces height 22, whose header never arrives
    rng.shuffle(&mut order);
    for &p in &order {
        out.op(format!("notify p={p} x=1022 h=22"), t, true);
    }
    out.op("poll", t, true);
    out.op("timeout h=22", "big/peers-timeout", true);
    for _ in 0..3 {
        out.op("poll", t, true);
    }
    out.op("get h=22", t, true);
    out.op("get h=21", t, true);
}

/// S10 (c): k heights above the head (20) are announced before any of their headers is stored: k candidate pools
/// and k header tasks parked on the store's `Notify`.  order 0: headers arrive bottom-up (head moves by one, pools
/// are evicted one by one); 1: top-down (the head jumps by k, every pool more than ten below is evicted at once,
/// the remaining tasks deliver headers of evicted heights); 2: from both ends.
fn many_heights_history(rng: &mut Rng, out: &mut Emitter, k: usize, order: usize) {
    let b = 20u64;
    let k64 = k as u64;
    let t = "big/heights";
    let oname = ["up", "down", "both"][order];
    out.op(format!("reset from=15 to={b} dup=0"), &format!("big/heights={k}-{oname}"), false);
    let mut hs: Vec<u64> = (b + 1..=b + k64).collect();
    rng.shuffle(&mut hs);
    for (i, &h) in hs.iter().enumerate() {
        out.op(format!("notify p={} x={} h={h}", h % 6, 1000 + h), t, i >= 5);
        if rng.chance(1, 4) {
            out.op(format!("notify p={} x={} h={h}", 6 + h % 3, rng.range(1, 3)), t, i >= 5);
        }
        if rng.chance(1, 20) {
            out.op("poll", t, true);
        }
    }
    out.op("poll", t, true);
    out.op(format!("get h={}", b + 1), t, true);
    out.op(format!("get h={}", b + k64), t, true);
    // arrival order of the headers (the store accepts a new head or a height adjacent to a stored range)
    let arrivals: Vec<u64> = match order {
        0 => (b + 1..=b + k64).collect(),
        1 => (b + 1..=b + k64).rev().collect(),
        _ => {
            let (mut lo, mut hi) = (b + 1, b + k64);
            let mut v = vec![hi];
            hi -= 1;
            while lo <= hi {
                if rng.bool() {
                    v.push(lo);
                    lo += 1;
                } else {
                    v.push(hi);
                    hi -= 1;
                }
            }
            v
        }
    };
    for (i, &h) in arrivals.iter().enumerate() {
        out.op(format!("store h={h}"), "big/heights-store", true);
        // sometimes several headers arrive between two polls
        for _ in 0..*rng.pick(&[0usize, 1, 1, 2, 3]) {
            out.op("poll", t, true);
        }
        if i % 7 == 3 {
            out.op(format!("get h={h}"), t, true);
            out.op(format!("get h={}", h.saturating_sub(10).max(1)), t, true);
        }
        if i % 11 == 5 {
            // a late announcement for a height around the arrival
            out.op(format!("notify p={} x={} h={h}", 9 + h % 2, 1000 + h), t, true);
        }
    }
    // drain: per height at most one poll for the header and two for its AddPeers / BlockPeers
    for _ in 0..3 * k + 8 {
        out.op("poll", t, true);
    }
    for h in [b + 1, b + k64 - 10, b + k64 - 9, b + k64 - 1, b + k64] {
        out.op(format!("get h={}", h.max(1)), t, true);
    }
}

fn main() {
    main_for(C40::new());
}

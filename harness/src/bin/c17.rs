//! C17 — BlockRanges behaves as a set of heights.
//!
//! Registers (`a`, `b`, `c`, `t`, …) hold real `BlockRanges` values; every op line names its
//! operand registers, runs the real method and prints the canonical result.
use std::collections::HashMap;
use std::ops::RangeInclusive;

use lumina_node::block_ranges::{BlockRange, BlockRanges, BlockRangesError};
use lumina_node::verif::block_ranges as hook;
use verif_harness::*;

#[derive(Default)]
struct C17 {
    regs: HashMap<String, BlockRanges>,
}

/// the generator's shadow values are computed with the real code; a panic there must not
/// stop generation (the op is still emitted and the panic is then observed by `run`)
fn quiet<T>(f: impl FnOnce() -> T) -> Result<T, ()> {
    std::panic::catch_unwind(std::panic::AssertUnwindSafe(f)).map_err(|_| ())
}

pub fn show_ranges(rs: &BlockRanges) -> String {
    let v: Vec<String> = rs.as_ref().iter().map(|r| format!("{}-{}", r.start(), r.end())).collect();
    format!("[{}]", v.join(","))
}

pub fn show_err(e: &BlockRangesError) -> String {
    match e {
        BlockRangesError::UnsortedBlockRanges => "err unsorted".into(),
        BlockRangesError::InvalidBlockRange(r) => format!("err invalid:{}-{}", r.start(), r.end()),
        BlockRangesError::BlockRangeOverlap(r, o) => {
            format!("err overlap:{}-{}:{}-{}", r.start(), r.end(), o.start(), o.end())
        }
        BlockRangesError::NoAdjacentNeighbors(r) => format!("err noadjacent:{}-{}", r.start(), r.end()),
    }
}

pub fn parse_ranges(s: &str) -> Option<Vec<BlockRange>> {
    let s = s.trim_matches(|c| c == '[' || c == ']');
    if s == "-" || s.is_empty() {
        return Some(vec![]);
    }
    s.split(',')
        .map(|t| {
            let (a, b) = t.split_once('-')?;
            Some(RangeInclusive::new(a.parse().ok()?, b.parse().ok()?))
        })
        .collect()
}

fn show_opt(o: Option<u64>) -> String {
    match o {
        Some(x) => format!("some {x}"),
        None => "none".into(),
    }
}

fn fmt_vec(v: &[(u64, u64)]) -> String {
    if v.is_empty() {
        "-".into()
    } else {
        v.iter().map(|(s, e)| format!("{s}-{e}")).collect::<Vec<_>>().join(",")
    }
}

/// canonical range list of the subset `mask` of heights `1..=n`
fn subset(mask: u32, n: u32) -> Vec<(u64, u64)> {
    let mut v = vec![];
    let mut h = 1;
    while h <= n {
        if mask & (1 << (h - 1)) != 0 {
            let s = h;
            while h < n && mask & (1 << h) != 0 {
                h += 1;
            }
            v.push((s as u64, h as u64));
        }
        h += 1;
    }
    v
}


/// a canonical value with exactly `k` ranges: lengths 1..=4, gaps 2..=5 (gap 2 = a single missing
/// height between two ranges, so that one-height arguments bridge them), starting at `base`
fn many_value(rng: &mut Rng, k: usize, base: u64) -> Vec<(u64, u64)> {
    let mut v = Vec::with_capacity(k);
    let mut s = base.max(2);
    for _ in 0..k {
        let e = s + rng.range(0, 3);
        v.push((s, e));
        s = e + *rng.pick(&[2, 2, 3, 4, 5]);
    }
    v
}

/// indices of the stored ranges to probe: both ends, the size thresholds a size-dependent code
/// path would use (8, 16, 32 ±1) and a few random ones
fn probe_indices(rng: &mut Rng, k: usize, extra: usize) -> Vec<usize> {
    let mut idx: Vec<usize> = vec![0, 1, k / 2, k.saturating_sub(2), k - 1];
    for t in [7usize, 8, 9, 15, 16, 17, 31, 32, 33] {
        if t < k {
            idx.push(t);
        }
    }
    for _ in 0..extra {
        idx.push(rng.usize(0, k - 1));
    }
    idx.sort();
    idx.dedup();
    idx
}

/// arguments placed relative to the stored range `v[i]` (and its neighbours): touching from
/// below / above, bridging exactly, overlapping by one, at distance 2, spanning several ranges
fn probe_args(v: &[(u64, u64)], i: usize) -> Vec<(u64, u64, &'static str)> {
    let (s, e) = v[i];
    let mut a = vec![
        (s - 1, s - 1, "touch-below"),
        (e + 1, e + 1, "touch-above"),
        (s - 1, s, "overlap-start"),
        (e, e + 1, "overlap-end"),
        (e + 2, e + 2, "dist2-above"),
        (s, e, "exact"),
    ];
    if s >= 3 {
        a.push((s - 2, s - 2, "dist2-below"));
    }
    if let Some(&(ns, ne)) = v.get(i + 1) {
        a.push((e + 1, ns - 1, "bridge-exact"));
        a.push((e + 1, ns, "bridge-overlap"));
        if ns - e >= 4 {
            a.push((e + 2, ns - 2, "gap-interior"));
        }
        a.push((e, ns, "bridge-both-overlap"));
        if let Some(&(_, nne)) = v.get(i + 2) {
            a.push((s, nne, "span-3"));
            a.push((e + 1, nne + 1, "span-from-touch"));
        }
        let _ = ne;
    }
    if i >= 1 {
        let (_, pe) = v[i - 1];
        a.push((pe + 1, s - 1, "bridge-exact-below"));
    }
    if e - s >= 2 {
        a.push((s + 1, e - 1, "interior"));
    }
    a
}

impl C17 {
    fn reg(&self, line: &str, key: &str) -> (String, BlockRanges) {
        let k = arg(line, key).unwrap_or("a").to_string();
        let v = self.regs.get(&k).cloned().unwrap_or_default();
        (k, v)
    }
    fn store(&mut self, line: &str, v: BlockRanges) -> String {
        let d = arg(line, "d").unwrap_or("a").to_string();
        let s = format!("ok {}", show_ranges(&v));
        self.regs.insert(d, v);
        s
    }
    fn range(line: &str, ks: &str, ke: &str) -> Option<BlockRange> {
        Some(RangeInclusive::new(arg_u64(line, ks)?, arg_u64(line, ke)?))
    }

    /// every op with every argument on the canonical value `v` (heights within `0..=n+1`)
    fn scope_ops(out: &mut Emitter, v: &[(u64, u64)], n: u64, tag: &str) {
        let sv = fmt_vec(v);
        let nt = !v.is_empty();
        out.op(format!("set d=a v={sv}"), &format!("{tag}/set"), nt);
        for op in ["len", "is_empty", "head", "tail", "partitions"] {
            out.op(format!("{op} x=a"), &format!("{tag}/{op}"), nt);
        }
        out.op("edges x=a d=b", &format!("{tag}/edges"), nt);
        out.op("not x=a d=b", &format!("{tag}/not"), true);
        for h in 0..=n + 1 {
            out.op(format!("contains x=a h={h}"), &format!("{tag}/contains"), nt);
            out.op(format!("left_of x=a h={h}"), &format!("{tag}/left_of"), nt);
            out.op(format!("right_of x=a h={h}"), &format!("{tag}/right_of"), nt);
        }
        for k in (0..=n + 1).chain([u64::MAX - 1, u64::MAX]) {
            out.op(format!("headn x=a n={k} d=b"), &format!("{tag}/headn"), nt);
            out.op(format!("tailn x=a n={k} d=b"), &format!("{tag}/tailn"), nt);
        }
        for s in 0..=n + 1 {
            for e in 0..=n + 1 {
                let valid = s >= 1 && s <= e;
                if !valid && (s + e) % 3 != 0 {
                    // a third of the invalid ranges is enough
                    continue;
                }
                out.op(format!("find x=a s={s} e={e}"), &format!("{tag}/find"), valid);
                out.op(format!("set d=t v={sv}"), &format!("{tag}/set"), false);
                out.op(format!("insert x=t s={s} e={e}"), &format!("{tag}/insert"), valid);
                out.op(format!("set d=t v={sv}"), &format!("{tag}/set"), false);
                out.op(format!("remove x=t s={s} e={e}"), &format!("{tag}/remove"), valid);
            }
        }
        // drain from both ends
        out.op(format!("set d=t v={sv}"), &format!("{tag}/set"), false);
        for i in 0..=n {
            let op = if i % 3 == 2 { "pop_tail" } else { "pop_head" };
            out.op(format!("{op} x=t"), &format!("{tag}/{op}"), nt);
        }
        out.op(format!("set d=t v={sv}"), &format!("{tag}/set"), false);
        for _ in 0..=n {
            out.op("pop_tail x=t", &format!("{tag}/pop_tail"), nt);
        }
    }


    /// values with MANY ranges (size-dependent code paths): every operation around a sample of
    /// the stored ranges with arguments that touch / bridge / overlap by one / stay at distance 2
    fn many_ops(rng: &mut Rng, out: &mut Emitter, k: usize, base: u64, extra: usize) {
        let v = many_value(rng, k, base);
        let sv = fmt_vec(&v);
        let tag = if k > 32 { "many33+" } else if k > 16 { "many17-32" } else if k > 8 { "many9-16" } else { "many<=8" };
        out.op(format!("set d=a v={sv}"), &format!("{tag}/set"), true);
        for op in ["len", "is_empty", "head", "tail", "partitions"] {
            out.op(format!("{op} x=a"), &format!("{tag}/{op}"), true);
        }
        out.op("edges x=a d=b", &format!("{tag}/edges"), true);
        out.op("not x=a d=b", &format!("{tag}/not"), true);
        out.op("not x=b d=c", &format!("{tag}/not-not"), true);
        let total: u64 = v.iter().map(|(s, e)| e - s + 1).sum();
        for n in [0, 1, 2, 3, total / 2, total - 2, total - 1, total, total + 1, u64::MAX] {
            out.op(format!("headn x=a n={n} d=b"), &format!("{tag}/headn"), true);
            out.op(format!("tailn x=a n={n} d=b"), &format!("{tag}/tailn"), true);
        }
        for i in probe_indices(rng, k, extra) {
            let (s, e) = v[i];
            for h in [s - 1, s, e, e + 1] {
                out.op(format!("contains x=a h={h}"), &format!("{tag}/contains"), true);
                out.op(format!("left_of x=a h={h}"), &format!("{tag}/left_of"), true);
                out.op(format!("right_of x=a h={h}"), &format!("{tag}/right_of"), true);
            }
            for (a, b, kind) in probe_args(&v, i) {
                out.op(format!("find x=a s={a} e={b}"), &format!("{tag}/find/{kind}"), true);
                out.op(format!("set d=t v={sv}"), &format!("{tag}/set"), false);
                out.op(format!("insert x=t s={a} e={b}"), &format!("{tag}/insert/{kind}"), true);
                // everything built on the result
                if rng.chance(1, 3) {
                    out.op("edges x=t d=b", &format!("{tag}/edges-after-insert"), true);
                    out.op("len x=t", &format!("{tag}/len-after-insert"), true);
                    out.op("partitions x=t", &format!("{tag}/partitions-after-insert"), true);
                    out.op(format!("headn x=t n={} d=b", total / 2), &format!("{tag}/headn-after-insert"), true);
                }
                out.op(format!("set d=t v={sv}"), &format!("{tag}/set"), false);
                out.op(format!("remove x=t s={a} e={b}"), &format!("{tag}/remove/{kind}"), true);
                // the argument as a one-range value through the operators
                out.op(format!("set d=b v={a}-{b}"), &format!("{tag}/set"), false);
                out.op("add x=a y=b d=c", &format!("{tag}/add-one/{kind}"), true);
                out.op("add x=b y=a d=c", &format!("{tag}/add-many-into-one/{kind}"), true);
                if rng.chance(1, 3) {
                    out.op("and x=a y=b d=c", &format!("{tag}/and-one"), true);
                    out.op("sub x=a y=b d=c", &format!("{tag}/sub-one"), true);
                }
            }
        }
        // set operations with a many-range second operand
        // (1) exactly the gaps of `a` (adjacent on both sides: the union is one range)
        let gaps: Vec<(u64, u64)> = v.windows(2).map(|w| (w[0].1 + 1, w[1].0 - 1)).collect();
        // (2) every other gap; (3) `a` shifted up by one; (4) an independent many-range value
        let every_other: Vec<(u64, u64)> = gaps.iter().step_by(2).cloned().collect();
        let shifted: Vec<(u64, u64)> = {
            let mut w: Vec<(u64, u64)> = vec![];
            for &(s, e) in &v {
                match w.last_mut() {
                    Some(l) if l.1 + 1 >= s + 1 => l.1 = e + 1,
                    _ => w.push((s + 1, e + 1)),
                }
            }
            w
        };
        let shift = rng.range(0, 3);
        let other = many_value(rng, k, base + shift);
        for (b, kind) in [(gaps, "gaps"), (every_other, "every-other-gap"), (shifted, "shifted"), (other, "independent")] {
            out.op(format!("set d=b v={}", fmt_vec(&b)), &format!("{tag}/set"), false);
            for op in ["add", "or", "sub", "and"] {
                out.op(format!("{op} x=a y=b d=c"), &format!("{tag}/{op}/{kind}"), true);
                out.op(format!("{op} x=b y=a d=c"), &format!("{tag}/{op}-rev/{kind}"), true);
            }
            out.op("edges x=c d=c", &format!("{tag}/edges-of-result"), true);
        }
        // from_vec with many ranges: adjacent neighbours (merged by the constructor), one defect deep inside
        let mut adj = v.clone();
        for j in (1..adj.len()).step_by(3) {
            adj[j].0 = adj[j - 1].1 + 1;
        }
        out.op(format!("set d=c v={}", fmt_vec(&adj)), &format!("{tag}/from_vec-adjacent"), true);
        out.op("edges x=c d=b", &format!("{tag}/edges"), true);
        let mut bad = v.clone();
        let j = rng.usize(k / 2, k - 1);
        if rng.bool() { bad.swap(j, j - 1) } else { bad[j] = (bad[j].1 + 1, bad[j].0) }
        out.op(format!("set d=c v={}", fmt_vec(&bad)), &format!("{tag}/from_vec-defect"), true);
        // drain a little from both ends
        out.op(format!("set d=t v={sv}"), &format!("{tag}/set"), false);
        for _ in 0..4 {
            out.op("pop_head x=t", &format!("{tag}/pop_head"), true);
            out.op("pop_tail x=t", &format!("{tag}/pop_tail"), true);
        }
    }

    fn binary_ops(out: &mut Emitter, a: &[(u64, u64)], b: &[(u64, u64)], tag: &str) {
        out.op(format!("set d=a v={}", fmt_vec(a)), &format!("{tag}/set"), false);
        out.op(format!("set d=b v={}", fmt_vec(b)), &format!("{tag}/set"), false);
        for op in ["add", "sub", "and", "or"] {
            out.op(format!("{op} x=a y=b d=c"), &format!("{tag}/{op}"), !a.is_empty() || !b.is_empty());
        }
    }

    /// a height drawn from the interesting places of the u64 line
    fn height(rng: &mut Rng, shadow: &[BlockRanges]) -> u64 {
        match rng.below(10) {
            0 => rng.range(0, 12),
            1 => u64::MAX - rng.range(0, 12),
            2 => rng.next_u64(),
            3 => (1u64 << 63) + rng.range(0, 8) - 4,
            4 => *rng.pick(&[0, 1, 2, u64::MAX, u64::MAX - 1, u64::MAX / 2, u64::MAX / 2 + 1]),
            _ => {
                // near an endpoint of a current value
                let mut pts: Vec<u64> = vec![];
                for s in shadow {
                    for r in s.as_ref() {
                        pts.push(*r.start());
                        pts.push(*r.end());
                    }
                }
                if pts.is_empty() {
                    rng.range(1, 40)
                } else {
                    let p = *rng.pick(&pts);
                    let d = rng.range(0, 6);
                    if rng.bool() { p.saturating_add(d) } else { p.saturating_sub(d) }
                }
            }
        }
    }

    fn history(rng: &mut Rng, out: &mut Emitter, steps: usize, small: bool, init_many: Option<usize>) {
        // the generator keeps shadow values (computed with the real code) only to choose
        // arguments close to existing range boundaries
        let names = ["a", "b", "c"];
        let mut shadow = vec![BlockRanges::new(), BlockRanges::new(), BlockRanges::new()];
        out.op("reset", "hist/reset", false);
        let tag = if init_many.is_some() { "hist-many" } else if small { "hist-small" } else { "hist-u64" };
        if let Some(k) = init_many {
            // start from values that already hold many ranges
            for (i, name) in names.iter().enumerate().take(2) {
                let base = if small { 2 } else { *rng.pick(&[2, 1 << 40, u64::MAX - 500]) };
                let v = many_value(rng, k, base);
                out.op(format!("set d={name} v={}", fmt_vec(&v)), "hist-many/set", true);
                shadow[i] = BlockRanges::from_vec(v.iter().map(|(s, e)| *s..=*e).collect()).unwrap_or_default();
            }
        }
        for _ in 0..steps {
            let i = rng.usize(0, 2);
            let j = rng.usize(0, 2);
            let k = rng.usize(0, 2);
            let x = names[i];
            let mut h = |rng: &mut Rng| if small { rng.range(0, 24) } else { Self::height(rng, &shadow) };
            let mut s = h(rng);
            let mut e = match rng.below(4) {
                0 => s,
                1 => s.saturating_add(rng.range(0, 5)),
                _ => h(rng),
            };
            if s > e && rng.chance(9, 10) {
                std::mem::swap(&mut s, &mut e);
            }
            let hh = h(rng);
            let n = match rng.below(4) {
                0 => rng.range(0, 12),
                1 => u64::MAX - rng.range(0, 2),
                2 => rng.next_u64(),
                _ => shadow[i].len().saturating_sub(rng.range(0, 3)).saturating_add(rng.range(0, 2)),
            };
            let nt = !shadow[i].is_empty();
            match rng.below(24) {
                0..=5 => {
                    out.op(format!("insert x={x} s={s} e={e}"), &format!("{tag}/insert"), true);
                    let _ = shadow[i].insert_relaxed(s..=e);
                }
                6..=8 => {
                    out.op(format!("remove x={x} s={s} e={e}"), &format!("{tag}/remove"), nt);
                    let _ = shadow[i].remove_relaxed(s..=e);
                }
                9 => {
                    out.op(format!("add x={x} y={} d={}", names[j], names[k]), &format!("{tag}/add"), true);
                    shadow[k] = shadow[i].clone() + &shadow[j];
                }
                10 => {
                    out.op(format!("sub x={x} y={} d={}", names[j], names[k]), &format!("{tag}/sub"), true);
                    shadow[k] = shadow[i].clone() - &shadow[j];
                }
                11 => {
                    out.op(format!("and x={x} y={} d={}", names[j], names[k]), &format!("{tag}/and"), true);
                    shadow[k] = shadow[i].clone() & &shadow[j];
                }
                12 => {
                    out.op(format!("not x={x} d={}", names[k]), &format!("{tag}/not"), true);
                    shadow[k] = !shadow[i].clone();
                }
                13 => {
                    out.op(format!("headn x={x} n={n} d={}", names[k]), &format!("{tag}/headn"), nt);
                    if let Ok(v) = quiet(|| hook::headn(&shadow[i], n)) {
                        shadow[k] = v;
                    }
                }
                14 => {
                    out.op(format!("tailn x={x} n={n} d={}", names[k]), &format!("{tag}/tailn"), nt);
                    if let Ok(v) = quiet(|| hook::tailn(&shadow[i], n)) {
                        shadow[k] = v;
                    }
                }
                15 => {
                    out.op(format!("pop_head x={x}"), &format!("{tag}/pop_head"), nt);
                    shadow[i].pop_head();
                }
                16 => {
                    out.op(format!("pop_tail x={x}"), &format!("{tag}/pop_tail"), nt);
                    shadow[i].pop_tail();
                }
                17 => {
                    out.op(format!("edges x={x} d={}", names[k]), &format!("{tag}/edges"), nt);
                    if let Ok(v) = quiet(|| hook::edges(&shadow[i])) {
                        shadow[k] = v;
                    }
                }
                18 => out.op(format!("partitions x={x}"), &format!("{tag}/partitions"), nt),
                19 => out.op(format!("left_of x={x} h={hh}"), &format!("{tag}/left_of"), nt),
                20 => out.op(format!("right_of x={x} h={hh}"), &format!("{tag}/right_of"), nt),
                21 => out.op(format!("contains x={x} h={hh}"), &format!("{tag}/contains"), nt),
                22 => {
                    out.op(format!("len x={x}"), &format!("{tag}/len"), nt);
                    out.op(format!("head x={x}"), &format!("{tag}/head"), nt);
                    out.op(format!("tail x={x}"), &format!("{tag}/tail"), nt);
                    out.op(format!("is_empty x={x}"), &format!("{tag}/is_empty"), nt);
                }
                _ => {
                    if s >= 1 && s <= e {
                        out.op(format!("find x={x} s={s} e={e}"), &format!("{tag}/find"), nt);
                    }
                }
            }
        }
    }
}

impl Prop for C17 {
    fn id(&self) -> &'static str {
        "C17"
    }
    fn rule(&self) -> &'static str {
        "Small scope: canonical values = subsets of heights 1..10 (all 1024 in the thorough tier, a seeded \
         sample incl. empty/full/alternating in quick), each with EVERY operation and EVERY argument over \
         heights 0..11 (insert/remove/find of every range incl. invalid ones, contains/left_of/right_of of \
         every height, headn/tailn of every n incl. u64::MAX, edges, partitions, not, len, head, tail, \
         pops until empty); all pairs of subsets of 1..6 (thorough) / sampled pairs with add/sub/and/or; \
         single-range methods on every pair of ranges over 0..4 and at the u64::MAX edge; from_vec on \
         valid, adjacent, overlapping, unsorted and invalid vectors; random histories over three registers \
         (small heights, and the full u64 range with arguments drawn next to existing boundaries, 0, 1, \
         2^63, u64::MAX); MANY-RANGE values (9..64 ranges, every size in thorough, 9/10/16/17/24/33/64 in \
         quick; at 2, 2^40 and just below u64::MAX): for the ranges at both ends, at indices 7..9, 15..17, 31..33 \
         and random ones, every op with arguments touching from below/above, bridging exactly, overlapping by \
         one, at distance 2, spanning 3 ranges, interior; set operations with many-range second operands (the \
         gaps, every other gap, shifted by one, independent); from_vec with many ranges; histories started \
         from many-range values. Non-trivial = operand value non-empty / argument range valid (tag rule in the \
         generator); distinct = distinct (op, result) lines."
    }
    fn gen_ops(&mut self, rng: &mut Rng, tier: Tier, out: &mut Emitter) {
        let thorough = tier == Tier::Thorough;
        // 1. single-range methods
        let small: Vec<u64> = (0..=4).collect();
        for &s in &small {
            for &e in &small {
                out.op(format!("r_validate s={s} e={e}"), "range/validate", true);
                out.op(format!("r_len s={s} e={e}"), "range/len", true);
                for n in [0, 1, 2, 3, 5, u64::MAX] {
                    out.op(format!("r_headn s={s} e={e} n={n}"), "range/headn", true);
                    out.op(format!("r_tailn s={s} e={e} n={n}"), "range/tailn", true);
                }
                for &s2 in &small {
                    for &e2 in &small {
                        let valid = s >= 1 && s <= e && s2 >= 1 && s2 <= e2;
                        if !valid && !thorough && (s + e + s2 + e2) % 4 != 0 {
                            continue;
                        }
                        for op in ["r_adj", "r_ovl", "r_left", "r_right"] {
                            out.op(format!("{op} s={s} e={e} s2={s2} e2={e2}"), &format!("range/{op}"), valid);
                        }
                    }
                }
            }
        }
        let edge = [0, 1, 2, u64::MAX - 2, u64::MAX - 1, u64::MAX];
        for &s in &edge {
            for &e in &edge {
                out.op(format!("r_validate s={s} e={e}"), "range-edge/validate", true);
                out.op(format!("r_len s={s} e={e}"), "range-edge/len", true);
                for n in [0, 1, 2, u64::MAX - 1, u64::MAX] {
                    out.op(format!("r_headn s={s} e={e} n={n}"), "range-edge/headn", true);
                    out.op(format!("r_tailn s={s} e={e} n={n}"), "range-edge/tailn", true);
                }
                for &s2 in &edge {
                    let e2 = *rng.pick(&edge);
                    for op in ["r_adj", "r_ovl", "r_left", "r_right"] {
                        out.op(format!("{op} s={s} e={e} s2={s2} e2={e2}"), &format!("range-edge/{op}"), true);
                    }
                }
            }
        }
        // 2. from_vec
        let fv = [
            "-", "1-1", "1-3,5-8", "1-2,3-4", "1-3,3-5", "1-3,2-5", "5-8,1-3", "0-3", "1-3,0-9", "3-2", "1-3,9-5",
            "1-1,3-3,5-5,7-7", "1-18446744073709551615", "1-2,18446744073709551615-18446744073709551615",
            "1-2,4-3,3-9", "4-6,6-6", "2-4,1-1",
        ];
        for v in fv {
            out.op(format!("set d=a v={v}"), "from_vec/fixed", true);
            out.op("len x=a", "from_vec/len", true);
            out.op("edges x=a d=b", "from_vec/edges", true);
        }
        for _ in 0..(if thorough { 3000 } else { 200 }) {
            let n = rng.usize(0, 4);
            let mut v = vec![];
            let mut cur = rng.range(0, 3);
            for _ in 0..n {
                let s = cur + rng.range(0, 3);
                let e = s + rng.range(0, 3);
                v.push((s, e));
                cur = e + rng.range(0, 2);
            }
            if rng.chance(1, 5) && v.len() > 1 {
                let i = rng.usize(0, v.len() - 2);
                v.swap(i, i + 1);
            }
            if rng.chance(1, 8) && !v.is_empty() {
                let i = rng.usize(0, v.len() - 1);
                v[i] = (v[i].1 + 1, v[i].0);
            }
            out.op(format!("set d=a v={}", fmt_vec(&v)), "from_vec/random", true);
            out.op(format!("insert x=a s={} e={}", rng.range(1, 6), rng.range(6, 9)), "from_vec/then-insert", true);
        }
        out.op("reset", "reset", false);
        // 3. exhaustive small scope
        let n = 10u32;
        let masks: Vec<u32> = if thorough {
            (0..(1u32 << n)).collect()
        } else {
            let mut m = vec![0, (1 << n) - 1, 0b0101010101, 0b1010101010, 0b1110001110, 0b0000110000, 1, 1 << (n - 1)];
            for _ in 0..16 {
                m.push(rng.below(1 << n) as u32);
            }
            m
        };
        for &m in &masks {
            Self::scope_ops(out, &subset(m, n), n as u64, "scope10");
        }
        // the same at the top of the u64 line: subsets of the 6 highest heights
        let top = |v: Vec<(u64, u64)>| -> Vec<(u64, u64)> {
            v.into_iter().map(|(s, e)| (u64::MAX - 6 + s, u64::MAX - 6 + e)).collect()
        };
        let top_masks: Vec<u32> = if thorough { (0..64).collect() } else { vec![0b111111, 0b100001, 0b110011, 0b101101, 0b100000, 0b010110] };
        for &m in &top_masks {
            let v = top(subset(m, 6));
            let sv = fmt_vec(&v);
            out.op(format!("set d=a v={sv}"), "top/set", true);
            for op in ["len", "head", "tail", "partitions"] {
                out.op(format!("{op} x=a"), &format!("top/{op}"), true);
            }
            out.op("edges x=a d=b", "top/edges", true);
            out.op("not x=a d=b", "top/not", true);
            out.op("not x=b d=c", "top/not-not", true);
            for d in 0..=7u64 {
                let h = u64::MAX - d;
                out.op(format!("contains x=a h={h}"), "top/contains", true);
                out.op(format!("left_of x=a h={h}"), "top/left_of", true);
                out.op(format!("right_of x=a h={h}"), "top/right_of", true);
                out.op(format!("headn x=a n={d} d=b"), "top/headn", true);
                out.op(format!("tailn x=a n={d} d=b"), "top/tailn", true);
                for d2 in 0..=d {
                    let (s, e) = (u64::MAX - d, u64::MAX - d2);
                    out.op(format!("set d=t v={sv}"), "top/set", false);
                    out.op(format!("insert x=t s={s} e={e}"), "top/insert", true);
                    out.op(format!("set d=t v={sv}"), "top/set", false);
                    out.op(format!("remove x=t s={s} e={e}"), "top/remove", true);
                }
            }
            out.op(format!("set d=t v={sv}"), "top/set", false);
            for _ in 0..7 {
                out.op("pop_tail x=t", "top/pop_tail", true);
            }
            out.op(format!("set d=t v={sv}"), "top/set", false);
            for _ in 0..7 {
                out.op("pop_head x=t", "top/pop_head", true);
            }
        }
        // 4. binary operations
        if thorough {
            for a in 0..64u32 {
                for b in 0..64u32 {
                    Self::binary_ops(out, &subset(a, 6), &subset(b, 6), "pairs6");
                }
            }
        }
        for _ in 0..(if thorough { 6000 } else { 300 }) {
            let a = subset(rng.below(1024) as u32, 10);
            let b = subset(rng.below(1024) as u32, 10);
            Self::binary_ops(out, &a, &b, "pairs10");
        }
        // 4b. values with many ranges (size-dependent code paths: > 8, > 16, > 32 ranges)
        let sizes: Vec<usize> = if thorough { (9..=64).collect() } else { vec![9, 10, 16, 17, 24, 33, 64] };
        for (n, &k) in sizes.iter().enumerate() {
            let base = match n % 3 {
                0 => 2,
                1 => (1u64 << 40) + rng.range(0, 5),
                _ => u64::MAX - 9 * k as u64 - 40,
            };
            Self::many_ops(rng, out, k, base, if thorough { 6 } else { 1 });
        }
        for i in 0..(if thorough { 120 } else { 8 }) {
            let mut r = rng.fork();
            let k = *r.pick(&[9usize, 12, 17, 20, 33, 40]);
            Self::history(&mut r, out, if thorough { 300 } else { 80 }, i % 2 == 0, Some(k));
        }
        // 5. random histories
        let (hn, hl) = if thorough { (400, 500) } else { (30, 120) };
        for i in 0..hn {
            let mut r = rng.fork();
            Self::history(&mut r, out, hl, i % 3 == 0, None);
        }
    }

    fn run(&mut self, line: &str) -> String {
        let bad = || "bad-op".to_string();
        match opname(line) {
            "reset" => {
                self.regs.clear();
                "ok".into()
            }
            "new" => self.store(line, BlockRanges::new()),
            "set" => {
                let Some(v) = arg(line, "v").and_then(parse_ranges) else { return bad() };
                match BlockRanges::from_vec(v.into_iter().collect()) {
                    Ok(rs) => self.store(line, rs),
                    Err(e) => show_err(&e),
                }
            }
            op @ ("insert" | "remove") => {
                let Some(r) = Self::range(line, "s", "e") else { return bad() };
                let (k, mut v) = self.reg(line, "x");
                let res = if op == "insert" { v.insert_relaxed(&r) } else { v.remove_relaxed(&r) };
                match res {
                    Ok(()) => {
                        let s = format!("ok {}", show_ranges(&v));
                        self.regs.insert(k, v);
                        s
                    }
                    Err(e) => show_err(&e),
                }
            }
            "contains" => {
                let Some(h) = arg_u64(line, "h") else { return bad() };
                self.reg(line, "x").1.contains(h).to_string()
            }
            "len" => self.reg(line, "x").1.len().to_string(),
            "is_empty" => self.reg(line, "x").1.is_empty().to_string(),
            "head" => show_opt(self.reg(line, "x").1.head()),
            "tail" => show_opt(self.reg(line, "x").1.tail()),
            op @ ("pop_head" | "pop_tail") => {
                let (k, mut v) = self.reg(line, "x");
                let o = if op == "pop_head" { v.pop_head() } else { v.pop_tail() };
                let s = format!("{} {}", show_opt(o), show_ranges(&v));
                self.regs.insert(k, v);
                s
            }
            op @ ("headn" | "tailn") => {
                let Some(n) = arg_u64(line, "n") else { return bad() };
                let v = self.reg(line, "x").1;
                let r = if op == "headn" { hook::headn(&v, n) } else { hook::tailn(&v, n) };
                self.store(line, r)
            }
            "edges" => {
                let r = hook::edges(&self.reg(line, "x").1);
                self.store(line, r)
            }
            "partitions" => match hook::partitions(&self.reg(line, "x").1) {
                None => "none".into(),
                Some((l, m, r)) => format!("some {} {m} {}", show_ranges(&l), show_ranges(&r)),
            },
            op @ ("left_of" | "right_of") => {
                let Some(h) = arg_u64(line, "h") else { return bad() };
                let v = self.reg(line, "x").1;
                show_opt(if op == "left_of" { hook::left_of(&v, h) } else { hook::right_of(&v, h) })
            }
            "find" => {
                let Some(r) = Self::range(line, "s", "e") else { return bad() };
                match hook::find_affected_ranges(&self.reg(line, "x").1, &r) {
                    None => "none".into(),
                    Some((i, j)) => format!("some {i} {j}"),
                }
            }
            op @ ("add" | "or" | "sub" | "and") => {
                let x = self.reg(line, "x").1;
                let y = self.reg(line, "y").1;
                let r = match op {
                    "add" => x + &y,
                    "or" => x | &y,
                    "sub" => x - &y,
                    _ => x & &y,
                };
                self.store(line, r)
            }
            "not" => {
                let r = !self.reg(line, "x").1;
                self.store(line, r)
            }
            "r_validate" => {
                let Some(r) = Self::range(line, "s", "e") else { return bad() };
                match hook::range_validate(&r) {
                    Ok(()) => "ok".into(),
                    Err(e) => show_err(&e),
                }
            }
            "r_len" => {
                let Some(r) = Self::range(line, "s", "e") else { return bad() };
                hook::range_len(&r).to_string()
            }
            op @ ("r_adj" | "r_ovl" | "r_left" | "r_right") => {
                let (Some(a), Some(b)) = (Self::range(line, "s", "e"), Self::range(line, "s2", "e2")) else {
                    return bad();
                };
                match op {
                    "r_adj" => hook::range_is_adjacent(&a, &b),
                    "r_ovl" => hook::range_is_overlapping(&a, &b),
                    "r_left" => hook::range_is_left_of(&a, &b),
                    _ => hook::range_is_right_of(&a, &b),
                }
                .to_string()
            }
            op @ ("r_headn" | "r_tailn") => {
                let (Some(a), Some(n)) = (Self::range(line, "s", "e"), arg_u64(line, "n")) else { return bad() };
                let r = if op == "r_headn" { hook::range_headn(&a, n) } else { hook::range_tailn(&a, n) };
                format!("{}-{}", r.start(), r.end())
            }
            _ => bad(),
        }
    }

    fn result_tag(&self, _line: &str, result: &str) -> Option<String> {
        let w = result.split(' ').next().unwrap_or("");
        Some(if w.parse::<u64>().is_ok() { "n".to_string() } else if w.contains('-') && !w.starts_with('[') { "range".into() } else { w.to_string() })
    }
}

fn main() {
    main_for(C17::default());
}

//! C09 — An EDS fetched over shrex matches the header's DAH.
//!
//! Ops (all stateless):
//!   decode ver=V honest=0|1 raw=<payload> rows=<roots> cols=<roots> q1=.. q2=.. q3=..
//!       the real `<ExtendedDataSquare as ResponseCodec>::decode_and_verify`; `q1..q3` = the three parity
//!       quadrants the real leopard codec computes for the payload's shares (oracle for the model's `enc`)
//!   encode ver=V w=W data=<shares>
//!       `ExtendedDataSquare::new` then the real `<ExtendedDataSquare as ResponseCodec>::encode`
#[path = "../d2_common.rs"]
mod d2_common;
#[path = "../d_common.rs"]
mod d_common;

use celestia_types::consts::appconsts::AppVersion;
use celestia_types::nmt::{NS_SIZE, Namespace};
use celestia_types::{DataAvailabilityHeader, ExtendedDataSquare};
use d2_common::*;
use lumina_node::verif::p2p::shrex::codec as shrex_codec;
use verif_harness::*;

struct C09;

fn decode_line(ver: u64, honest: bool, raw: &[u8], dah: &DataAvailabilityHeader) -> String {
    let oracle = if !raw.is_empty() && raw.len() % SHARE == 0 {
        let ods: Vec<Vec<u8>> = raw.chunks(SHARE).map(|c| c.to_vec()).collect();
        oracle_fields(&ods)
    } else {
        "q1=- q2=- q3=-".to_string()
    };
    format!("decode ver={ver} honest={} raw={} {} {}", honest as u8, hx(raw), roots_fields(dah), oracle)
}

fn encode_line(ver: u64, w: usize, shares: &[Vec<u8>]) -> String {
    format!("encode ver={ver} w={w} data={}", hxl(shares))
}

/// honest material for one square: (ods, eds, dah, payload)
fn honest(rng: &mut Rng, k: usize, ver: AppVersion) -> (Vec<Vec<u8>>, ExtendedDataSquare, DataAvailabilityHeader, Vec<u8>) {
    let (ods, _) = d_common::gen_ods(rng, k);
    let eds = ExtendedDataSquare::from_ods(ods.clone(), ver).expect("generated ODS must extend");
    let dah = DataAvailabilityHeader::from_eds(&eds);
    let raw = shrex_codec::eds_encode(&eds);
    (ods, eds, dah, raw)
}

fn pick_ver(rng: &mut Rng) -> u64 {
    rng.range(1, 7)
}

impl C09 {
    fn gen_square(&mut self, rng: &mut Rng, k: usize, muts: usize, out: &mut Emitter) {
        let ver = pick_ver(rng);
        let app = AppVersion::from_u64(ver).unwrap();
        let (ods, eds, dah, raw) = honest(rng, k, app);
        let n = ods.len();
        out.op(decode_line(ver, true, &raw, &dah), &format!("decode/honest-k{k}"), true);
        let full: Vec<Vec<u8>> = eds.data_square().iter().map(|s| s.to_vec()).collect();
        out.op(encode_line(ver, 2 * k, &full), &format!("encode/valid-k{k}"), true);

        // every truncation at a share boundary (incl. the empty payload), and some inside a share
        if k <= 2 {
            for m in 0..n {
                out.op(decode_line(ver, false, &raw[..m * SHARE], &dah), "decode/trunc-share-boundary", true);
            }
        } else {
            for _ in 0..3 {
                let m = rng.usize(0, n - 1);
                out.op(decode_line(ver, false, &raw[..m * SHARE], &dah), "decode/trunc-share-boundary", true);
            }
            // the largest proper sub-square
            let m = (k / 2) * (k / 2);
            out.op(decode_line(ver, false, &raw[..m * SHARE], &dah), "decode/trunc-to-subsquare", true);
        }
        for _ in 0..2 {
            let cut = rng.usize(1, raw.len() - 1);
            let cut = if cut % SHARE == 0 { cut - 1 } else { cut };
            out.op(decode_line(ver, false, &raw[..cut], &dah), "decode/trunc-inside-share", true);
        }
        // appended data
        {
            let mut r = raw.clone();
            r.extend_from_slice(&ods[n - 1]);
            out.op(decode_line(ver, false, &r, &dah), "decode/append-one-share", true);
            let mut r = raw.clone();
            r.push(rng.byte());
            out.op(decode_line(ver, false, &r, &dah), "decode/append-one-byte", true);
            // grow to the next square with copies of the last share (sorted, so it extends)
            let mut r = raw.clone();
            for _ in n..(2 * k) * (2 * k) {
                r.extend_from_slice(&ods[n - 1]);
            }
            if 2 * k <= 8 {
                out.op(decode_line(ver, false, &r, &dah), "decode/append-to-next-square", true);
            }
        }
        for _ in 0..muts {
            // share swaps
            if n >= 2 {
                let i = rng.usize(0, n - 1);
                let mut j = rng.usize(0, n - 1);
                if i == j {
                    j = (j + 1) % n;
                }
                let mut o = ods.clone();
                o.swap(i, j);
                let same = o == ods;
                out.op(decode_line(ver, false, &o.concat(), &dah), "decode/swap-shares", !same);
            }
            // single-byte flips: namespace version, namespace id (zero prefix / suffix), info byte, payload
            let s = rng.usize(0, n - 1);
            let pos = match rng.below(6) {
                0 => 0,
                1 => rng.usize(1, 18),
                2 => rng.usize(19, NS_SIZE - 1),
                3 => NS_SIZE,
                4 => rng.usize(NS_SIZE + 1, SHARE - 1),
                _ => rng.usize(0, SHARE - 1),
            };
            let mut r = raw.clone();
            let bit = 1u8 << rng.below(8);
            r[s * SHARE + pos] ^= bit;
            let tag = match pos {
                0 => "decode/flip-ns-version",
                1..=18 => "decode/flip-ns-zero-prefix",
                p if p < NS_SIZE => "decode/flip-ns-id",
                p if p == NS_SIZE => "decode/flip-info-byte",
                _ => "decode/flip-payload",
            };
            out.op(decode_line(ver, false, &r, &dah), tag, true);
        }
        // wrong app version for the honest payload (only matters for share version 1, below)
        let other = pick_ver(rng);
        out.op(decode_line(other, other == ver, &raw, &dah), "decode/other-app-version", true);

        // wrong DAH: of another square of the same width, rows/cols exchanged, one root replaced,
        // a root dropped, empty
        {
            let (_, _, dah2, _) = honest(rng, k, app);
            out.op(decode_line(ver, false, &raw, &dah2), "decode/dah-of-other-square", true);
            let sw = DataAvailabilityHeader::new_unchecked(dah.column_roots().to_vec(), dah.row_roots().to_vec());
            out.op(decode_line(ver, sw == dah, &raw, &sw), "decode/dah-rows-cols-exchanged", true);
            let mut rows = dah.row_roots().to_vec();
            let mut cols = dah.column_roots().to_vec();
            let i = rng.usize(0, 2 * k - 1);
            if rng.bool() {
                rows[i] = dah2.row_roots()[(i + 1) % (2 * k)].clone();
            } else {
                cols[i] = dah2.column_roots()[(i + 1) % (2 * k)].clone();
            }
            let d = DataAvailabilityHeader::new_unchecked(rows, cols);
            out.op(decode_line(ver, d == dah, &raw, &d), "decode/dah-one-root-replaced", true);
            let mut rows = dah.row_roots().to_vec();
            rows.pop();
            let d = DataAvailabilityHeader::new_unchecked(rows, dah.column_roots().to_vec());
            out.op(decode_line(ver, false, &raw, &d), "decode/dah-root-dropped", true);
            let d = DataAvailabilityHeader::new_unchecked(vec![], vec![]);
            out.op(decode_line(ver, false, &raw, &d), "decode/dah-empty", true);
        }
        // malformed squares for `new` + `encode`
        {
            let mut f = full.clone();
            f.pop();
            out.op(encode_line(ver, 2 * k, &f), "encode/not-square", true);
            let mut f = full.clone();
            let i = rng.usize(0, f.len() - 1);
            f[i].pop();
            out.op(encode_line(ver, 2 * k, &f), "encode/short-share", true);
            let mut f = full.clone();
            let i = rng.usize(0, f.len() - 1);
            let j = rng.usize(0, f.len() - 1);
            f.swap(i, j);
            out.op(encode_line(ver, 2 * k, &f), "encode/swapped", true);
            let mut f = full.clone();
            f[0][0] = rng.range(1, 254) as u8;
            out.op(encode_line(ver, 2 * k, &f), "encode/bad-ns-version", true);
        }
    }

    /// an ODS using share version 1 (info byte 2|3): valid from app version 3 on only
    fn gen_share_v1(&mut self, rng: &mut Rng, k: usize, out: &mut Emitter) {
        let (mut ods, _) = d_common::gen_ods(rng, k);
        let i = rng.usize(0, ods.len() - 1);
        ods[i][NS_SIZE] = 2 | (ods[i][NS_SIZE] & 1);
        let eds = ExtendedDataSquare::from_ods(ods.clone(), AppVersion::V3).expect("share v1 is valid in V3");
        let dah = DataAvailabilityHeader::from_eds(&eds);
        let raw = shrex_codec::eds_encode(&eds);
        for ver in 1..=7u64 {
            out.op(decode_line(ver, ver >= 3, &raw, &dah), "decode/share-version-1", true);
        }
        // higher share versions are not restricted
        let mut ods2 = ods.clone();
        ods2[i][NS_SIZE] = (rng.range(2, 127) as u8) << 1;
        let ver = pick_ver(rng);
        if let Ok(eds2) = ExtendedDataSquare::from_ods(ods2, AppVersion::from_u64(ver).unwrap()) {
            let dah2 = DataAvailabilityHeader::from_eds(&eds2);
            out.op(decode_line(ver, true, &shrex_codec::eds_encode(&eds2), &dah2), "decode/share-version-high", true);
        }
    }

    /// squares as real blocks end: the last original share(s) are tail padding (namespace, info byte, then zeros) or a blob
    /// share whose tail is zero padding.  Cutting 1..511 bytes off the honest payload removes only zero bytes: a decoder
    /// that zero-fills a short last share would rebuild the square and accept a payload that is NOT the original data
    /// square; the real one must reject every such cut (and a cut of a whole share).
    fn gen_zero_tailed(&mut self, rng: &mut Rng, k: usize, out: &mut Emitter) {
        let ver = pick_ver(rng);
        let app = AppVersion::from_u64(ver).unwrap();
        let (mut ods, _) = d_common::gen_ods(rng, k);
        let n = ods.len();
        let tail_pad = |_: &mut Rng| {
            let mut s = Namespace::TAIL_PADDING.as_bytes().to_vec();
            s.push(1);
            s.resize(SHARE, 0);
            s
        };
        let variant = rng.below(3);
        match variant {
            0 => ods[n - 1] = tail_pad(rng),
            1 => {
                // the last two shares are tail padding
                ods[n - 1] = tail_pad(rng);
                if n >= 2 {
                    ods[n - 2] = tail_pad(rng);
                }
            }
            _ => {
                // a blob share whose last bytes are zero padding
                let z = rng.usize(256, SHARE - NS_SIZE - 8);
                for b in ods[n - 1].iter_mut().skip(SHARE - z) {
                    *b = 0;
                }
            }
        }
        let Ok(eds) = ExtendedDataSquare::from_ods(ods.clone(), app) else { return };
        let dah = DataAvailabilityHeader::from_eds(&eds);
        let raw = shrex_codec::eds_encode(&eds);
        out.op(decode_line(ver, true, &raw, &dah), "decode/zero-tailed-honest", true);
        let mut cuts = vec![1usize, 2, 255, 511, 512];
        for _ in 0..3 {
            cuts.push(rng.usize(3, 510));
        }
        for cut in cuts {
            let tag = if cut == 512 { "decode/zero-tailed-cut-whole-share" } else { "decode/zero-tailed-cut-bytes" };
            out.op(decode_line(ver, false, &raw[..raw.len() - cut], &dah), tag, true);
        }
    }

    /// shapes: non-power-of-two widths, a single random blob of bytes, unsorted namespaces, parity namespace
    fn gen_shapes(&mut self, rng: &mut Rng, out: &mut Emitter) {
        let ver = pick_ver(rng);
        let app = AppVersion::from_u64(ver).unwrap();
        let (_, _, dah, _) = honest(rng, 2, app);
        for k in [3usize, 5, 6] {
            let (ods, _) = d_common::gen_ods(rng, k);
            out.op(decode_line(ver, false, &ods.concat(), &dah), "decode/non-power-of-two-width", true);
        }
        // random bytes of whole-share length
        let nsh = rng.usize(1, 4);
        let r = rng.bytes(SHARE * nsh);
        out.op(decode_line(ver, false, &r, &dah), "decode/random-bytes", false);
        // unsorted: reverse a square with at least two namespaces
        let (mut ods, nss) = d_common::gen_ods(rng, 2);
        if nss.len() > 1 {
            ods.reverse();
            out.op(decode_line(ver, false, &ods.concat(), &dah), "decode/unsorted", true);
        }
        // all shares in the parity namespace / tail padding: structurally fine
        for ns in [Namespace::PARITY_SHARE, Namespace::TAIL_PADDING] {
            let k = *rng.pick(&[1usize, 2]);
            let ods: Vec<Vec<u8>> = (0..k * k).map(|_| d_common::ods_share(rng, &ns)).collect();
            if let Ok(eds) = ExtendedDataSquare::from_ods(ods.clone(), app) {
                let d = DataAvailabilityHeader::from_eds(&eds);
                out.op(decode_line(ver, true, &ods.concat(), &d), "decode/reserved-namespace-only", true);
            } else {
                out.op(decode_line(ver, false, &ods.concat(), &dah), "decode/reserved-namespace-only", true);
            }
        }
        // `new`: too few shares, width 6, width 3
        out.op(encode_line(ver, 1, &[d_common::ods_share(rng, &Namespace::TAIL_PADDING)]), "encode/too-few", true);
        out.op(encode_line(ver, 0, &[]), "encode/too-few", true);
        for w in [3usize, 6] {
            let shares: Vec<Vec<u8>> = (0..w * w).map(|_| d_common::ods_share(rng, &Namespace::TAIL_PADDING)).collect();
            out.op(encode_line(ver, w, &shares), "encode/width-not-power-of-two", true);
        }
    }
}

impl Prop for C09 {
    fn id(&self) -> &'static str {
        "C09"
    }
    fn rule(&self) -> &'static str {
        "decode: honest payloads (real encode of a real from_ods square, DAH = from_eds) for ODS widths 1,2,4,8(,16,32) and \
         app versions 1..7; every share-boundary truncation for widths 1,2 (sampled above), truncations inside a share, \
         appended bytes/shares, share swaps, single-bit flips in namespace version / zero prefix / id / info byte / payload, \
         other app versions, share version 1 under every app version, DAH of another square / exchanged / one root replaced / \
         root dropped / empty, non-power-of-two widths, unsorted, reserved namespaces.  encode: valid squares and malformed \
         ones for ExtendedDataSquare::new.  Each decode line carries the real codec's parity quadrants as the oracle for `enc`. \
         Non-trivial = everything except random byte blobs and no-op swaps; distinct = distinct (op, result) lines."
    }
    fn gen_ops(&mut self, rng: &mut Rng, tier: Tier, out: &mut Emitter) {
        let thorough = tier == Tier::Thorough;
        let plan: &[(usize, usize, usize)] = if thorough {
            &[(1, 40, 6), (2, 40, 8), (4, 25, 8), (8, 10, 6), (16, 3, 3), (32, 1, 1)]
        } else {
            &[(1, 6, 3), (2, 6, 4), (4, 4, 4), (8, 2, 2), (16, 1, 1)]
        };
        for &(k, squares, muts) in plan {
            for _ in 0..squares {
                self.gen_square(rng, k, muts, out);
            }
        }
        for _ in 0..(if thorough { 10 } else { 2 }) {
            let k = *rng.pick(&[1usize, 2, 4]);
            self.gen_share_v1(rng, k, out);
            self.gen_shapes(rng, out);
            for zk in [1usize, 2, 4] {
                self.gen_zero_tailed(rng, zk, out);
            }
        }
        if thorough {
            // more shards than GF(2^8) leopard supports: 129 × 129 shares
            let ver = 7;
            let k = 129usize;
            let share = d_common::ods_share(rng, &Namespace::TAIL_PADDING);
            let raw: Vec<u8> = (0..k * k).flat_map(|_| share.clone()).collect();
            let (_, _, dah, _) = honest(rng, 1, AppVersion::V7);
            out.op(decode_line(ver, false, &raw, &dah), "decode/too-many-shards", true);
        }
    }
    fn run(&mut self, line: &str) -> String {
        match opname(line) {
            "reset" => "ok".into(),
            "decode" => {
                let (Some(ver), Some(raw), Some(dah)) = (arg_u64(line, "ver"), arg_hex(line, "raw"), dah_from_line(line)) else {
                    return "bad-op".into();
                };
                let Some(app) = AppVersion::from_u64(ver) else { return "bad-op".into() };
                match shrex_codec::eds_decode_and_verify(&raw, d_common::HEIGHT, &dah, app) {
                    Ok(eds) => eds_result(&eds),
                    Err((class, msg)) => {
                        let k = if msg.starts_with("Empty raw data") {
                            "EmptyRawData".to_string()
                        } else if msg.starts_with("Length of raw data") {
                            "NotMultipleOfShareSize".to_string()
                        } else if msg.starts_with("EDS verification failed") {
                            "DahMismatch".to_string()
                        } else {
                            kind_of_types_error_text(&msg)
                        };
                        format!("err {class}:{k}")
                    }
                }
            }
            "encode" => {
                let (Some(ver), Some(data)) = (arg_u64(line, "ver"), arg(line, "data").and_then(unhxl)) else {
                    return "bad-op".into();
                };
                let Some(app) = AppVersion::from_u64(ver) else { return "bad-op".into() };
                match ExtendedDataSquare::new(data, "Leopard".to_string(), app) {
                    Err(e) => format!("err {}", d_common::err_kind(&e)),
                    Ok(eds) => format!("ok {}", hx(&shrex_codec::eds_encode(&eds))),
                }
            }
            _ => "bad-op".into(),
        }
    }
}

fn main() {
    main_for(C09);
}

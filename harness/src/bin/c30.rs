//! C30 — Header-ex wire framing round-trips under any chunking.
//!
//! Runs the REAL `HeaderCodec` (through the cfg-guarded wrappers in `node/src/p2p/header_ex.rs`)
//! over an in-memory `AsyncRead` that hands out the stream in caller-chosen chunks.
use std::pin::Pin;
use std::task::{Context, Poll};

use celestia_proto::p2p::pb::header_request::Data;
use celestia_proto::p2p::pb::{HeaderRequest, HeaderResponse};
use futures::io::AsyncRead;
use lumina_node::verif::p2p::header_ex as hx_hooks;
use verif_harness::*;

/// S9: what happens on one chosen `read` call (0-based) beside chunking
#[derive(Clone, Copy, PartialEq)]
enum Event {
    /// the call returns an I/O error (`Ok(Err(e)) => return Err(e)` in `read_up_to`)
    Fail(usize),
    /// the call never completes: `timeout` fires (`Err(_) => break`)
    Pend(usize),
    /// the call delivers its chunk only after `block_ms` (> the time limit): the next loop iteration
    /// finds `time_limit.checked_sub(now.elapsed())` = None
    Block(usize),
}

fn event_of(line: &str) -> Option<Event> {
    if let Some(i) = arg_u64(line, "fail") {
        Some(Event::Fail(i as usize))
    } else if let Some(i) = arg_u64(line, "pend") {
        Some(Event::Pend(i as usize))
    } else {
        arg_u64(line, "block").map(|i| Event::Block(i as usize))
    }
}

/// reader that returns at most `cuts[i]` bytes on its i-th read (everything once cuts are used up)
struct ChunkReader {
    data: Vec<u8>,
    pos: usize,
    cuts: Vec<u64>,
    next: usize,
    event: Option<Event>,
    block_ms: u64,
}

impl AsyncRead for ChunkReader {
    fn poll_read(mut self: Pin<&mut Self>, _cx: &mut Context<'_>, buf: &mut [u8]) -> Poll<std::io::Result<usize>> {
        match self.event {
            Some(Event::Fail(i)) if i == self.next => {
                self.next += 1;
                return Poll::Ready(Err(std::io::Error::new(std::io::ErrorKind::ConnectionReset, "verif: injected I/O error")));
            }
            // no waker registered: only the surrounding `timeout` can end this read
            Some(Event::Pend(i)) if i == self.next => return Poll::Pending,
            Some(Event::Block(i)) if i == self.next => std::thread::sleep(std::time::Duration::from_millis(self.block_ms)),
            _ => {}
        }
        let cut = if self.next < self.cuts.len() { self.cuts[self.next] as usize } else { usize::MAX };
        self.next += 1;
        let n = buf.len().min(cut).min(self.data.len() - self.pos);
        let pos = self.pos;
        buf[..n].copy_from_slice(&self.data[pos..pos + n]);
        self.pos += n;
        Poll::Ready(Ok(n))
    }
}

fn adler(b: &[u8]) -> u32 {
    let (mut a, mut s) = (1u32, 0u32);
    for &x in b {
        a = (a + x as u32) % 65521;
        s = (s + a) % 65521;
    }
    s * 65536 + a
}

fn show_req(r: &HeaderRequest) -> String {
    let d = match &r.data {
        None => "none".to_string(),
        Some(Data::Origin(o)) => format!("o:{o}"),
        Some(Data::Hash(h)) => format!("h:{}", hx(h)),
    };
    format!("a={} d={d}", r.amount)
}

fn digest(r: &HeaderResponse) -> String {
    let b = &r.body;
    format!("{}:{}:{}:{}", r.status_code, b.len(), adler(b), if b.len() <= 32 { hx(b) } else { "+".into() })
}

fn show_resps(rs: &[HeaderResponse]) -> String {
    format!("n={} {}", rs.len(), rs.iter().map(digest).collect::<Vec<_>>().join(","))
}

fn parse_req(line: &str) -> Option<HeaderRequest> {
    let amount = arg_u64(line, "a")?;
    let d = arg(line, "d")?;
    let data = if d == "none" {
        None
    } else if let Some(o) = d.strip_prefix("o:") {
        Some(Data::Origin(o.parse().ok()?))
    } else if let Some(h) = d.strip_prefix("h:") {
        Some(Data::Hash(unhx(h)?))
    } else {
        return None;
    };
    Some(HeaderRequest { amount, data })
}

/// item = status:len:fill:prefix  → body = prefix ++ fill^(len - |prefix|)
fn parse_items(s: &str) -> Option<Vec<HeaderResponse>> {
    if s == "-" {
        return Some(vec![]);
    }
    s.split(',')
        .map(|it| {
            let p: Vec<&str> = it.split(':').collect();
            if p.len() != 4 {
                return None;
            }
            let status: i32 = p[0].parse().ok()?;
            let len: usize = p[1].parse().ok()?;
            let fill = u8::from_str_radix(p[2], 16).ok()?;
            let mut body = unhx(p[3])?;
            if body.len() > len {
                return None;
            }
            body.resize(len, fill);
            Some(HeaderResponse { body, status_code: status })
        })
        .collect()
}

struct C30 {
    rt: tokio::runtime::Runtime,
}

impl C30 {
    fn read_req(&self, data: Vec<u8>, cuts: Vec<u64>, event: Option<Event>) -> String {
        // REQUEST_TIME_LIMIT is 1 s
        let mut r = ChunkReader { data, pos: 0, cuts, next: 0, event, block_ms: 1050 };
        match self.rt.block_on(hx_hooks::codec_read_request(&mut r)) {
            Ok(req) => format!("ok {}", show_req(&req)),
            Err(_) => "err".into(),
        }
    }
    fn read_resp(&self, data: Vec<u8>, cuts: Vec<u64>, event: Option<Event>) -> String {
        // RESPONSE_TIME_LIMIT is 5 s
        let mut r = ChunkReader { data, pos: 0, cuts, next: 0, event, block_ms: 5050 };
        match self.rt.block_on(hx_hooks::codec_read_response(&mut r)) {
            Ok(rs) => format!("ok {}", show_resps(&rs)),
            Err(_) => "err".into(),
        }
    }
}

fn wire_show(w: &[u8]) -> String {
    format!("wl={} wa={} w={}", w.len(), adler(w), if w.len() <= 256 { hx(w) } else { "+".into() })
}

const U64S: &[u64] = &[
    0, 1, 2, 63, 64, 127, 128, 129, 255, 256, 512, 513, 16383, 16384, 2097151, 2097152, 268435455, 268435456,
    4294967295, 4294967296, 34359738367, 34359738368, 1 << 42, (1 << 49) - 1, 1 << 49, (1 << 56) - 1, 1 << 56,
    (1 << 63) - 1, 1 << 63, u64::MAX - 1, u64::MAX,
];

fn gen_u64(rng: &mut Rng) -> u64 {
    match rng.below(4) {
        0 => *rng.pick(U64S),
        1 => rng.below(1000),
        2 => rng.next_u64() >> rng.below(64),
        _ => rng.next_u64(),
    }
}

fn gen_req(rng: &mut Rng) -> HeaderRequest {
    let amount = gen_u64(rng);
    let data = match rng.below(7) {
        0 => None,
        1 | 2 | 3 => Some(Data::Origin(gen_u64(rng))),
        _ => {
            let len = match rng.below(8) {
                0 => 0,
                1 => 1,
                2 | 3 | 4 => 32,
                5 => rng.usize(2, 140),
                6 => rng.usize(120, 135),
                _ => rng.usize(980, 1040), // around REQUEST_SIZE_LIMIT
            };
            Some(Data::Hash(rng.bytes(len)))
        }
    };
    HeaderRequest { amount, data }
}

fn req_line(r: &HeaderRequest) -> String {
    show_req(r)
}

fn gen_cuts(rng: &mut Rng, total: usize) -> Vec<u64> {
    match rng.below(6) {
        0 => vec![],
        1 => vec![1; total + 2],
        2 => (0..total + 2).map(|_| rng.range(1, 3)).collect(),
        3 => (0..rng.usize(1, 8)).map(|_| rng.range(1, (total as u64).max(1) + 3)).collect(),
        4 => {
            let k = rng.range(1, 7);
            vec![k; total / k as usize + 2]
        }
        _ => (0..rng.usize(1, 30)).map(|_| rng.range(1, 40)).collect(),
    }
}

fn item_of(status: i32, body_len: usize, rng: &mut Rng) -> (String, usize) {
    let fill = rng.byte();
    let plen = body_len.min(rng.usize(0, 6));
    let prefix = rng.bytes(plen);
    (format!("{status}:{body_len}:{fill:02x}:{}", hx(&prefix)), body_len)
}

fn gen_status(rng: &mut Rng) -> i32 {
    match rng.below(10) {
        0 => 0,
        1 | 2 | 3 => 1,
        4 | 5 => 2,
        6 => *rng.pick(&[3, 127, 128, -1, i32::MIN, i32::MAX, -128]),
        _ => rng.next_u64() as i32,
    }
}

fn gen_body_len(rng: &mut Rng) -> usize {
    match rng.below(10) {
        0 => 0,
        1 => 1,
        2 => *rng.pick(&[126, 127, 128, 129]),
        3 => *rng.pick(&[16382, 16383, 16384, 16385]),
        4 | 5 => rng.usize(2, 40),
        _ => rng.usize(2, 400),
    }
}

fn gen_items(rng: &mut Rng, n: usize, small: bool) -> String {
    if n == 0 {
        return "-".into();
    }
    (0..n)
        .map(|_| {
            let len = if small { rng.usize(0, 12) } else { gen_body_len(rng) };
            item_of(gen_status(rng), len, rng).0
        })
        .collect::<Vec<_>>()
        .join(",")
}

/// protobuf-shaped adversarial bodies: unknown fields of every wire type, groups, nesting,
/// non-minimal varints, repeated known fields, wrong wire types
fn gen_pb_body(rng: &mut Rng, depth: u32) -> Vec<u8> {
    fn varint(mut v: u64, pad: usize, out: &mut Vec<u8>) {
        // optionally non-minimal: `pad` extra continuation bytes
        let mut bytes = vec![];
        loop {
            if v < 0x80 {
                bytes.push(v as u8);
                break;
            }
            bytes.push((v & 0x7f) as u8 | 0x80);
            v >>= 7;
        }
        if pad > 0 && bytes.len() + pad <= 10 {
            let l = bytes.len();
            bytes[l - 1] |= 0x80;
            for _ in 0..pad - 1 {
                bytes.push(0x80);
            }
            bytes.push(0);
        }
        out.extend(bytes);
    }
    let mut out = vec![];
    let nf = rng.usize(0, 4);
    for _ in 0..nf {
        let tag = match rng.below(6) {
            0 => 1,
            1 => 2,
            2 => 3,
            3 => rng.range(4, 20),
            4 => rng.range(1, 1 << 29),
            _ => rng.range(0, 3),
        };
        let wt = match rng.below(10) {
            0 | 1 | 2 => 0,
            3 | 4 | 5 => 2,
            6 => 1,
            7 => 5,
            8 => 3,
            _ => rng.range(0, 7),
        };
        let pad = if rng.chance(1, 6) { rng.usize(1, 9) } else { 0 };
        varint((tag << 3) | wt, pad, &mut out);
        match wt {
            0 => {
                let pad = if rng.chance(1, 6) { rng.usize(1, 9) } else { 0 };
                varint(gen_u64(rng), pad, &mut out)
            }
            1 => {
                let n = if rng.chance(1, 8) { rng.usize(0, 7) } else { 8 };
                out.extend(rng.bytes(n))
            }
            5 => {
                let n = if rng.chance(1, 8) { rng.usize(0, 3) } else { 4 };
                out.extend(rng.bytes(n))
            }
            2 => {
                let n = rng.usize(0, 20);
                let claimed = if rng.chance(1, 8) { n as u64 + rng.range(1, 5) } else { n as u64 };
                varint(claimed, 0, &mut out);
                out.extend(rng.bytes(n));
            }
            3 => {
                if depth > 0 {
                    out.extend(gen_pb_body(rng, depth - 1));
                }
                let end_tag = if rng.chance(1, 8) { tag + 1 } else { tag };
                if !rng.chance(1, 10) {
                    varint((end_tag << 3) | 4, 0, &mut out);
                }
            }
            _ => {}
        }
    }
    out
}

fn nested_groups(depth: usize, tag: u64) -> Vec<u8> {
    // depth nested StartGroup(tag) ... EndGroup(tag), tag < 16 so that keys are one byte
    let mut v = vec![];
    for _ in 0..depth {
        v.push(((tag << 3) | 3) as u8);
    }
    for _ in 0..depth {
        v.push(((tag << 3) | 4) as u8);
    }
    v
}

fn frame(body: &[u8]) -> Vec<u8> {
    let mut v = vec![];
    prost::encode_length_delimiter(body.len(), &mut v).unwrap();
    v.extend_from_slice(body);
    v
}

impl Prop for C30 {
    fn id(&self) -> &'static str {
        "C30"
    }
    fn rule(&self) -> &'static str {
        "req/resp: a message (u64 boundary values, hashes of length 0..1040 i.e. across the 1024-byte request limit, \
         response lists of 0..6 items with i32 status codes incl. negative and bodies of 0..16385 bytes, a few lists \
         across the 10 MiB response limit) is written by the real HeaderCodec, optionally truncated (every byte \
         position for small wires), and read back through a reader that delivers caller-chosen chunk sizes \
         (1-byte, random, larger than the rest, none). rawreq/rawresp: garbage, mutated valid wires, \
         protobuf-shaped adversarial bodies (unknown fields of all wire types, nested groups up to depth 102, \
         non-minimal and overlong varints, wrong wire types, short payloads), premature EOF. S9: reader events on one read call — \
         an I/O error (fail=i: before the first byte, inside delimiter / frame, on the call that would see EOF, on a call never made), \
         a read that never completes (pend=i) or completes after the 1 s limit (block=i), requests only. delim: parse_delimiter \
         on varint boundary cases. Non-trivial = everything except uniformly random garbage; distinct = distinct (op, result)."
    }
    fn gen_ops(&mut self, rng: &mut Rng, tier: Tier, out: &mut Emitter) {
        let thorough = tier == Tier::Thorough;
        let rounds = if thorough { 60 } else { 3 };
        // delimiter boundary cases
        for &v in U64S {
            let mut b = vec![];
            prost::encoding::encode_varint(v, &mut b);
            let mut t = b.clone();
            t.extend(rng.bytes(3));
            out.op(format!("delim data={}", hx(&t)), "delim/valid", true);
            for k in 0..b.len() {
                out.op(format!("delim data={}", hx(&b[..k])), "delim/truncated", true);
            }
        }
        for tenth in [0u8, 1, 2, 3, 0x7f, 0x80, 0x81, 0xff] {
            let mut b = vec![0xffu8; 9];
            b.push(tenth);
            b.push(7);
            out.op(format!("delim data={}", hx(&b)), "delim/ten-bytes", true);
            let mut b = vec![0x80u8; 9];
            b.push(tenth);
            out.op(format!("delim data={}", hx(&b)), "delim/ten-bytes", true);
        }
        for n in 1..=12 {
            out.op(format!("delim data={}", hx(&vec![0x80u8; n])), "delim/all-continuation", true);
            let mut b = vec![0x80u8; n];
            b.push(0);
            out.op(format!("delim data={}", hx(&b)), "delim/non-minimal", true);
        }
        for _ in 0..rounds * 30 {
            let n = rng.usize(0, 12);
            out.op(format!("delim data={}", hx(&rng.bytes(n))), "delim/random", false);
        }

        // requests
        for _ in 0..rounds * 60 {
            let r = gen_req(rng);
            let wire = prost::Message::encode_length_delimited_to_vec(&r);
            let cuts = gen_cuts(rng, wire.len());
            out.op(format!("req {} cuts={}", req_line(&r), natl(&cuts)), "req/roundtrip", true);
            if wire.len() <= 60 || rng.chance(1, 10) {
                // truncation at every byte
                for k in 0..wire.len() {
                    let cuts = gen_cuts(rng, k);
                    out.op(format!("req {} cuts={} trunc={k}", req_line(&r), natl(&cuts)), "req/trunc-every-byte", true);
                }
            } else {
                for _ in 0..4 {
                    let k = rng.usize(0, wire.len() - 1);
                    let cuts = gen_cuts(rng, k);
                    out.op(format!("req {} cuts={} trunc={k}", req_line(&r), natl(&cuts)), "req/trunc", true);
                }
            }
        }
        // requests exactly around the size limit
        for hl in 1010..=1024usize {
            let r = HeaderRequest { amount: rng.below(3), data: Some(Data::Hash(rng.bytes(hl))) };
            out.op(format!("req {} cuts={}", req_line(&r), natl(&gen_cuts(rng, 40))), "req/around-limit", true);
        }

        // responses
        for _ in 0..rounds * 40 {
            let n = match rng.below(12) {
                0 => 0,
                1 | 2 | 3 => 1,
                _ => rng.usize(2, 6),
            };
            let small = rng.chance(1, 2);
            let items = gen_items(rng, n, small);
            let rs = parse_items(&items).unwrap();
            let total: usize = rs.iter().map(|r| prost::Message::encode_length_delimited_to_vec(r).len()).sum();
            let cuts = gen_cuts(rng, total.min(300));
            out.op(format!("resp items={items} cuts={}", natl(&cuts)), "resp/roundtrip", true);
            if total <= 80 {
                for k in 0..total {
                    let cuts = gen_cuts(rng, k);
                    out.op(format!("resp items={items} cuts={} trunc={k}", natl(&cuts)), "resp/trunc-every-byte", true);
                }
            } else {
                for _ in 0..4 {
                    let k = rng.usize(0, total - 1);
                    let cuts = gen_cuts(rng, k.min(300));
                    out.op(format!("resp items={items} cuts={} trunc={k}", natl(&cuts)), "resp/trunc", true);
                }
            }
        }
        // response lists across the 10 MiB limit (big chunks only: the read has a 5 s time limit)
        let bigs = if thorough { 6 } else { 2 };
        for i in 0..bigs {
            let lim = hx_hooks::RESPONSE_SIZE_LIMIT_V;
            // three items; the last one ends just below / exactly at / above the limit
            let a = rng.usize(1000, 5000);
            let b = rng.usize(1 << 20, 3 << 20);
            let over: i64 = match i % 3 {
                0 => 0,
                1 => 1,
                _ => -(rng.range(1, 50) as i64),
            };
            // frame sizes: body + key(1) + len varint + status(2) + delimiter varint
            let fa = frame_size(a);
            let fb = frame_size(b);
            let mut c = lim - fa - fb;
            // find c with frame_size(c) == lim - fa - fb + over
            let want = (lim - fa - fb) as i64 + over;
            while frame_size(c) as i64 > want {
                c -= 1;
            }
            let items = format!("1:{a}:11:-,1:{b}:22:0102,2:{c}:33:ff");
            let cuts = vec![rng.range(1 << 16, 1 << 20); 40];
            out.op(format!("resp items={items} cuts={}", natl(&cuts)), "resp/around-10MiB", true);
        }

        // raw streams
        for _ in 0..rounds * 120 {
            let body = match rng.below(6) {
                0 => {
                    let n = rng.below(30) as usize;
                    rng.bytes(n)
                }
                _ => gen_pb_body(rng, 3),
            };
            let mut s = if rng.chance(5, 6) { frame(&body) } else { body.clone() };
            if rng.chance(1, 4) {
                // second frame / trailing bytes
                let extra = if rng.bool() {
                    frame(&gen_pb_body(rng, 2))
                } else {
                    let n = rng.usize(1, 5);
                    rng.bytes(n)
                };
                s.extend(extra);
            }
            if rng.chance(1, 5) && !s.is_empty() {
                let i = rng.usize(0, s.len() - 1);
                s[i] ^= 1 << rng.below(8);
            }
            let mut cuts = gen_cuts(rng, s.len());
            let mut tag = "pb-shaped";
            if rng.chance(1, 12) && !cuts.is_empty() {
                let i = rng.usize(0, cuts.len() - 1);
                cuts[i] = 0;
                tag = "pb-shaped+early-eof";
            }
            let which = if rng.bool() { "rawreq" } else { "rawresp" };
            out.op(format!("{which} data={} cuts={}", hx(&s), natl(&cuts)), &format!("{which}/{tag}"), true);
        }
        for _ in 0..rounds * 40 {
            // mutated valid wires
            let (mut s, which) = if rng.bool() {
                (prost::Message::encode_length_delimited_to_vec(&gen_req(rng)), "rawreq")
            } else {
                let n = rng.usize(1, 3);
                let items = gen_items(rng, n, true);
                let mut w = vec![];
                for r in parse_items(&items).unwrap() {
                    w.extend(prost::Message::encode_length_delimited_to_vec(&r));
                }
                (w, "rawresp")
            };
            match rng.below(4) {
                0 if !s.is_empty() => {
                    let i = rng.usize(0, s.len() - 1);
                    s[i] = rng.byte();
                }
                1 if !s.is_empty() => {
                    let i = rng.usize(0, s.len() - 1);
                    s.remove(i);
                }
                2 => {
                    let i = rng.usize(0, s.len());
                    s.insert(i, rng.byte());
                }
                _ => {
                    let n = rng.usize(1, 4);
                    s.extend(rng.bytes(n))
                }
            }
            out.op(format!("{which} data={} cuts={}", hx(&s), natl(&gen_cuts(rng, s.len()))), &format!("{which}/mutated-valid"), true);
        }
        for depth in [1usize, 2, 50, 98, 99, 100, 101, 102, 150] {
            for which in ["rawreq", "rawresp"] {
                let s = frame(&nested_groups(depth, 5));
                out.op(format!("{which} data={} cuts=-", hx(&s)), &format!("{which}/nested-groups"), true);
            }
        }
        // S9: reader events on one `read` call.  `fail=i`: I/O error on the i-th call — before the first byte,
        // in the middle of the delimiter / of a frame, on the call that would see EOF, on a call that is never
        // made (buffer full / after EOF).  `pend=i` / `block=i` (requests only: each costs the 1 s time limit):
        // the i-th call never completes / completes after the limit.
        for _ in 0..rounds * 20 {
            let r = gen_req(rng);
            let wire = prost::Message::encode_length_delimited_to_vec(&r);
            let cuts: Vec<u64> = (0..rng.usize(0, 6)).map(|_| rng.range(1, (wire.len() as u64 / 2).max(2))).collect();
            let fail = rng.usize(0, cuts.len() + 2);
            let trunc = if rng.chance(1, 4) { format!(" trunc={}", rng.usize(0, wire.len())) } else { String::new() };
            out.op(format!("req {} cuts={}{trunc} fail={fail}", req_line(&r), natl(&cuts)), "req/io-error", true);
        }
        for hl in [1019usize, 1020, 1021, 1024] {
            // the buffer fills up (or not quite): the failing call after that is made or not
            let r = HeaderRequest { amount: 1, data: Some(Data::Hash(rng.bytes(hl))) };
            for fail in [1usize, 2, 3] {
                out.op(format!("req {} cuts=1000 fail={fail}", req_line(&r)), "req/io-error-around-limit", true);
            }
        }
        for _ in 0..rounds * 20 {
            let n = rng.usize(1, 4);
            let items = gen_items(rng, n, true);
            let rs = parse_items(&items).unwrap();
            let total: usize = rs.iter().map(|r| prost::Message::encode_length_delimited_to_vec(r).len()).sum();
            let cuts: Vec<u64> = (0..rng.usize(0, 6)).map(|_| rng.range(1, (total as u64 / 2).max(2))).collect();
            let fail = rng.usize(0, cuts.len() + 2);
            let trunc = if rng.chance(1, 4) { format!(" trunc={}", rng.usize(0, total)) } else { String::new() };
            out.op(format!("resp items={items} cuts={}{trunc} fail={fail}", natl(&cuts)), "resp/io-error", true);
        }
        for _ in 0..rounds * 10 {
            let body = gen_pb_body(rng, 2);
            let s = frame(&body);
            let cuts: Vec<u64> = (0..rng.usize(0, 5)).map(|_| rng.range(1, 10)).collect();
            let fail = rng.usize(0, cuts.len() + 2);
            let which = if rng.bool() { "rawreq" } else { "rawresp" };
            out.op(format!("{which} data={} cuts={} fail={fail}", hx(&s), natl(&cuts)), &format!("{which}/io-error"), true);
        }
        for k in 0..(if thorough { 12 } else { 4 }) {
            let r = gen_req(rng);
            let wire = prost::Message::encode_length_delimited_to_vec(&r);
            let cuts: Vec<u64> = (0..rng.usize(1, 5)).map(|_| rng.range(1, wire.len() as u64 + 2)).collect();
            let i = rng.usize(0, cuts.len() - 1);
            let (word, tag) = if k % 2 == 0 { ("pend", "req/read-times-out") } else { ("block", "req/time-limit-passed") };
            out.op(format!("req {} cuts={} {word}={i}", req_line(&r), natl(&cuts)), tag, true);
        }
        if thorough {
            // one response read that times out (5 s)
            out.op("rawresp data=0408011202aabb cuts=3,2 pend=1".to_string(), "rawresp/read-times-out", true);
        }
        for _ in 0..rounds * 30 {
            let n = rng.usize(0, 40);
            let which = if rng.bool() { "rawreq" } else { "rawresp" };
            out.op(format!("{which} data={} cuts={}", hx(&rng.bytes(n)), natl(&gen_cuts(rng, n))), &format!("{which}/random"), false);
        }
    }

    fn run(&mut self, line: &str) -> String {
        let cuts = arg(line, "cuts").and_then(unnatl).unwrap_or_default();
        let event = event_of(line);
        match opname(line) {
            "reset" => "ok".into(),
            "delim" => {
                let Some(d) = arg_hex(line, "data") else { return "bad-op".into() };
                match hx_hooks::parse_delimiter_v(&d) {
                    Some((len, rest)) => format!("some {len} {}", hx(rest)),
                    None => "none".into(),
                }
            }
            "req" => {
                let Some(r) = parse_req(line) else { return "bad-op".into() };
                let mut wire: Vec<u8> = vec![];
                if self.rt.block_on(hx_hooks::codec_write_request(&mut wire, r)).is_err() {
                    return "write-err".into();
                }
                let ws = wire_show(&wire);
                if let Some(k) = arg_u64(line, "trunc") {
                    wire.truncate(k as usize);
                }
                format!("{ws} {}", self.read_req(wire, cuts, event))
            }
            "resp" => {
                let Some(rs) = arg(line, "items").and_then(parse_items) else { return "bad-op".into() };
                let mut wire: Vec<u8> = vec![];
                if self.rt.block_on(hx_hooks::codec_write_response(&mut wire, rs)).is_err() {
                    return "write-err".into();
                }
                let ws = wire_show(&wire);
                if let Some(k) = arg_u64(line, "trunc") {
                    wire.truncate(k as usize);
                }
                format!("{ws} {}", self.read_resp(wire, cuts, event))
            }
            "rawreq" => {
                let Some(d) = arg_hex(line, "data") else { return "bad-op".into() };
                self.read_req(d, cuts, event)
            }
            "rawresp" => {
                let Some(d) = arg_hex(line, "data") else { return "bad-op".into() };
                self.read_resp(d, cuts, event)
            }
            _ => "bad-op".into(),
        }
    }

    fn result_tag(&self, _line: &str, result: &str) -> Option<String> {
        let w: Vec<&str> = result.split(' ').collect();
        Some(if w.contains(&"ok") { "ok" } else if w.contains(&"err") { "err" } else { w[0] }.to_string())
    }
}

fn varint_len(v: usize) -> usize {
    prost::encoding::encoded_len_varint(v as u64)
}
/// size on the wire of a response with non-zero one-byte status and a non-empty body of `n` bytes
fn frame_size(n: usize) -> usize {
    let body = 1 + varint_len(n) + n + 2;
    varint_len(body) + body
}

fn main() {
    let rt = tokio::runtime::Builder::new_current_thread().enable_time().build().unwrap();
    main_for(C30 { rt });
}

//! C06 — Namespace data is sound and complete.
#[path = "../d_common.rs"]
mod d_common;

use celestia_proto::proof::pb::Proof as RawProof;
use celestia_proto::shwap::{RowNamespaceData as RawRowNamespaceData, Share as RawShare};
use celestia_types::namespace_data::{NamespaceData, NamespaceDataId};
use celestia_types::nmt::{Namespace, NamespaceProof};
use celestia_types::row_namespace_data::{RowNamespaceData, RowNamespaceDataId};
use celestia_types::{DataAvailabilityHeader, ExtendedDataSquare, Share};
use d_common::*;
use verif_harness::*;

struct C06 {
    /// generator only (S10): number of user namespaces of the next squares (None = default 1..9) and the
    /// number of queried namespaces kept per square (None = all)
    users: Option<usize>,
    qcap: Option<usize>,
    eds: Option<ExtendedDataSquare>,
    dah: Option<DataAvailabilityHeader>,
}

/// `s:<start>/e:<end>/i:<ign>/a:<0 presence|1 absence+leaf|2 absence no leaf>/l:<leaf>/n:<nodes>`
fn proof_spec(p: &NamespaceProof) -> String {
    let nodes: Vec<Vec<u8>> = p.siblings().iter().map(nh).collect();
    let a = if p.is_of_presence() { 0 } else if p.leaf().is_some() { 1 } else { 2 };
    format!(
        "s:{}/e:{}/i:{}/a:{a}/l:{}/n:{}",
        p.start_idx(),
        p.end_idx(),
        p.max_ns_ignored() as u8,
        p.leaf().map(|l| hx(&nh(l))).unwrap_or_else(|| "-".into()),
        hxl(&nodes)
    )
}

#[derive(Clone)]
struct RowSpec {
    r: u16,
    start: u64,
    end: u64,
    ign: u8,
    absent: u8,
    leaf: Vec<u8>,
    nodes: Vec<Vec<u8>>,
    shares: Vec<Vec<u8>>,
    parity: u8,
}

impl RowSpec {
    fn of(r: u16, d: &RowNamespaceData, parity: bool) -> RowSpec {
        RowSpec {
            r,
            start: d.proof.start_idx() as u64,
            end: d.proof.end_idx() as u64,
            ign: d.proof.max_ns_ignored() as u8,
            absent: if d.proof.is_of_presence() { 0 } else if d.proof.leaf().is_some() { 1 } else { 2 },
            leaf: d.proof.leaf().map(nh).unwrap_or_default(),
            nodes: d.proof.siblings().iter().map(nh).collect(),
            shares: d.shares.iter().map(|s| s.to_vec()).collect(),
            parity: parity as u8,
        }
    }
    fn spec(&self) -> String {
        format!(
            "r:{}/s:{}/e:{}/i:{}/a:{}/l:{}/n:{}/d:{}/p:{}",
            self.r,
            self.start,
            self.end,
            self.ign,
            self.absent,
            hx(&self.leaf),
            hxl(&self.nodes),
            hxl(&self.shares),
            self.parity
        )
    }
    fn raw_spec(&self, hasproof: bool) -> String {
        format!(
            "hp:{}/s:{}/e:{}/i:{}/l:{}/n:{}/d:{}",
            hasproof as u8,
            self.start,
            self.end,
            self.ign,
            if self.absent == 1 { hx(&self.leaf) } else { "-".into() },
            hxl(&self.nodes),
            hxl(&self.shares)
        )
    }
    fn build(&self) -> Option<(u16, RowNamespaceData)> {
        let proof = build_proof(self.start as u32, self.end as u32, &self.nodes, self.ign == 1, self.absent, &self.leaf)?;
        let shares: Option<Vec<Share>> = self.shares.iter().map(|d| share_of(d, self.parity == 1)).collect();
        Some((self.r, RowNamespaceData { proof, shares: shares? }))
    }
}

fn fields(spec: &str) -> std::collections::HashMap<&str, &str> {
    spec.split('/').filter_map(|f| f.split_once(':')).collect()
}

fn parse_row(spec: &str) -> Option<RowSpec> {
    let f = fields(spec);
    Some(RowSpec {
        r: f.get("r")?.parse().ok()?,
        start: f.get("s")?.parse().ok()?,
        end: f.get("e")?.parse().ok()?,
        ign: f.get("i")?.parse().ok()?,
        absent: f.get("a")?.parse().ok()?,
        leaf: unhx(f.get("l")?)?,
        nodes: unhxl(f.get("n")?)?,
        shares: unhxl(f.get("d")?)?,
        parity: f.get("p")?.parse().ok()?,
    })
}

fn rows_arg(rows: &[RowSpec]) -> String {
    if rows.is_empty() { "-".into() } else { rows.iter().map(|r| r.spec()).collect::<Vec<_>>().join("|") }
}
fn raw_rows_arg(rows: &[(RowSpec, bool)]) -> String {
    if rows.is_empty() { "-".into() } else { rows.iter().map(|(r, hp)| r.raw_spec(*hp)).collect::<Vec<_>>().join("|") }
}

fn ns_plus(ns: &Namespace, delta: i32) -> Option<Namespace> {
    let mut b = ns.as_bytes().to_vec();
    let l = b.len() - 1;
    let v = b[l] as i32 + delta;
    if !(0..=255).contains(&v) {
        return None;
    }
    b[l] = v as u8;
    Namespace::from_raw(&b).ok()
}

impl C06 {
    fn gen_for_square(&mut self, rng: &mut Rng, w: usize, out: &mut Emitter) {
        let (eds, nss) = gen_eds_users(rng, w, self.users);
        let dah = DataAvailabilityHeader::from_eds(&eds);
        out.op(eds_line(&eds), &format!("eds/w{w}{}", if self.users.is_some() { "-many-ns" } else { "" }), true);
        // namespaces to query
        let mut queries: Vec<(Namespace, &str)> = nss.iter().map(|n| (*n, "present")).collect();
        for n in &nss {
            for d in [-1, 1] {
                if let Some(m) = ns_plus(n, d) {
                    if !nss.contains(&m) {
                        queries.push((m, "absent-neighbour"));
                    }
                }
            }
        }
        queries.push((Namespace::new_v0(&[0]).unwrap(), "below-all"));
        for n in [Namespace::TRANSACTION, Namespace::PAY_FOR_BLOB, Namespace::PRIMARY_RESERVED_PADDING, Namespace::TAIL_PADDING] {
            if !nss.contains(&n) {
                queries.push((n, "reserved-absent"));
            }
        }
        queries.push((Namespace::PARITY_SHARE, "parity"));
        queries.push((user_ns(rng), "random"));
        if let Some(cap) = self.qcap {
            // many-namespace squares: a random sample of the queries (every query costs ~50 ops)
            rng.shuffle(&mut queries);
            queries.truncate(cap);
        }
        let mut all_rows: Vec<(Namespace, Vec<RowSpec>)> = vec![];
        for (ns, tag) in &queries {
            out.op(format!("get ns={}", hx(ns.as_bytes())), &format!("get/{tag}"), true);
            let rows = eds.get_namespace_data(*ns, &dah, HEIGHT).unwrap();
            let specs: Vec<RowSpec> =
                rows.iter().map(|(id, d)| RowSpec::of(id.row_index(), d, *ns == Namespace::PARITY_SHARE)).collect();
            all_rows.push((*ns, specs));
        }
        // adversarial cases
        for qi in 0..all_rows.len() {
            let (ns, rows) = all_rows[qi].clone();
            let nsx = hx(ns.as_bytes());
            let tag = queries[qi].1;
            out.op(format!("verify ns={nsx} rows={}", rows_arg(&rows)), &format!("verify/honest/{tag}"), true);
            out.op(
                format!("recv ns={nsx} rows={}", raw_rows_arg(&rows.iter().map(|r| (r.clone(), true)).collect::<Vec<_>>())),
                &format!("recv/honest/{tag}"),
                true,
            );
            for r in &rows {
                out.op(format!("rowverify ns={nsx} row={}", r.spec()), &format!("rowverify/honest/{tag}"), true);
            }
            // rows of another query presented for this namespace
            let other = &all_rows[(qi + 1 + rng.usize(0, all_rows.len() - 2)) % all_rows.len()].1;
            if ns != Namespace::PARITY_SHARE {
                out.op(format!("verify ns={nsx} rows={}", rows_arg(other)), "verify/rows-of-other-namespace", true);
            }
            if rows.is_empty() {
                // claim data for a namespace no row covers
                if let Some(o) = other.first() {
                    if ns != Namespace::PARITY_SHARE {
                        out.op(format!("verify ns={nsx} rows={}", rows_arg(&[o.clone()])), "verify/data-for-uncovered-namespace", true);
                    }
                }
                continue;
            }
            // row-level
            let mut v = rows.clone();
            v.remove(rng.usize(0, v.len() - 1));
            out.op(format!("verify ns={nsx} rows={}", rows_arg(&v)), "verify/row-dropped", true);
            let mut v = rows.clone();
            v.push(rows[rng.usize(0, rows.len() - 1)].clone());
            out.op(format!("verify ns={nsx} rows={}", rows_arg(&v)), "verify/row-duplicated", true);
            if rows.len() >= 2 {
                let mut v = rows.clone();
                v.reverse();
                out.op(format!("verify ns={nsx} rows={}", rows_arg(&v)), "verify/rows-reversed", true);
                let mut v = rows.clone();
                let p = v[0].clone();
                v[0].start = v[1].start;
                v[0].end = v[1].end;
                v[0].nodes = v[1].nodes.clone();
                v[1].start = p.start;
                v[1].end = p.end;
                v[1].nodes = p.nodes;
                out.op(format!("verify ns={nsx} rows={}", rows_arg(&v)), "verify/proofs-swapped-between-rows", true);
            }
            out.op(format!("verify ns={nsx} rows=-"), "verify/no-rows", true);
            // share-level, on one row
            let j = rng.usize(0, rows.len() - 1);
            let base = rows[j].clone();
            let put = |out: &mut Emitter, r: RowSpec, tag: &str| {
                let mut v = rows.clone();
                v[j] = r.clone();
                out.op(format!("verify ns={nsx} rows={}", rows_arg(&v)), &format!("verify/{tag}"), true);
                out.op(format!("rowverify ns={nsx} row={}", r.spec()), &format!("rowverify/{tag}"), true);
            };
            let mut r = base.clone();
            r.ign = 0;
            put(out, r, "ign-flipped");
            let mut r = base.clone();
            r.r = (base.r + 1) % w as u16;
            out.op(format!("rowverify ns={nsx} row={}", r.spec()), "rowverify/other-row-index", true);
            let mut r = base.clone();
            r.r = w as u16 + 2;
            out.op(format!("rowverify ns={nsx} row={}", r.spec()), "rowverify/row-out-of-range", true);
            if !base.nodes.is_empty() {
                let mut r = base.clone();
                let i = rng.usize(0, r.nodes.len() - 1);
                r.nodes[i] = unordered_node(rng);
                put(out, r, "unordered-sibling");
                let mut r = base.clone();
                let i = rng.usize(0, r.nodes.len() - 1);
                r.nodes[i] = random_node(rng);
                put(out, r, "random-sibling");
                let mut r = base.clone();
                r.nodes.clear();
                put(out, r, "no-siblings");
                let mut r = base.clone();
                r.nodes.pop();
                put(out, r, "sibling-dropped");
            }
            if base.absent == 0 && !base.shares.is_empty() {
                let (_, honest) = base.build().unwrap();
                let n = base.shares.len();
                // omissions with a VALID narrowed range proof: only the completeness check can catch them
                if n >= 2 {
                    for (l, rr, tag) in [(1usize, 0usize, "first"), (0, 1, "last"), (1, 1, "both-ends")] {
                        if l + rr >= n {
                            continue;
                        }
                        let left: Vec<&[u8]> = base.shares[..l].iter().map(|s| &s[..]).collect();
                        let right: Vec<&[u8]> = base.shares[n - rr..].iter().map(|s| &s[..]).collect();
                        if let Ok(narrow) = honest.proof.narrow_range(&left, &right, *ns) {
                            let np: NamespaceProof = narrow.into();
                            let mut r = base.clone();
                            r.start = np.start_idx() as u64;
                            r.end = np.end_idx() as u64;
                            r.nodes = np.siblings().iter().map(nh).collect();
                            r.shares = base.shares[l..n - rr].to_vec();
                            put(out, r, &format!("omitted-{tag}-with-valid-subrange-proof"));
                        }
                    }
                    let mut r = base.clone();
                    r.shares.swap(0, n - 1);
                    put(out, r, "shares-swapped");
                }
                let mut r = base.clone();
                r.shares.pop();
                put(out, r, "share-dropped-proof-kept");
                let mut r = base.clone();
                r.shares.pop();
                r.end -= 1;
                put(out, r, "share-dropped-range-shrunk");
                let mut r = base.clone();
                r.shares.push(base.shares[0].clone());
                put(out, r, "share-added");
                let mut r = base.clone();
                r.shares.push(base.shares[0].clone());
                r.end += 1;
                put(out, r, "share-added-range-grown");
                let mut r = base.clone();
                let p = rng.usize(0, n - 1);
                r.shares[p][rng.usize(30, 511)] ^= 0x20;
                put(out, r, "share-altered");
                let mut r = base.clone();
                r.start += 1;
                r.end += 1;
                put(out, r, "range-shifted");
                // a share of another namespace substituted (keeps a valid `Share`)
                if let Some(o) = other.iter().find(|o| !o.shares.is_empty() && o.parity == 0) {
                    if base.parity == 0 {
                        let mut r = base.clone();
                        r.shares[0] = o.shares[0].clone();
                        put(out, r, "share-of-other-namespace");
                    }
                }
                // forged absence: the honest range proof of the leaf right after the namespace, presented as absence proof
                let row_nmt = eds.row_nmt(base.r);
                if let Ok(mut t) = row_nmt {
                    let idx = base.end as usize;
                    if idx < w {
                        let pr = t.build_range_proof(idx..idx + 1);
                        let leaf = t.leaves()[idx].hash().clone();
                        let mut r = base.clone();
                        r.shares.clear();
                        r.absent = 1;
                        r.leaf = nh(&leaf);
                        r.start = idx as u64;
                        r.end = idx as u64 + 1;
                        r.nodes = pr.siblings().iter().map(nh).collect();
                        put(out, r, "forged-absence-for-present-namespace");
                    }
                }
                let mut r = base.clone();
                r.absent = 1;
                r.leaf = base.nodes.first().cloned().unwrap_or_else(|| random_node(rng));
                put(out, r, "presence-relabelled-absence");
            }
            if base.absent == 1 {
                // absence proof mutations
                let mut r = base.clone();
                r.absent = 0;
                put(out, r, "absence-relabelled-presence");
                let mut r = base.clone();
                r.absent = 2;
                put(out, r, "absence-leaf-removed");
                let mut r = base.clone();
                r.leaf[89] ^= 1;
                put(out, r, "absence-leaf-hash-altered");
                // namespace that IS present in this row, "proved" absent with this proof
                if let Some((pns, prow)) = all_rows.iter().find_map(|(n, rs)| rs.iter().find(|x| x.r == base.r && x.absent == 0 && *n != Namespace::PARITY_SHARE).map(|x| (*n, x.clone()))) {
                    let _ = prow;
                    out.op(format!("rowverify ns={} row={}", hx(pns.as_bytes()), base.spec()), "rowverify/absence-proof-for-other-present-namespace", true);
                }
                if base.start > 0 {
                    let mut r = base.clone();
                    r.nodes.truncate((base.start.count_ones() as usize).saturating_sub(1));
                    put(out, r, "absence-too-few-siblings");
                }
            }
            // wire-level
            let honest_raw: Vec<(RowSpec, bool)> = rows.iter().map(|r| (r.clone(), true)).collect();
            let mut v = honest_raw.clone();
            v[j].1 = false;
            out.op(format!("recv ns={nsx} rows={}", raw_rows_arg(&v)), "recv/missing-proof", true);
            if !base.shares.is_empty() {
                let mut v = honest_raw.clone();
                v[j].0.shares[0].pop();
                out.op(format!("recv ns={nsx} rows={}", raw_rows_arg(&v)), "recv/short-share", true);
                if base.parity == 0 {
                    if let Some(o) = other.iter().find(|o| !o.shares.is_empty() && o.parity == 0) {
                        let mut v = honest_raw.clone();
                        v[j].0.shares.push(o.shares[0].clone());
                        out.op(format!("recv ns={nsx} rows={}", raw_rows_arg(&v)), "recv/mixed-namespaces", true);
                    }
                }
            }
            if !base.nodes.is_empty() {
                let mut v = honest_raw.clone();
                v[j].0.nodes[0].pop();
                out.op(format!("recv ns={nsx} rows={}", raw_rows_arg(&v)), "recv/short-node", true);
            }
            let mut v = honest_raw.clone();
            v[j].0.start += 1 << 32;
            v[j].0.end += 1 << 33;
            out.op(format!("recv ns={nsx} rows={}", raw_rows_arg(&v)), "recv/i64-truncation", true);
        }
    }
}

impl Prop for C06 {
    fn id(&self) -> &'static str {
        "C06"
    }
    fn rule(&self) -> &'static str {
        "Squares of EDS width 2..64 with many namespaces (reserved TX/PFB/padding, 1..9 user namespaces in runs, tail padding) \
         extended by the real codec. Per square every present namespace, both +-1 neighbours when absent, a namespace below all, \
         absent reserved ones, the parity namespace and a random one are queried through get_namespace_data + NamespaceData::verify; \
         from the honest rows: rows dropped/duplicated/reversed/of another namespace/none, proofs swapped, and per row: omissions of \
         the first/last/both-end shares WITH a valid narrowed sub-range proof (nmt-rs narrow_range), dropped/added/altered/swapped/ \
         foreign shares with and without range adjustment, shifted ranges, ignore_max_ns flipped, unordered/random/missing siblings, \
         forged absence proofs for present namespaces, relabelled proofs, absence proofs with altered/missing leaf or too few \
         siblings, wrong/out-of-range row index; wire-level from_raw+verify with missing proof, short share, mixed namespaces, \
         short node, truncated i64 indices. S10 size-threshold stress: squares of width 8, 16, 32, 64 (thorough also 128) with about 3 user \
         namespaces per 4 ODS shares (up to w/2 distinct namespaces in one row, namespaces straddling row ends; tags eds/wN-many-ns; a random sample \
         of 6..14 of the namespaces / absent neighbours queried with the full case set). Non-trivial = every case; distinct = distinct (op, result) lines."
    }
    fn gen_ops(&mut self, rng: &mut Rng, tier: Tier, out: &mut Emitter) {
        let plan: Vec<(usize, usize)> = if tier == Tier::Thorough {
            vec![(2, 10), (4, 12), (8, 10), (16, 8), (32, 4), (64, 2), (128, 1)]
        } else {
            vec![(2, 3), (4, 4), (8, 3), (16, 2), (32, 1), (64, 1)]
        };
        for (w, n) in plan {
            for _ in 0..n {
                self.gen_for_square(rng, w, out);
            }
        }
        // S10 size-threshold stress: squares with about 3 user namespaces per 4 ODS shares — up to w/2 distinct namespaces
        // in ONE row, namespaces of 1..3 shares straddling row ends (before: 1..9 user namespaces in the whole square, so a
        // row held at most a handful).  A sample of the namespaces is queried (each costs ~50 ops).
        let many: Vec<(usize, usize, usize)> =
            if tier == Tier::Thorough { vec![(8, 4, 30), (16, 4, 30), (32, 3, 30), (64, 2, 24), (128, 1, 12)] } else { vec![(8, 1, 10), (16, 1, 14), (32, 1, 12), (64, 1, 6)] };
        for (w, n, cap) in many {
            let k = w / 2;
            self.users = Some(k * k * 3 / 4);
            self.qcap = Some(cap);
            for _ in 0..n {
                self.gen_for_square(rng, w, out);
            }
        }
        self.users = None;
        self.qcap = None;
        // size bound of `NamespaceData::verify` (added after tools/coverage.sh showed the
        // `rows.len() > u16::MAX` arm was never taken): one row more than a u16 can count
        // (NamespaceDataTooLarge) and exactly u16::MAX rows (passes the bound, fails the row count),
        // against the last square; rows are minimal (empty absence proof, no shares) to keep the line small
        let minimal = RowSpec { r: 0, start: 0, end: 0, ign: 0, absent: 2, leaf: vec![], nodes: vec![], shares: vec![], parity: 0 };
        let nsx = hx(user_ns(rng).as_bytes());
        for (n, tag) in [(u16::MAX as usize + 1, "verify/too-many-rows"), (u16::MAX as usize, "verify/u16-max-rows")] {
            let v = vec![minimal.clone(); n];
            out.op(format!("verify ns={nsx} rows={}", rows_arg(&v)), tag, true);
        }
    }
    fn run(&mut self, line: &str) -> String {
        let op = opname(line);
        match op {
            "reset" => {
                self.eds = None;
                self.dah = None;
                return "ok".into();
            }
            "eds" => {
                return match parse_eds_line(line) {
                    Some(e) => {
                        let dah = DataAvailabilityHeader::from_eds(&e);
                        let l = dah_line(&dah);
                        self.eds = Some(e);
                        self.dah = Some(dah);
                        l
                    }
                    None => {
                        self.eds = None;
                        self.dah = None;
                        "err".into()
                    }
                };
            }
            _ => {}
        }
        let (Some(eds), Some(dah)) = (&self.eds, &self.dah) else { return "no-square".into() };
        let Some(ns) = arg_hex(line, "ns").and_then(|b| Namespace::from_raw(&b).ok()) else { return "bad-op".into() };
        match op {
            "get" => match eds.get_namespace_data(ns, dah, HEIGHT) {
                Err(e) => format!("err {}", err_kind(&e)),
                Ok(rows) => {
                    let id = NamespaceDataId::new(ns, HEIGHT).unwrap();
                    let data = NamespaceData::new(rows.iter().map(|(_, d)| d.clone()).collect());
                    let v = res_line(data.verify(id, dah)).replace(' ', ":");
                    let specs: Vec<String> = rows
                        .iter()
                        .map(|(id, d)| {
                            let shares: Vec<Vec<u8>> = d.shares.iter().map(|s| s.to_vec()).collect();
                            format!("r:{}/{}/d:{}", id.row_index(), proof_spec(&d.proof), hxl(&shares))
                        })
                        .collect();
                    format!("ok verify={v} rows={}", if specs.is_empty() { "-".into() } else { specs.join("|") })
                }
            },
            "rowverify" => {
                let Some((r, d)) = arg(line, "row").and_then(parse_row).and_then(|r| r.build()) else { return "bad-row".into() };
                let id = RowNamespaceDataId::new(ns, r, HEIGHT).unwrap();
                res_line(d.verify(id, dah))
            }
            "verify" => {
                let Some(rs) = arg(line, "rows") else { return "bad-op".into() };
                let rows: Option<Vec<RowNamespaceData>> = if rs == "-" {
                    Some(vec![])
                } else {
                    rs.split('|').map(|s| parse_row(s).and_then(|r| r.build()).map(|x| x.1)).collect()
                };
                let Some(rows) = rows else { return "bad-row".into() };
                let id = NamespaceDataId::new(ns, HEIGHT).unwrap();
                res_line(NamespaceData::new(rows).verify(id, dah))
            }
            "recv" => {
                let Some(rs) = arg(line, "rows") else { return "bad-op".into() };
                let mut raws = vec![];
                if rs != "-" {
                    for s in rs.split('|') {
                        let f = fields(s);
                        let (Some(hp), Some(d)) = (f.get("hp"), f.get("d").and_then(|d| unhxl(d))) else { return "bad-op".into() };
                        let proof = if *hp == "1" {
                            let (Some(st), Some(en), Some(ign), Some(leaf), Some(nodes)) = (
                                f.get("s").and_then(|x| x.parse::<u64>().ok()),
                                f.get("e").and_then(|x| x.parse::<u64>().ok()),
                                f.get("i").and_then(|x| x.parse::<u64>().ok()),
                                f.get("l").and_then(|x| unhx(x)),
                                f.get("n").and_then(|x| unhxl(x)),
                            ) else {
                                return "bad-op".into();
                            };
                            Some(RawProof { start: st as i64, end: en as i64, nodes, leaf_hash: leaf, is_max_namespace_ignored: ign == 1 })
                        } else {
                            None
                        };
                        raws.push(RawRowNamespaceData { shares: d.into_iter().map(|data| RawShare { data }).collect(), proof });
                    }
                }
                let id = NamespaceDataId::new(ns, HEIGHT).unwrap();
                match NamespaceData::from_raw(id, raws) {
                    Err(e) => format!("err decode:{}", err_kind(&e)),
                    Ok(d) => res_line(d.verify(id, dah)),
                }
            }
            _ => "bad-op".into(),
        }
    }
    fn result_tag(&self, _line: &str, result: &str) -> Option<String> {
        let mut it = result.split(' ');
        let a = it.next().unwrap_or("");
        if a == "err" { Some(format!("err:{}", it.next().unwrap_or(""))) } else { Some(a.to_string()) }
    }
}

fn main() {
    main_for(C06 { users: None, qcap: None, eds: None, dah: None });
}

//! C37 — Header subscriptions deliver a gap-free increasing stream.
//!
//! Drives the real `BroadcastingStore` (through the cfg-guarded `VerifBroadcastingStore` wrapper)
//! over a real `InMemoryStore` with headers of one generated chain, with a subscriber task that is
//! subscribed before the first head and logs every height it receives.
use std::collections::BTreeSet;
use std::sync::{Arc, Mutex};

use celestia_types::ExtendedHeader;
use celestia_types::test_utils::ExtendedHeaderGenerator;
use lumina_node::store::{InMemoryStore, Store};
use lumina_node::verif::node::subscriptions::VerifBroadcastingStore;
use tokio::sync::broadcast::error::RecvError;
use verif_harness::*;

const CHAIN: u64 = 260;
/// marker pushed by the subscriber when tokio reports `Lagged`
const LAG: u64 = u64::MAX;

struct C37 {
    rt: tokio::runtime::Runtime,
    chain: Vec<ExtendedHeader>,
    bs: VerifBroadcastingStore<InMemoryStore>,
    log: Arc<Mutex<Vec<(u64, bool)>>>,
    /// the subscriber task (aborted by `unsub`: the channel then has no receiver)
    sub: tokio::task::JoinHandle<()>,
}

fn fresh(rt: &tokio::runtime::Runtime) -> (VerifBroadcastingStore<InMemoryStore>, Arc<Mutex<Vec<(u64, bool)>>>, tokio::task::JoinHandle<()>) {
    let bs = VerifBroadcastingStore::new(Arc::new(InMemoryStore::new()));
    let log = Arc::new(Mutex::new(vec![]));
    let mut rx = bs.subscribe();
    let l = log.clone();
    let store = bs.inner_store();
    let sub = rt.spawn(async move {
        loop {
            match rx.recv().await {
                Ok(h) => {
                    // "only after it was stored": look into the store at the moment of reception
                    let stored = store.has_at(h.height()).await;
                    l.lock().unwrap().push((h.height(), stored))
                }
                Err(RecvError::Lagged(_)) => l.lock().unwrap().push((LAG, true)),
                Err(RecvError::Closed) => break,
            }
        }
    });
    (bs, log, sub)
}

impl C37 {
    fn new() -> Self {
        let rt = tokio::runtime::Builder::new_current_thread().enable_all().build().unwrap();
        let chain = ExtendedHeaderGenerator::new().next_many(CHAIN);
        let (bs, log, sub) = fresh(&rt);
        C37 { rt, chain, bs, log, sub }
    }
    fn header(&self, h: u64) -> ExtendedHeader {
        self.chain[(h - 1) as usize].clone()
    }
    fn range(&self, line: &str) -> Vec<ExtendedHeader> {
        let hs: Vec<u64> = match (arg_u64(line, "from"), arg_u64(line, "to")) {
            (Some(a), Some(b)) => (a..=b).collect(),
            _ => unnatl(arg(line, "hs").expect("hs")).expect("nat list"),
        };
        hs.into_iter().map(|h| self.header(h)).collect()
    }
    fn observe(&mut self, res: &str) -> String {
        // let the subscriber task drain the channel
        self.rt.block_on(async {
            for _ in 0..4 {
                tokio::task::yield_now().await;
            }
        });
        let received: Vec<(u64, bool)> = self.log.lock().unwrap().drain(..).collect();
        let sent: Vec<String> =
            received.iter().map(|(h, _)| if *h == LAG { "lag".to_string() } else { h.to_string() }).collect();
        let early: Vec<String> = received.iter().filter(|(_, st)| !st).map(|(h, _)| h.to_string()).collect();
        let pending: Vec<String> = self
            .bs
            .pending_heights()
            .iter()
            .map(|r| if r.is_empty() { "_".to_string() } else { r.iter().map(|h| h.to_string()).collect::<Vec<_>>().join("+") })
            .collect();
        format!(
            "res={res} sent={} early={} last={} pending={}",
            if sent.is_empty() { "-".to_string() } else { sent.join(",") },
            if early.is_empty() { "-".to_string() } else { early.join(",") },
            self.bs.last_sent_height().map(|h| h.to_string()).unwrap_or("none".into()),
            if pending.is_empty() { "-".to_string() } else { pending.join("|") }
        )
    }
}

/// what the generator believes the store holds (to predict `inner.insert`)
#[derive(Default)]
struct Shadow {
    stored: BTreeSet<u64>,
    last_sent: Option<u64>,
}

impl Shadow {
    fn insert_ok(&self, lo: u64, hi: u64) -> bool {
        if lo == 0 || lo > hi || hi > CHAIN {
            return false;
        }
        if (lo..=hi).any(|h| self.stored.contains(&h)) {
            return false;
        }
        match self.stored.iter().next_back() {
            None => true,
            Some(&max) => lo > max || self.stored.contains(&(lo - 1)) || self.stored.contains(&(hi + 1)),
        }
    }
}

impl Prop for C37 {
    fn id(&self) -> &'static str {
        "C37"
    }
    fn rule(&self) -> &'static str {
        "Histories over a real InMemoryStore: optional pre-existing historical ranges, first head h0 in 20..80, \
         then a random partition (range lengths 1..12, sometimes up to 40) of (h0, H] announced in random order \
         (retried until stored, so the store's own NoAdjacentNeighbors/overlap rejections are exercised), \
         interleaved with re-initialisations at or above the store head, historical inserts below h0, empty \
         ranges, non-contiguous ranges, and (rarely) ranges containing last_sent_height (debug_assert) or an \
         insert before the first head (expect). Non-trivial = an announce_insert/init_broadcast after the first \
         head; distinct = distinct (op, result) lines."
    }
    fn gen_ops(&mut self, rng: &mut Rng, tier: Tier, out: &mut Emitter) {
        let histories = if tier == Tier::Thorough { 4000 } else { 400 };
        for hist in 0..histories {
            let mut sh = Shadow::default();
            let h0 = rng.range(20, 80);
            // pre-existing store content below the head
            if rng.chance(1, 2) {
                let a = rng.range(1, h0 - 12);
                let b = rng.range(a, (a + 8).min(h0 - 6));
                out.op(format!("prefill from={a} to={b}"), "prefill", false);
                (a..=b).for_each(|h| {
                    sh.stored.insert(h);
                });
            }
            if rng.chance(1, 25) {
                // announce before the syncer knows a head: expect() panics
                out.op(format!("insert from={} to={} ok=1", h0 + 1, h0 + 2), "insert/before-init", true);
            }
            out.op(format!("init h={h0}"), "init/first", true);
            sh.stored.insert(h0);
            sh.last_sent = Some(h0);

            let top = h0 + rng.range(8, if hist % 7 == 0 { 150 } else { 60 });
            // partition (h0, top]
            let mut work: Vec<(u64, u64)> = vec![];
            let mut a = h0 + 1;
            while a <= top {
                let len = if rng.chance(1, 10) { rng.range(13, 40) } else { rng.range(1, 12) };
                let b = (a + len - 1).min(top);
                work.push((a, b));
                a = b + 1;
            }
            // order bias: 0 = random, 1 = mostly ascending, 2 = descending (new heads first, then adjacent downwards)
            let bias = rng.below(3);
            let mut budget = 6 * work.len() + 20;
            while !work.is_empty() && budget > 0 {
                budget -= 1;
                let w = rng.below(100);
                if w < 6 {
                    // re-initialisation at the store head, or a new head above it
                    let max = *sh.stored.iter().next_back().unwrap();
                    let h = if rng.bool() { max } else { (max + rng.range(1, 3)).min(CHAIN) };
                    // keep the partition consistent: a re-init head inside a not-yet-inserted range splits it
                    let mut nw = vec![];
                    for &(lo, hi) in &work {
                        if lo <= h && h <= hi {
                            if lo < h {
                                nw.push((lo, h - 1));
                            }
                            if h < hi {
                                nw.push((h + 1, hi));
                            }
                        } else {
                            nw.push((lo, hi));
                        }
                    }
                    work = nw;
                    out.op(format!("init h={h}"), if h == max { "init/re-same-head" } else { "init/re-new-head" }, true);
                    sh.stored.insert(h);
                    continue;
                }
                if w < 10 {
                    // historical insert below the first head
                    let lo = rng.range(1, h0 - 1);
                    let hi = (lo + rng.range(0, 5)).min(h0 - 1);
                    let ok = sh.insert_ok(lo, hi);
                    out.op(format!("insert from={lo} to={hi} ok={}", ok as u8), "insert/historical", true);
                    if ok {
                        (lo..=hi).for_each(|h| {
                            sh.stored.insert(h);
                        });
                    }
                    continue;
                }
                if w < 12 {
                    out.op("insert hs=- ok=1", "insert/empty", true);
                    continue;
                }
                if w < 14 {
                    // non-contiguous range above everything stored: the store rejects it
                    let max = *sh.stored.iter().next_back().unwrap();
                    if max + 6 <= CHAIN {
                        out.op(format!("insert hs={},{},{} ok=0", max + 2, max + 4, max + 5), "insert/non-contiguous", true);
                    }
                    continue;
                }
                if w < 15 {
                    // a range containing last_sent_height: debug_assert fires (the syncer never does this)
                    let l = sh.last_sent.unwrap();
                    out.op(format!("insert from={} to={} ok=0", l.saturating_sub(rng.range(0, 2)).max(1), l + rng.range(0, 2)), "insert/crossing", true);
                    // the harness instance is rebuilt by the next reset only; after a panic we end the history
                    break;
                }
                if w < 18 {
                    // overlapping an already stored range above the head (store rejects)
                    let l = sh.last_sent.unwrap();
                    let cands: Vec<u64> = sh.stored.iter().copied().filter(|&h| h > l).collect();
                    if let Some(&h) = cands.first() {
                        out.op(format!("insert from={h} to={} ok=0", (h + 1).min(CHAIN)), "insert/overlap", true);
                    }
                    continue;
                }
                let idx = match bias {
                    1 if rng.chance(3, 4) => 0,
                    2 if rng.chance(3, 4) => work.len() - 1,
                    _ => rng.usize(0, work.len() - 1),
                };
                let (lo, hi) = work[idx];
                let ok = sh.insert_ok(lo, hi);
                out.op(format!("insert from={lo} to={hi} ok={}", ok as u8), if ok { "insert/stored" } else { "insert/rejected" }, true);
                if ok {
                    (lo..=hi).for_each(|h| {
                        sh.stored.insert(h);
                    });
                    work.remove(idx);
                    // advance the shadow last_sent over everything stored consecutively
                    let mut l = sh.last_sent.unwrap();
                    while sh.stored.contains(&(l + 1)) {
                        l += 1;
                    }
                    sh.last_sent = Some(l);
                }
            }
            // no receivers (added after tools/coverage.sh showed `send_range`'s "no receivers" exit was never
            // taken): the subscriber leaves, then new heads / gap fills / a re-init keep arriving
            if hist % 4 == 0 {
                out.op("unsub", "unsub", true);
                for _ in 0..rng.usize(1, 4) {
                    let max = *sh.stored.iter().next_back().unwrap();
                    if max + 6 > CHAIN {
                        break;
                    }
                    if rng.chance(1, 4) {
                        let h = max + rng.range(1, 3);
                        out.op(format!("init h={h}"), "init/no-receivers", true);
                        sh.stored.insert(h);
                        continue;
                    }
                    let lo = max + 1 + if rng.chance(1, 3) { rng.range(1, 3) } else { 0 };
                    let hi = lo + rng.range(0, 4);
                    let ok = sh.insert_ok(lo, hi);
                    out.op(format!("insert from={lo} to={hi} ok={}", ok as u8), "insert/no-receivers", true);
                    if ok {
                        (lo..=hi).for_each(|h| {
                            sh.stored.insert(h);
                        });
                    }
                }
            }
            out.op("reset", "reset", false);
        }
    }
    fn run(&mut self, line: &str) -> String {
        match opname(line) {
            "reset" => {
                self.sub.abort();
                let (bs, log, sub) = fresh(&self.rt);
                self.bs = bs;
                self.log = log;
                self.sub = sub;
                "ok".into()
            }
            "prefill" => {
                let r = self.range(line);
                let store = self.bs.inner_store();
                self.rt.block_on(async { store.insert(r).await }).expect("prefill insert");
                self.observe("-")
            }
            "init" => {
                let h = arg_u64(line, "h").expect("h");
                let head = self.header(h);
                let store = self.bs.inner_store();
                // what `try_init` does before `init_broadcast`
                self.rt.block_on(async {
                    let same = matches!(store.get_head().await, Ok(sh) if sh.hash() == head.hash());
                    if !same {
                        store.insert(head.clone()).await.expect("head insert");
                    }
                });
                self.bs.init_broadcast(head);
                self.observe("-")
            }
            "unsub" => {
                // the only subscriber goes away: `broadcast::Sender::send` fails from now on and
                // `send_range` takes its "no receivers - skip sending" exit
                self.sub.abort();
                self.observe("-")
            }
            "insert" => {
                let r = self.range(line);
                let bs = &mut self.bs;
                let res = self.rt.block_on(async { bs.announce_insert(r).await });
                self.observe(if res.is_ok() { "ok" } else { "err" })
            }
            _ => "bad-op".into(),
        }
    }
    fn result_tag(&self, _line: &str, result: &str) -> Option<String> {
        let sent = arg(result, "sent")?;
        let n = if sent == "-" { 0 } else { sent.split(',').count() };
        let pend = arg(result, "pending")?;
        let p = if pend == "-" { 0 } else { pend.split('|').count() };
        Some(format!("{} sent={} pending={}", arg(result, "res")?, if n > 8 { ">8".to_string() } else { n.to_string() }, if p > 4 { ">4".to_string() } else { p.to_string() }))
    }
}

fn main() {
    main_for(C37::new());
}

//! C35 — The pruner only removes blocks that are safe to remove.
//!
//! Drives the real pruner `Worker` (cfg-guarded wrapper `lumina_node::verif::pruner::VerifPrunerWorker`)
//! over a real `InMemoryStore` and `InMemoryBlockstore` (both behind thin recording wrappers that log
//! `remove_height` / `blockstore.remove` in call order) and a mocked `Daser` that grants or refuses
//! `WantToPrune` as scripted by the op line.
//!
//! * `batch` ops call `Worker::get_next_prunable_batch` with explicit cutoffs;
//! * `run` ops execute the real `Worker::run` loop (which reads the wall clock) until it goes idle:
//!   the worker's windows are chosen so that the cutoffs `now - window` land 50 s after the header
//!   time `pc` / `sc` given in the `worker` op (header times are 100 s apart per model tick).
use std::collections::HashMap;
use std::fmt::Display;
use std::ops::RangeInclusive;
use std::sync::{Arc, Mutex};
use std::time::Duration;

use async_trait::async_trait;
use blockstore::Blockstore;
use celestia_types::ExtendedHeader;
use celestia_types::hash::Hash;
use celestia_types::test_utils::ExtendedHeaderGenerator;
use cid::{Cid, CidGeneric};
use libp2p::identity::Keypair;
use lumina_node::block_ranges::BlockRanges;
use lumina_node::blockstore::InMemoryBlockstore;
use lumina_node::events::{EventSubscriber, NodeEvent};
use lumina_node::store::{InMemoryStore, SamplingMetadata, Store, StoreError, VerifiedExtendedHeaders};
use lumina_node::verif::daser::{VerifDaserCmd, VerifMockDaser, mocked_daser};
use lumina_node::verif::pruner::VerifPrunerWorker;
use multihash::Multihash;
use tendermint::Time;
use tokio_util::sync::CancellationToken;
use verif_harness::*;

const BASE: i64 = 1_700_000_000;
/// seconds per model time tick
const TICK: u64 = 100;
const CODEC: u64 = 0x0D;
const MH_CODE: u64 = 0x0D;

fn time_of(t: u64) -> Time {
    Time::from_unix_timestamp(BASE + (t * TICK) as i64, 0).unwrap()
}
/// cutoff `c` of a `batch` op: exactly the time of tick `c`
fn cutoff_of(c: u64) -> Time {
    time_of(c)
}

fn cid_of(n: u64) -> Cid {
    CidGeneric::new_v1(CODEC, Multihash::wrap(MH_CODE, &n.to_le_bytes()).unwrap())
}
fn num_of<const S: usize>(cid: &CidGeneric<S>) -> u64 {
    let d = cid.hash().digest();
    let mut b = [0u8; 8];
    b.copy_from_slice(&d[..8]);
    u64::from_le_bytes(b)
}

#[derive(Default)]
struct Log {
    effs: Vec<String>,
    msgs: Vec<String>,
    activity: u64,
}
type SharedLog = Arc<Mutex<Log>>;

/// `InMemoryStore` behind a delegating wrapper that records `remove_height` calls
#[derive(Debug)]
struct RecStore {
    inner: InMemoryStore,
    log: SharedLog,
}

impl std::fmt::Debug for Log {
    fn fmt(&self, f: &mut std::fmt::Formatter<'_>) -> std::fmt::Result {
        write!(f, "Log")
    }
}

#[async_trait]
impl Store for RecStore {
    async fn get_head(&self) -> Result<ExtendedHeader, StoreError> {
        Store::get_head(&self.inner).await
    }
    async fn get_by_hash(&self, hash: &Hash) -> Result<ExtendedHeader, StoreError> {
        Store::get_by_hash(&self.inner, hash).await
    }
    async fn get_by_height(&self, height: u64) -> Result<ExtendedHeader, StoreError> {
        self.log.lock().unwrap().activity += 1;
        Store::get_by_height(&self.inner, height).await
    }
    async fn wait_new_head(&self) -> u64 {
        Store::wait_new_head(&self.inner).await
    }
    async fn wait_height(&self, height: u64) -> Result<(), StoreError> {
        Store::wait_height(&self.inner, height).await
    }
    async fn head_height(&self) -> Result<u64, StoreError> {
        Store::head_height(&self.inner).await
    }
    async fn has(&self, hash: &Hash) -> bool {
        Store::has(&self.inner, hash).await
    }
    async fn has_at(&self, height: u64) -> bool {
        Store::has_at(&self.inner, height).await
    }
    async fn update_sampling_metadata(&self, height: u64, cids: Vec<Cid>) -> Result<(), StoreError> {
        Store::update_sampling_metadata(&self.inner, height, cids).await
    }
    async fn get_sampling_metadata(&self, height: u64) -> Result<Option<SamplingMetadata>, StoreError> {
        self.log.lock().unwrap().activity += 1;
        Store::get_sampling_metadata(&self.inner, height).await
    }
    async fn mark_as_sampled(&self, height: u64) -> Result<(), StoreError> {
        Store::mark_as_sampled(&self.inner, height).await
    }
    async fn insert<R>(&self, headers: R) -> Result<(), StoreError>
    where
        R: TryInto<VerifiedExtendedHeaders> + Send,
        <R as TryInto<VerifiedExtendedHeaders>>::Error: Display,
    {
        Store::insert(&self.inner, headers).await
    }
    async fn get_stored_header_ranges(&self) -> Result<BlockRanges, StoreError> {
        self.log.lock().unwrap().activity += 1;
        Store::get_stored_header_ranges(&self.inner).await
    }
    async fn get_sampled_ranges(&self) -> Result<BlockRanges, StoreError> {
        Store::get_sampled_ranges(&self.inner).await
    }
    async fn get_pruned_ranges(&self) -> Result<BlockRanges, StoreError> {
        Store::get_pruned_ranges(&self.inner).await
    }
    async fn remove_height(&self, height: u64) -> Result<(), StoreError> {
        {
            let mut l = self.log.lock().unwrap();
            l.activity += 1;
            l.effs.push(format!("X{height}"));
        }
        Store::remove_height(&self.inner, height).await
    }
    async fn get_identity(&self) -> Result<Keypair, StoreError> {
        Store::get_identity(&self.inner).await
    }
    async fn close(self) -> Result<(), StoreError> {
        Ok(())
    }
}

/// `InMemoryBlockstore` behind a delegating wrapper that records `remove` calls
struct RecBlockstore {
    inner: InMemoryBlockstore,
    log: SharedLog,
}

impl Blockstore for RecBlockstore {
    async fn get<const S: usize>(&self, cid: &CidGeneric<S>) -> blockstore::Result<Option<Vec<u8>>> {
        self.inner.get(cid).await
    }
    async fn put_keyed<const S: usize>(&self, cid: &CidGeneric<S>, data: &[u8]) -> blockstore::Result<()> {
        self.inner.put_keyed(cid, data).await
    }
    async fn remove<const S: usize>(&self, cid: &CidGeneric<S>) -> blockstore::Result<()> {
        {
            let mut l = self.log.lock().unwrap();
            l.activity += 1;
            l.effs.push(format!("C{}", num_of(cid)));
        }
        self.inner.remove(cid).await
    }
    async fn close(self) -> blockstore::Result<()> {
        Ok(())
    }
}

type Policy = Arc<Mutex<HashMap<u64, u64>>>;

struct WorkerRig {
    worker: VerifPrunerWorker<RecStore, RecBlockstore>,
    token: CancellationToken,
    _daser: VerifMockDaser,
    policy: Policy,
    events: EventSubscriber,
}

struct C35 {
    rt: tokio::runtime::Runtime,
    chain: Vec<ExtendedHeader>,
    log: SharedLog,
    store: Arc<RecStore>,
    blockstore: Arc<RecBlockstore>,
    rig: Option<WorkerRig>,
}

fn parse_ranges(s: &str) -> Option<Vec<RangeInclusive<u64>>> {
    let s = s.trim_matches(|c| c == '[' || c == ']');
    if s == "-" || s.is_empty() {
        return Some(vec![]);
    }
    s.split(',')
        .map(|t| {
            let (a, b) = t.split_once('-')?;
            Some(RangeInclusive::new(a.parse().ok()?, b.parse().ok()?))
        })
        .collect()
}

fn show_ranges(rs: &BlockRanges) -> String {
    let v: Vec<String> = rs.as_ref().iter().map(|r| format!("{}-{}", r.start(), r.end())).collect();
    format!("[{}]", v.join(","))
}

fn show_list(v: &[String]) -> String {
    if v.is_empty() { "-".into() } else { v.join(",") }
}

fn show_opt(o: Option<u64>) -> String {
    o.map(|x| x.to_string()).unwrap_or_else(|| "-".into())
}

impl C35 {
    fn new() -> Self {
        let rt = tokio::runtime::Builder::new_current_thread().enable_all().build().unwrap();
        let log: SharedLog = Default::default();
        let store = Arc::new(RecStore { inner: InMemoryStore::new(), log: log.clone() });
        let blockstore = Arc::new(RecBlockstore { inner: InMemoryBlockstore::new(), log: log.clone() });
        C35 { rt, chain: vec![], log, store, blockstore, rig: None }
    }

    fn fresh_stores(&mut self) {
        self.rig = None;
        self.log = Default::default();
        self.store = Arc::new(RecStore { inner: InMemoryStore::new(), log: self.log.clone() });
        self.blockstore = Arc::new(RecBlockstore { inner: InMemoryBlockstore::new(), log: self.log.clone() });
    }

    fn clear_log(&self) {
        let mut l = self.log.lock().unwrap();
        l.effs.clear();
        l.msgs.clear();
    }

    /// let the mocked Daser task drain its channel
    fn settle(&self) {
        self.rt.block_on(async {
            for _ in 0..8 {
                tokio::task::yield_now().await;
            }
        });
    }

    fn state_suffix(&self) -> String {
        let rig = self.rig.as_ref().unwrap();
        let (a_s, a_p) = rig.worker.cached_edges();
        format!("cache={}/{} prev={}", show_opt(a_s), show_opt(a_p), rig.worker.prev_num_of_prunable_blocks())
    }
}

/// Size-threshold stress (S10).  One chain, a stored set of `k` disjoint ranges holding >= `total` heights
/// (`remove`s split some ranges further), then — on that ONE store (`batch` does not change it) — fresh workers and
/// `batch` ops whose cutoffs are placed so that the number of prune candidates is exactly each `targets` value
/// (63/64/65, 511/512/513 = MAX_PRUNABLE_BATCH_SIZE +-1, ..), in both window orders, with and without refused
/// heights, with the cutoff strictly between two header times and exactly at a header time; window edges exactly
/// at / one tick around range starts and ends and deep inside a range; finally real `run` loops.
fn thr_scenario(rng: &mut Rng, out: &mut Emitter, thorough: bool, k: u64, total: u64, targets: &[u64]) {
    let label = format!("{k}r{total}");
    let avg = (total / k).max(1);
    let mut rs: Vec<(u64, u64)> = vec![];
    let mut h = 1 + rng.below(2);
    let mut have = 0;
    for i in 0..k {
        let left = k - i;
        let need = total.saturating_sub(have);
        let len = if left == 1 { need.max(1) } else if avg == 1 { 1 } else { rng.range(1, 2 * avg - 1) };
        rs.push((h, h + len - 1));
        have += len;
        h += len + if rng.bool() { 1 } else { rng.range(1, 3) };
    }
    let n = rs.last().unwrap().1 + rng.below(4);
    let mut t = rng.range(1, 20);
    let mut times = vec![];
    for _ in 0..n {
        t += rng.range(2, 4); // >= 2 apart: `time + 1` lies strictly between two header times
        times.push(t);
    }
    let tmax = t;
    let time = |h: u64| times[(h - 1) as usize];
    out.op(format!("chain times={}", natl(&times)), &format!("chain/thr-{label}"), false);
    let rss: Vec<String> = rs.iter().map(|(a, b)| format!("{a}-{b}")).collect();
    out.op(format!("insert rs={}", rss.join(",")), &format!("insert/thr-{label}"), false);
    let mut stored = vec![false; (n + 3) as usize];
    for &(a, b) in &rs {
        for x in a..=b {
            stored[x as usize] = true;
        }
    }
    let mut synced = stored.clone();
    // earlier prunings: a few, inside ranges (splits them: more stored ranges, synced ranges unchanged)
    let mut rem = vec![];
    for _ in 0..rng.range(0, k / 8 + 2) {
        let x = rng.range(1, n);
        if stored[x as usize] {
            stored[x as usize] = false;
            rem.push(x);
        }
    }
    rem.sort();
    rem.dedup();
    if !rem.is_empty() {
        out.op(format!("remove hs={}", natl(&rem)), "remove/thr", false);
    }
    synced.push(false);
    let st: Vec<u64> = (1..=n).filter(|&x| stored[x as usize]).collect();
    let unsampled_den = *rng.pick(&[6u64, 12, 40]);
    let sampled: Vec<bool> = (0..=n + 1).map(|x| x >= 1 && x <= n && stored[x as usize] && !rng.chance(1, unsampled_den)).collect();
    let smp: Vec<u64> = st.iter().copied().filter(|&x| sampled[x as usize]).collect();
    out.op(format!("sample hs={}", natl(&smp)), "sample/thr", false);
    let mut next_cid = 1u64;
    for _ in 0..12 {
        let hh = *rng.pick(&st);
        let c = rng.range(0, 3);
        let cids: Vec<u64> = (0..c).map(|_| { next_cid += 1; next_cid }).collect();
        out.op(format!("meta h={hh} cids={}", natl(&cids)), "meta", false);
    }
    let is_edge = |x: u64| !synced[(x - 1) as usize] || !synced[(x + 1) as usize];
    let pick_refuse = |rng: &mut Rng, pool: &[u64], cnt: u64| -> Vec<u64> {
        let mut v: Vec<u64> = vec![];
        if !pool.is_empty() {
            for _ in 0..cnt {
                v.push(*rng.pick(pool));
            }
        }
        v.sort();
        v.dedup();
        v
    };
    let mut last_c2: Option<(u64, u64)> = None;
    for &nn in targets {
        if nn + 2 > st.len() as u64 {
            continue;
        }
        // window order 1 (pruning cutoff <= sampling cutoff): exactly nn stored heights at or below the edge
        let e = st[(nn - 1) as usize];
        out.op(format!("worker sc={} pc={}", tmax + 3, time(e)), "worker/thr-c1", false);
        out.op(format!("batch sc={} pc={} refresh=1 refuse=-", tmax + 3, time(e) + 1), &format!("thr/batch-c1-{nn}"), true);
        // refuse unsampled candidates near the top and around the 512-th candidate from the top
        let cand = &st[..nn as usize];
        let uns: Vec<u64> = cand.iter().copied().filter(|&x| !sampled[x as usize]).collect();
        let refuse = pick_refuse(rng, &uns, 4);
        out.op(
            format!("batch sc={} pc={} refresh=1 refuse={}", tmax + 3, time(e) + 1, natl(&refuse)),
            &format!("thr/batch-c1-{nn}-refuse"),
            true,
        );
        if thorough || rng.bool() {
            // tie: the cutoff is exactly the edge header's time
            out.op(format!("worker sc={} pc={}", tmax + 3, time(e)), "worker/thr-c1", false);
            out.op(
                format!("batch sc={} pc={} refresh=1 refuse={}", tmax + 3, time(e), natl(&refuse)),
                &format!("thr/batch-c1-{nn}-tie"),
                true,
            );
        }
        // window order 2 (pruning cutoff above the sampling cutoff): exactly nn sampled non-edge stored heights
        // above the sampling edge and at or below the pruning edge
        let m = rng.range(1, 12).min(st.len() as u64 - 1);
        let e0 = st[(m - 1) as usize];
        let mut cnt = 0;
        let mut e2 = None;
        for &x in &st[m as usize..] {
            if sampled[x as usize] && !is_edge(x) {
                cnt += 1;
                if cnt == nn {
                    e2 = Some(x);
                    break;
                }
            }
        }
        if let Some(e2) = e2 {
            let low: Vec<u64> = st[..m as usize].to_vec();
            let refuse = if rng.bool() { pick_refuse(rng, &low, 3) } else { vec![] };
            out.op(format!("worker sc={} pc={}", time(e0), time(e2)), "worker/thr-c2", false);
            out.op(
                format!("batch sc={} pc={} refresh=1 refuse={}", time(e0) + 1, time(e2) + 1, natl(&refuse)),
                &format!("thr/batch-c2-{nn}"),
                true,
            );
            if thorough || rng.chance(1, 3) {
                out.op(
                    format!("batch sc={} pc={} refresh=0 refuse={}", time(e0) + 1, time(e2) + 1, natl(&low)),
                    &format!("thr/batch-c2-{nn}-cached-refuse-all"),
                    true,
                );
            }
            last_c2 = Some((e0, e2));
        }
    }
    // window edges exactly at / one tick around range starts and ends, and deep inside a range
    let cur: Vec<(u64, u64)> = {
        let mut v: Vec<(u64, u64)> = vec![];
        for &x in &st {
            match v.last_mut() {
                Some((_, e)) if *e + 1 == x => *e = x,
                _ => v.push((x, x)),
            }
        }
        v
    };
    let edge_cases = if thorough { 12 } else { 5 };
    for _ in 0..edge_cases {
        let i = rng.below(cur.len() as u64) as usize;
        let j = rng.below(cur.len() as u64) as usize;
        let (lo, hi) = (cur[i.min(j)], cur[i.max(j)]);
        let at = |rng: &mut Rng, r: (u64, u64)| -> (u64, &'static str) {
            match rng.below(3) {
                0 => (r.0, "start"),
                1 => (r.1, "end"),
                _ => ((r.0 + r.1) / 2, "deep"),
            }
        };
        let (a, an) = at(rng, lo);
        let (b, bn) = at(rng, hi);
        let d = |rng: &mut Rng, x: u64| (time(x) + rng.below(3)).saturating_sub(1);
        let (ca, cb) = (d(rng, a), d(rng, b));
        let uns: Vec<u64> = st.iter().copied().filter(|&x| !sampled[x as usize] && x <= b).collect();
        let refuse = pick_refuse(rng, &uns, 3);
        // sampling edge below the pruning edge, and the other way round
        out.op(format!("worker sc={ca} pc={cb}"), "worker/thr-edge", false);
        out.op(format!("batch sc={ca} pc={cb} refresh=1 refuse={}", natl(&refuse)), &format!("thr/edge-c2-{an}-{bn}"), true);
        out.op(format!("worker sc={cb} pc={ca}"), "worker/thr-edge", false);
        out.op(format!("batch sc={cb} pc={ca} refresh=1 refuse={}", natl(&refuse)), &format!("thr/edge-c1-{an}-{bn}"), true);
    }
    // the real loop: first with the pruning window smaller (largest threshold placement found), then everything
    if let Some((e0, e2)) = last_c2 {
        out.op(format!("worker sc={} pc={}", time(e0), time(e2)), "worker/thr-c2", false);
        let low: Vec<u64> = st.iter().copied().filter(|&x| x <= e0 && !sampled[x as usize]).collect();
        let refuse: Vec<String> = pick_refuse(rng, &low, 2).iter().map(|x| format!("{x}:1")).collect();
        out.op(format!("run refuse={}", show_list(&refuse)), &format!("thr/run-c2-{label}"), true);
    }
    out.op(format!("worker sc={} pc={}", tmax + 3, tmax + 3), "worker/thr-c1", false);
    let uns: Vec<u64> = st.iter().copied().filter(|&x| !sampled[x as usize]).collect();
    let refuse: Vec<String> =
        pick_refuse(rng, &uns, 3).iter().map(|x| format!("{x}:{}", rng_pick_k(x))).collect();
    out.op(format!("run refuse={}", show_list(&refuse)), &format!("thr/run-all-{label}"), true);
}

/// refusal counter of a height in the final `run` (deterministic, no rng): once, twice or for ever
fn rng_pick_k(h: &u64) -> u64 {
    [1, 2, 999][(h % 3) as usize]
}

impl Prop for C35 {
    fn id(&self) -> &'static str {
        "C35"
    }
    fn rule(&self) -> &'static str {
        "histories over a real InMemoryStore/InMemoryBlockstore and the real pruner Worker with a scripted mock Daser: \
         random chains (20..1300 headers, increasing times), stored sets with gaps, heights removed earlier (pruned ranges), \
         sampled subsets, sampling metadata with 0..3 CIDs per height, both window orders (pruning cutoff below and above the \
         sampling cutoff, and equal), cutoffs at/between header times; `batch` ops = get_next_prunable_batch with explicit \
         non-decreasing (sometimes decreasing: correspondence only) cutoffs, cache refresh on/off, a set of refused heights; \
         `run` ops = the real Worker::run loop until idle with per-height refusal counters, followed by more inserts / \
         samplings and further runs; stores above 512 prunable heights exercise the batch limit; \
         size-threshold stress (tags thr/..): stores of 9 / 17 / 33 / 65 (thorough: also 129) disjoint ranges and of 3-5 \
         long ranges (640 heights; thorough up to 2300), on which fresh workers + `batch` ops place the window edges so \
         that the number of prune candidates is exactly 8/9, 16/17, 32/33, 63/64/65, 127/128/129, 511/512/513 \
         (MAX_PRUNABLE_BATCH_SIZE +-1; thorough also 1023..1025, 2047..2049), in both window orders, with refused \
         heights, cutoff strictly between two header times and exactly at a header time; window edges at / one tick \
         around range starts and ends and deep inside ranges; then real run loops (two 512-batches). \
         non-trivial = a batch or run op whose batch / removal log is non-empty"
    }

    fn gen_ops(&mut self, rng: &mut Rng, tier: Tier, out: &mut Emitter) {
        let thorough = tier == Tier::Thorough;
        let scenarios = if thorough { 400 } else { 110 };
        for sc_i in 0..scenarios {
            // chain
            let big = sc_i % 12 == 5;
            let n = if big { rng.range(560, if thorough { 1300 } else { 700 }) } else { rng.range(8, 120) };
            let mut t = rng.range(1, 20);
            let mut times = vec![];
            for _ in 0..n {
                t += rng.range(1, 3);
                times.push(t);
            }
            out.op(format!("chain times={}", natl(&times)), if big { "chain/big" } else { "chain/small" }, false);
            // stored runs with gaps (ascending insertion)
            let mut stored: Vec<bool> = vec![false; (n + 2) as usize];
            let mut rs = vec![];
            let mut h = 1u64;
            let mut on = rng.chance(3, 4);
            let dense = big || rng.bool();
            while h <= n {
                let len = if on {
                    if dense { rng.range(1, if big { 400 } else { 40 }) } else { rng.range(1, 6) }
                } else {
                    rng.range(1, if dense { 4 } else { 8 })
                };
                let e = (h + len - 1).min(n);
                if on {
                    rs.push(format!("{h}-{e}"));
                    for x in h..=e {
                        stored[x as usize] = true;
                    }
                }
                h = e + 1;
                on = !on;
            }
            if rs.is_empty() {
                rs.push("1-1".into());
                stored[1] = true;
            }
            out.op(format!("insert rs={}", rs.join(",")), "insert/initial", false);
            // earlier prunings (pruned ranges)
            let mut rem = vec![];
            for x in 1..=n {
                if stored[x as usize] && rng.chance(1, if dense { 14 } else { 6 }) {
                    rem.push(x);
                    stored[x as usize] = false;
                }
            }
            if !rem.is_empty() {
                out.op(format!("remove hs={}", natl(&rem)), "remove/earlier", false);
            }
            // sampled: older heights mostly sampled
            let sampled_frac = *rng.pick(&[0u64, 3, 6, 8, 9, 10]);
            let mut smp = vec![];
            for x in 1..=n {
                if stored[x as usize] && rng.below(10) < sampled_frac {
                    smp.push(x);
                }
            }
            if !smp.is_empty() {
                out.op(format!("sample hs={}", natl(&smp)), "sample/initial", false);
            }
            // sampling metadata
            let metas = if big { 40 } else { rng.range(0, 25) };
            let mut next_cid = 1u64;
            for _ in 0..metas {
                let hh = rng.range(1, n);
                let k = rng.range(0, 3);
                let cids: Vec<u64> = (0..k).map(|_| { next_cid += 1; next_cid }).collect();
                out.op(format!("meta h={hh} cids={}", natl(&cids)), "meta", false);
            }
            // worker with both window orders
            let tmax = *times.last().unwrap();
            let pick_cut = |rng: &mut Rng| -> u64 {
                match rng.below(6) {
                    0 => 0,
                    1 => tmax + 3,
                    2 => times[rng.below(n) as usize],
                    _ => rng.range(times[0].saturating_sub(1), tmax + 1),
                }
            };
            let rounds = if big { 2 } else { rng.range(1, 4) };
            for round in 0..rounds {
                let (mut sc, mut pc) = (pick_cut(rng), pick_cut(rng));
                let order = match rng.below(5) {
                    0 => { pc = sc; "equal" }
                    1 | 2 => { if pc > sc { std::mem::swap(&mut sc, &mut pc); } "pruning-window-bigger" }
                    _ => { if pc < sc { std::mem::swap(&mut sc, &mut pc); } "sampling-window-bigger" }
                };
                out.op(format!("worker sc={sc} pc={pc}"), &format!("worker/{order}"), false);
                // batch ops with (mostly) growing cutoffs, ending at the worker's own cutoffs
                let nb = rng.range(0, 4);
                let (mut bsc, mut bpc) = (sc.saturating_sub(rng.range(0, 12)), pc.saturating_sub(rng.range(0, 12)));
                for b in 0..nb {
                    let refresh = b == 0 || rng.chance(2, 3);
                    let mut refuse = vec![];
                    for _ in 0..rng.range(0, 6) {
                        refuse.push(rng.range(1, n));
                    }
                    let backwards = rng.chance(1, 12);
                    let (usc, upc) = if backwards { (bsc.saturating_sub(rng.range(1, 9)), bpc.saturating_sub(rng.range(1, 9))) } else { (bsc, bpc) };
                    out.op(
                        format!("batch sc={usc} pc={upc} refresh={} refuse={}", refresh as u8, natl(&refuse)),
                        &format!("batch/{}{}", if refresh { "refresh" } else { "cached" }, if backwards { "-backwards" } else { "" }),
                        true,
                    );
                    bsc = (bsc + rng.range(0, 5)).min(sc);
                    bpc = (bpc + rng.range(0, 5)).min(pc);
                }
                // the real run loop
                let mut refuse = vec![];
                for _ in 0..rng.range(0, 8) {
                    let k = *rng.pick(&[1u64, 1, 2, 999]);
                    refuse.push(format!("{}:{k}", rng.range(1, n)));
                }
                refuse.sort();
                refuse.dedup_by_key(|s| s.split(':').next().unwrap().to_string());
                out.op(format!("run refuse={}", show_list(&refuse)), &format!("run/{order}"), true);
                // the world moves on: more samplings, occasionally a second run of the same worker
                if round + 1 < rounds || rng.bool() {
                    let mut smp = vec![];
                    for _ in 0..rng.range(1, 30) {
                        smp.push(rng.range(1, n));
                    }
                    out.op(format!("sample hs={}", natl(&smp)), "sample/later", false);
                    if rng.bool() {
                        out.op("run refuse=-", &format!("run/again-{order}"), true);
                    }
                }
            }
        }
        // (4) size-threshold stress (S10)
        out.op("reset", "reset", false);
        let small = [8u64, 9, 16, 17, 32, 33, 63, 64, 65, 127, 128, 129];
        let lim = [63u64, 64, 65, 511, 512, 513];
        let reps = if thorough { 6 } else { 1 };
        for _ in 0..reps {
            thr_scenario(rng, out, thorough, 9, 40, &small);
            thr_scenario(rng, out, thorough, 17, 70, &small);
            thr_scenario(rng, out, thorough, 33, 140, &small);
            thr_scenario(rng, out, thorough, 65, 200, &small);
            // MAX_PRUNABLE_BATCH_SIZE = 512: candidate counts 511 / 512 / 513 over many small and over few long ranges
            thr_scenario(rng, out, thorough, 65, 640, &lim);
            thr_scenario(rng, out, thorough, 5, 640, &lim);
        }
        if thorough {
            for _ in 0..3 {
                thr_scenario(rng, out, thorough, 129, 700, &lim);
                thr_scenario(rng, out, thorough, 33, 1200, &[511, 512, 513, 1023, 1024, 1025]);
                thr_scenario(rng, out, thorough, 3, 2300, &[512, 513, 1024, 1025, 2047, 2048, 2049]);
            }
        }
    }

    fn run(&mut self, line: &str) -> String {
        match opname(line) {
            "reset" => {
                self.chain.clear();
                self.fresh_stores();
                "ok".into()
            }
            "chain" => {
                let times = unnatl(arg(line, "times").expect("times")).expect("times");
                let mut g = ExtendedHeaderGenerator::new();
                self.chain = times
                    .iter()
                    .map(|&t| {
                        g.set_time(time_of(t), Duration::ZERO);
                        g.next_empty()
                    })
                    .collect();
                self.fresh_stores();
                "ok".into()
            }
            "insert" => {
                let rs = parse_ranges(arg(line, "rs").expect("rs")).expect("rs");
                for r in rs {
                    if *r.end() as usize > self.chain.len() || *r.start() == 0 || r.start() > r.end() {
                        return "err".into();
                    }
                    let hs: Vec<ExtendedHeader> = self.chain[(*r.start() - 1) as usize..=(*r.end() - 1) as usize].to_vec();
                    if self.rt.block_on(self.store.insert(hs)).is_err() {
                        return "err".into();
                    }
                }
                "ok".into()
            }
            "remove" => {
                for h in unnatl(arg(line, "hs").expect("hs")).expect("hs") {
                    let _ = self.rt.block_on(Store::remove_height(&self.store.inner, h));
                }
                "ok".into()
            }
            "sample" => {
                for h in unnatl(arg(line, "hs").expect("hs")).expect("hs") {
                    let _ = self.rt.block_on(self.store.mark_as_sampled(h));
                }
                "ok".into()
            }
            "meta" => {
                let h = arg_u64(line, "h").expect("h");
                let cids: Vec<Cid> = unnatl(arg(line, "cids").expect("cids")).expect("cids").into_iter().map(cid_of).collect();
                let ok = self.rt.block_on(self.store.update_sampling_metadata(h, cids.clone())).is_ok();
                if ok {
                    for c in &cids {
                        self.rt.block_on(self.blockstore.inner.put_keyed(c, &num_of(c).to_le_bytes())).unwrap();
                    }
                }
                "ok".into()
            }
            "worker" => {
                let sc = arg_u64(line, "sc").expect("sc");
                let pc = arg_u64(line, "pc").expect("pc");
                self.rig = None;
                self.settle();
                let now = Time::now();
                // window such that `now - window` = time of the cutoff tick + half a tick
                let window = |c: u64| -> Duration {
                    let target = (time_of(c) + Duration::from_secs(TICK / 2)).unwrap();
                    now.duration_since(target).expect("cutoffs are in the past")
                };
                let (sw, pw) = (window(sc), window(pc));
                let log = self.log.clone();
                let policy: Policy = Default::default();
                let rig = self.rt.block_on(async {
                    let (daser, mut handle) = mocked_daser();
                    let (worker, token, events) = VerifPrunerWorker::new(
                        &daser,
                        self.store.clone(),
                        self.blockstore.clone(),
                        Duration::from_secs(3600),
                        pw,
                        sw,
                    );
                    let pol = policy.clone();
                    tokio::spawn(async move {
                        while let Some(cmd) = handle.recv().await {
                            let mut l = log.lock().unwrap();
                            l.activity += 1;
                            match cmd {
                                VerifDaserCmd::UpdateHighestPrunableHeight(h) => l.msgs.push(format!("H{h}")),
                                VerifDaserCmd::UpdateNumberOfPrunableBlocks(n) => l.msgs.push(format!("N{n}")),
                                VerifDaserCmd::WantToPrune(h, tx) => {
                                    let mut p = pol.lock().unwrap();
                                    let grant = match p.get_mut(&h) {
                                        Some(k) if *k > 0 => {
                                            *k -= 1;
                                            false
                                        }
                                        _ => true,
                                    };
                                    l.msgs.push(format!("W{h}{}", if grant { "+" } else { "-" }));
                                    let _ = tx.send(grant);
                                }
                            }
                        }
                    });
                    WorkerRig { worker, token, _daser: daser, policy, events }
                });
                self.rig = Some(rig);
                "ok".into()
            }
            "batch" => {
                let sc = cutoff_of(arg_u64(line, "sc").expect("sc"));
                let pc = cutoff_of(arg_u64(line, "pc").expect("pc"));
                let refresh = arg_u64(line, "refresh").expect("refresh") != 0;
                let refuse = unnatl(arg(line, "refuse").expect("refuse")).expect("refuse");
                self.clear_log();
                let rig = self.rig.as_mut().expect("worker");
                {
                    let mut p = rig.policy.lock().unwrap();
                    p.clear();
                    for h in refuse {
                        p.insert(h, u64::MAX);
                    }
                }
                rig.worker.set_cache_fresh(!refresh);
                let res = self.rt.block_on(rig.worker.get_next_prunable_batch(sc, pc));
                self.settle();
                match res {
                    Ok(batch) => {
                        let msgs = self.log.lock().unwrap().msgs.clone();
                        format!("ok batch={} {} msgs={}", show_ranges(&batch), self.state_suffix(), show_list(&msgs))
                    }
                    Err(k) => format!("err {k}"),
                }
            }
            "run" => {
                self.clear_log();
                let rig = self.rig.as_mut().expect("worker");
                {
                    let mut p = rig.policy.lock().unwrap();
                    p.clear();
                    let s = arg(line, "refuse").expect("refuse");
                    if s != "-" {
                        for t in s.split(',') {
                            let (h, k) = t.split_once(':').expect("h:k");
                            p.insert(h.parse().unwrap(), k.parse().unwrap());
                        }
                    }
                }
                rig.worker.set_cache_fresh(false);
                let log = self.log.clone();
                let token = rig.token.clone();
                let worker = &mut rig.worker;
                let res = self.rt.block_on(async {
                    let fut = worker.run();
                    tokio::pin!(fut);
                    // idle detection: every await of the loop except `sleep(block_time)` resolves within a
                    // couple of scheduler rounds; 64 rounds without any store / blockstore / Daser
                    // activity mean the worker sits in `sleep` after an empty batch
                    let watch = async {
                        let mut last = log.lock().unwrap().activity;
                        let mut quiet = 0;
                        loop {
                            tokio::task::yield_now().await;
                            let cur = log.lock().unwrap().activity;
                            if cur == last {
                                quiet += 1;
                                if quiet >= 64 {
                                    break;
                                }
                            } else {
                                last = cur;
                                quiet = 0;
                            }
                        }
                    };
                    tokio::pin!(watch);
                    tokio::select! {
                        biased;
                        r = &mut fut => return r,
                        _ = &mut watch => {}
                    }
                    token.cancel();
                    fut.await
                });
                // a cancelled token would stop every later run of this worker at once: renew it
                rig.token = rig.worker.renew_token();
                self.settle();
                match res {
                    Ok(()) => {
                        let (msgs, effs) = {
                            let l = self.log.lock().unwrap();
                            (l.msgs.clone(), l.effs.clone())
                        };
                        let mut events = vec![];
                        let rig = self.rig.as_mut().unwrap();
                        while let Ok(ev) = rig.events.try_recv() {
                            if let NodeEvent::PrunedHeaders { from_height, to_height } = ev.event {
                                events.push(format!("{from_height}-{to_height}"));
                            }
                        }
                        let stored = self.rt.block_on(self.store.get_stored_header_ranges()).unwrap();
                        let pruned = self.rt.block_on(self.store.get_pruned_ranges()).unwrap();
                        format!(
                            "ok msgs={} effs={} events={} stored={} pruned={} {}",
                            show_list(&msgs),
                            show_list(&effs),
                            show_list(&events),
                            show_ranges(&stored),
                            show_ranges(&pruned),
                            self.state_suffix()
                        )
                    }
                    Err(k) => format!("err {k}"),
                }
            }
            _ => "bad-op".into(),
        }
    }
}

fn main() {
    main_for(C35::new());
}

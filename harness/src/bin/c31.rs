//! C31 — Network head selection follows the best-head rule.
//!
//! Drives the REAL `HeaderExClientHandler` (through `ClientRig` in the cfg-guarded hook block of
//! `node/src/p2p/header_ex/client.rs`: real handler + real `PeerTracker` + recording
//! `RequestSender`) through complete HEAD rounds.
use std::future::poll_fn;
use std::task::Poll;

use celestia_proto::p2p::pb::header_request::Data;
use celestia_proto::p2p::pb::{HeaderRequest, HeaderResponse, StatusCode};
use celestia_types::ExtendedHeader;
use celestia_types::test_utils::{ExtendedHeaderGenerator, invalidate};
use libp2p::PeerId;
use libp2p::request_response::OutboundFailure;
use lumina_node::verif::p2p::header_ex::client::{Answer, ClientRig};
use verif_harness::*;

struct C31 {
    rt: tokio::runtime::Runtime,
    pool: Vec<ExtendedHeader>,
}

fn encode(h: &ExtendedHeader) -> Vec<u8> {
    use tendermint_proto::Protobuf;
    <ExtendedHeader as Protobuf<celestia_proto::header::pb::ExtendedHeader>>::encode_vec(h.clone())
}

fn ok_resp(h: &ExtendedHeader) -> HeaderResponse {
    HeaderResponse { body: encode(h), status_code: StatusCode::Ok.into() }
}

impl C31 {
    fn new() -> Self {
        let rt = tokio::runtime::Builder::new_current_thread().enable_time().build().unwrap();
        // heights 1..=4, for each the main header, a fork at the same height and a second fork
        let mut g = ExtendedHeaderGenerator::new();
        let main = g.next_many(4);
        let mut pool = vec![];
        for h in &main {
            pool.push(h.clone());
            pool.push(g.another_of(h));
            pool.push(g.another_of(h));
        }
        C31 { rt, pool }
    }

    fn pool_line(&self) -> String {
        let items: Vec<String> = self
            .pool
            .iter()
            .enumerate()
            .map(|(i, h)| format!("{i}:{}:{}", h.height(), hx(h.hash().as_bytes())))
            .collect();
        format!("pool h={}", items.join(","))
    }

    /// what to feed to a request: Ok(responses) or Err(failure)
    fn answer(&self, a: &str) -> Result<Vec<HeaderResponse>, OutboundFailure> {
        if let Some(i) = a.strip_prefix('s') {
            let i: usize = i.parse().unwrap_or(0);
            return Ok(vec![ok_resp(&self.pool[i % self.pool.len()])]);
        }
        match a {
            "m" => Ok(vec![ok_resp(&self.pool[0]), ok_resp(&self.pool[3])]),
            "nf" => Ok(vec![HeaderResponse { body: vec![], status_code: StatusCode::NotFound.into() }]),
            "inv" => Ok(vec![HeaderResponse { body: vec![], status_code: StatusCode::Invalid.into() }]),
            "bad" => Ok(vec![HeaderResponse { body: vec![1, 2, 3, 4, 5], status_code: StatusCode::Ok.into() }]),
            "unv" => {
                let mut h = self.pool[9].clone();
                invalidate(&mut h);
                Ok(vec![ok_resp(&h)])
            }
            "empty" => Ok(vec![]),
            "closed" => Err(OutboundFailure::ConnectionClosed),
            "dial" => Err(OutboundFailure::DialFailure),
            _ => Err(OutboundFailure::Timeout),
        }
    }
}

const KINDS: &[&str] = &["m", "nf", "inv", "bad", "unv", "empty", "closed", "dial", "fail"];

fn gen_round(rng: &mut Rng, npool: usize) -> String {
    let n = rng.usize(0, 11);
    gen_round_n(rng, npool, n)
}

/// a round with exactly `n` listed answers
fn gen_round_n(rng: &mut Rng, npool: usize, n: usize) -> String {
    if n == 0 {
        return "e".into();
    }
    // a few "popular" headers so that agreement happens
    let pop: Vec<usize> = (0..rng.usize(1, 3)).map(|_| rng.usize(0, npool - 1)).collect();
    let style = rng.below(5);
    (0..n)
        .map(|_| match style {
            0 => format!("s{}", pop[0]),                                    // unanimous
            1 => {
                if rng.chance(3, 4) { format!("s{}", rng.pick(&pop)) } else { rng.pick(KINDS).to_string() }
            }
            2 => format!("s{}", rng.usize(0, npool - 1)),                   // scattered, forks
            3 => rng.pick(KINDS).to_string(),                               // nothing valid
            _ => {
                if rng.bool() { format!("s{}", rng.usize(0, npool - 1)) } else { rng.pick(KINDS).to_string() }
            }
        })
        .collect::<Vec<_>>()
        .join(",")
}

impl Prop for C31 {
    fn id(&self) -> &'static str {
        "C31"
    }
    fn rule(&self) -> &'static str {
        "one op = one life of a HEAD request through the real client handler: 0..14 peers with every combination of \
         connected/trusted, 1..4 callers of which 0..all dropped their receiver before scheduling, 0..2 callers joining \
         while the request is in flight, 1..3 rounds of peer answers (valid single headers from a pool of 4 heights x 3 \
         forks with agreement patterns: unanimous, majority, scattered, nothing valid; multi-header, not-found, invalid, \
         undecodable, failing validation, empty, three kinds of outbound failure), delivered in order or reversed. \
         Size-threshold ops (S10, tags thr/eligible=E, big/peers=T, big/callers=C): exactly 8..12 connected trusted peers alone \
         or among 1/7/30 ineligible ones; 16..513 (thorough 15..1025) peers of which all / about a quarter / exactly ten / 0..2 are \
         eligible; 8..129 (thorough 7..513) concurrent callers with 0, 1, all-but-one, all or a random number of dropped receivers \
         and up to 33 callers joining in flight; rounds there list 0, 1, 2, one fewer than / exactly / one more than the number of \
         requests sent, or 11 answers. \
         Non-trivial = at least one request was sent; distinct = distinct (op, result)."
    }
    fn gen_ops(&mut self, rng: &mut Rng, tier: Tier, out: &mut Emitter) {
        out.op(self.pool_line(), "pool", false);
        let n = if tier == Tier::Thorough { 20000 } else { 2500 };
        let npool = self.pool.len();
        for _ in 0..n {
            let np = match rng.below(8) {
                0 => 0,
                1 => rng.usize(11, 14),
                _ => rng.usize(1, 10),
            };
            let bias = rng.below(3);
            let peers: Vec<&str> = (0..np)
                .map(|_| match bias {
                    0 => "ct",
                    1 => *rng.pick(&["ct", "ct", "ct", "cu", "dt"]),
                    _ => *rng.pick(&["ct", "cu", "dt", "du"]),
                })
                .collect();
            let callers = rng.usize(1, 4);
            let closed = if rng.chance(1, 4) { rng.usize(1, callers) } else { 0 };
            let late = if rng.chance(1, 3) { rng.usize(1, 2) } else { 0 };
            let rounds: Vec<String> = (0..rng.usize(1, 3)).map(|_| gen_round(rng, npool)).collect();
            let elig = peers.iter().filter(|p| **p == "ct").count();
            out.op(
                format!(
                    "head peers={} callers={callers} closed={closed} late={late} rounds={} rev={}",
                    if peers.is_empty() { "-".to_string() } else { peers.join(",") },
                    rounds.join(";"),
                    rng.below(2)
                ),
                if elig == 0 { "head/no-eligible-peer" } else if elig > 10 { "head/more-than-10-eligible" } else { "head" },
                elig > 0 && closed < callers + late,
            );
        }
        // ---- S10 size-threshold stress (ops are independent lives, so these are simply appended) ----
        let reps = if tier == Tier::Thorough { 8 } else { 1 };
        let emit = |rng: &mut Rng, out: &mut Emitter, flags: Vec<&str>, callers: usize, closed: usize, late: usize, tag: &str| {
            let elig = flags.iter().filter(|p| **p == "ct").count();
            let sent = elig.min(10);
            // answers per round: none, fewer than / exactly / more than the requests that will be sent
            let rounds: Vec<String> = (0..rng.usize(1, 3))
                .map(|_| {
                    let n = *rng.pick(&[0, 1, 2, sent.saturating_sub(1), sent, sent, sent + 1, 11]);
                    gen_round_n(rng, npool, n)
                })
                .collect();
            out.op(
                format!(
                    "head peers={} callers={callers} closed={closed} late={late} rounds={} rev={}",
                    if flags.is_empty() { "-".to_string() } else { flags.join(",") },
                    rounds.join(";"),
                    rng.below(2)
                ),
                tag,
                elig > 0 && closed < callers + late,
            );
        };
        for _ in 0..reps {
            // (a) exactly 8..12 connected trusted peers (MAX_PEERS = 10 +-1, +-2), alone or among ineligible peers
            for e in 8..=12usize {
                for &extra in &[0usize, 1, 7, 30] {
                    for _ in 0..4 {
                        let mut flags: Vec<&str> = vec!["ct"; e];
                        for _ in 0..extra {
                            flags.push(*rng.pick(&["cu", "dt", "du"]));
                        }
                        rng.shuffle(&mut flags);
                        let callers = rng.usize(1, 4);
                        let late = if rng.chance(1, 3) { rng.usize(1, 2) } else { 0 };
                        emit(rng, out, flags, callers, 0, late, &format!("thr/eligible={e}"));
                    }
                }
            }
            // (b) many peers in the tracker: few / about half / all of them eligible
            let totals: &[usize] =
                if tier == Tier::Thorough { &[15, 16, 17, 31, 32, 33, 63, 64, 65, 127, 128, 129, 257, 513, 1025] } else { &[16, 17, 32, 33, 64, 65, 129, 513] };
            for &t in totals {
                for style in 0..4 {
                    let mut flags: Vec<&str> = (0..t)
                        .map(|i| match style {
                            0 => "ct",
                            1 => *rng.pick(&["ct", "cu", "dt", "du"]),
                            2 => if i < 10 { "ct" } else { *rng.pick(&["cu", "dt", "du"]) },
                            _ => if i < rng.usize(0, 3) { "ct" } else { *rng.pick(&["cu", "dt", "du"]) },
                        })
                        .collect();
                    rng.shuffle(&mut flags);
                    let callers = rng.usize(1, 4);
                    let late = rng.usize(0, 2);
                    emit(rng, out, flags, callers, 0, late, &format!("big/peers={t}"));
                }
            }
            // (c) many concurrent callers of one HEAD request (some with a dropped receiver, some joining in flight)
            let cs: &[usize] = if tier == Tier::Thorough { &[7, 8, 9, 15, 16, 17, 31, 32, 33, 63, 64, 65, 129, 513] } else { &[8, 9, 16, 17, 32, 33, 64, 65, 129] };
            for &c in cs {
                for k in 0..5 {
                    let np = *rng.pick(&[1usize, 2, 3, 9, 10, 11]);
                    let mut flags: Vec<&str> = vec!["ct"; np];
                    if rng.bool() {
                        flags.push("cu");
                        flags.push("dt");
                    }
                    let closed = match k {
                        0 => 0,
                        1 => 1,
                        2 => c - 1,
                        3 => c,
                        _ => rng.usize(0, c),
                    };
                    let late = *rng.pick(&[0usize, 0, 1, 2, 9, 17, 33]);
                    emit(rng, out, flags, c, closed, late, &format!("big/callers={c}"));
                }
            }
        }
    }

    fn run(&mut self, line: &str) -> String {
        match opname(line) {
            "reset" => "ok".into(),
            "pool" => format!("ok {}", self.pool.len()),
            "head" => {
                let peers_s = arg(line, "peers").unwrap_or("-");
                let flags: Vec<&str> = if peers_s == "-" { vec![] } else { peers_s.split(',').collect() };
                let callers = arg_u64(line, "callers").unwrap_or(0) as usize;
                let closed = arg_u64(line, "closed").unwrap_or(0) as usize;
                let late = arg_u64(line, "late").unwrap_or(0) as usize;
                let rev = arg_u64(line, "rev").unwrap_or(0) == 1;
                let rounds_s = arg(line, "rounds").unwrap_or("-");
                let rounds: Vec<Vec<&str>> = if rounds_s == "-" {
                    vec![]
                } else {
                    rounds_s.split(';').map(|r| if r == "e" { vec![] } else { r.split(',').collect() }).collect()
                };
                let this = &*self;
                self.rt.block_on(async move {
                    let mut rig = ClientRig::new();
                    let ids: Vec<PeerId> = flags.iter().map(|_| PeerId::random()).collect();
                    for (i, f) in flags.iter().enumerate() {
                        rig.set_peer(&ids[i], f.ends_with('t'), false);
                        if f.starts_with('c') {
                            rig.connect(&ids[i], i);
                        }
                    }
                    let head = HeaderRequest { amount: 1, data: Some(Data::Origin(0)) };
                    let mut rxs: Vec<Option<Answer>> = (0..callers).map(|_| Some(rig.send_request(head.clone()))).collect();
                    for rx in rxs.iter_mut().take(closed) {
                        *rx = None; // receiver dropped
                    }
                    let (mut sents, mut tos, mut tfs, mut rs) = (vec![], vec![], vec![], vec![]);
                    let mut bad = 0usize; // requests that are not the HEAD request or go to an unknown peer
                    let mut dup = 0usize; // a peer asked twice in one round
                    let mut answers: Vec<String> = vec![];
                    let elig = flags.iter().filter(|f| **f == "ct").count();
                    for (ri, round) in rounds.iter().enumerate() {
                        let before = rig.sender.sent.len();
                        rig.schedule();
                        if ri == 0 {
                            for _ in 0..late {
                                rxs.push(Some(rig.send_request(head.clone())));
                            }
                        }
                        let new: Vec<(u64, PeerId, HeaderRequest)> = rig.sender.sent[before..].to_vec();
                        // the real recipients: their indices and their connected/trusted flags as given in the op
                        let mut to: Vec<usize> = vec![];
                        let mut tf: Vec<&str> = vec![];
                        for (_, p, req) in &new {
                            match ids.iter().position(|x| x == p) {
                                Some(i) => {
                                    if to.contains(&i) {
                                        dup += 1;
                                    }
                                    to.push(i);
                                    tf.push(flags[i]);
                                }
                                None => bad += 1,
                            }
                            if *req != head {
                                bad += 1;
                            }
                        }
                        to.sort();
                        tf.sort();
                        sents.push(new.len().to_string());
                        // with more than MAX_PEERS eligible peers WHICH ten are asked depends on HashMap order
                        tos.push(if elig > 10 { "*".to_string() } else { natl(&to) });
                        tfs.push(if tf.is_empty() { "-".to_string() } else { tf.join(".") });
                        // answers: i-th listed answer goes to the i-th request; missing = timeout
                        let mut deliveries: Vec<(usize, &str)> =
                            (0..new.len()).map(|i| (i, round.get(i).copied().unwrap_or("fail"))).collect();
                        if rev {
                            deliveries.reverse();
                        }
                        for (i, a) in deliveries {
                            let (id, peer, _) = &new[i];
                            match this.answer(a) {
                                Ok(resps) => rig.response(*peer, *id, resps),
                                Err(e) => rig.failure(*peer, *id, e),
                            }
                        }
                        // drive the handler until its tasks are done
                        for _ in 0..10_000 {
                            let _ = poll_fn(|cx| {
                                let _ = rig.poll(cx);
                                Poll::Ready(())
                            })
                            .await;
                            if rig.counts().4 == 0 {
                                break;
                            }
                            tokio::task::yield_now().await;
                        }
                        // what did the callers get?
                        let mut r = "none".to_string();
                        for (c, rx) in rxs.iter_mut().enumerate() {
                            if let Some(rcv) = rx {
                                match rcv.try_recv() {
                                    Ok(Ok(v)) if v.len() == 1 => {
                                        let idx = this.pool.iter().position(|h| h.hash() == v[0].hash() && *h == v[0]);
                                        let name = idx.map(|i| i.to_string()).unwrap_or("?".into());
                                        // every caller's own answer is printed; `r` = what the first of them got
                                        if r == "none" {
                                            r = name.clone();
                                        }
                                        answers.push(format!("{c}:{name}"));
                                        *rx = None;
                                    }
                                    Ok(Ok(v)) => {
                                        answers.push(format!("{c}:len{}", v.len()));
                                        *rx = None;
                                    }
                                    Ok(Err(_)) => {
                                        answers.push(format!("{c}:err"));
                                        *rx = None;
                                    }
                                    Err(_) => {}
                                }
                            }
                        }
                        rs.push(r);
                    }
                    let live = callers - closed + if rounds.is_empty() { 0 } else { late };
                    format!(
                        "sent={} to={} tf={} bad={bad} dup={dup} r={} ans={} of={live}",
                        sents.join("/"),
                        tos.join("/"),
                        tfs.join("/"),
                        rs.join("/"),
                        if answers.is_empty() { "-".to_string() } else { answers.join(",") }
                    )
                })
            }
            _ => "bad-op".into(),
        }
    }

    fn result_tag(&self, _line: &str, result: &str) -> Option<String> {
        let r = arg(result, "r").unwrap_or("?");
        let k = r.split('/').position(|x| x != "none");
        Some(match k {
            Some(i) => format!("head-in-round-{}", i + 1),
            None => "no-head".to_string(),
        })
    }
}

fn main() {
    main_for(C31::new());
}

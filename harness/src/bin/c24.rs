//! C24 — Syncer fetches missing, insertable heights nearest the head first.
//!
//! `fetch head=H synced=<ranges> limit=N` : the private `calculate_range_to_fetch` (hook)
//! `batch head=H stored=<ranges> pruned=<ranges> limit=N` : `pruned + &stored` as in
//!     `Worker::fetch_next_batch`, then the same function.
//! `worker head=H stored=<ranges> pruned=<ranges> limit=N` : the REAL syncer `Worker` (hook
//!     `verif::syncer::worker`, not spawned) on a real `InMemoryStore` holding an honest chain with
//!     exactly these stored / pruned heights: the real `fetch_next_batch` (all gates), then the real
//!     `Store::insert` of the honest headers of the requested batch.
use std::ops::RangeInclusive;
use std::sync::Arc;
use std::time::Duration;

use celestia_types::ExtendedHeader;
use celestia_types::test_utils::ExtendedHeaderGenerator;
use lumina_node::block_ranges::{BlockRange, BlockRanges};
use lumina_node::store::{InMemoryStore, Store};
use lumina_node::verif::p2p::mocked_p2p;
use lumina_node::verif::syncer as hook;
use tendermint::Time;
use verif_harness::*;

/// length of the honest chain behind the `worker` op
const CHAIN: u64 = 16;
/// length of the generated pool: heights above `CHAIN` are used by the size-threshold `worker` ops only
const BIG_CHAIN: u64 = 420;

struct C24 {
    rt: tokio::runtime::Runtime,
    pool: Vec<ExtendedHeader>,
}

impl C24 {
    fn new() -> Self {
        let rt = tokio::runtime::Builder::new_current_thread().enable_time().build().unwrap();
        let mut generator = ExtendedHeaderGenerator::new();
        // every header is a few minutes old: inside any sampling window used below
        let first = (Time::now() - Duration::from_secs(3600)).unwrap();
        generator.set_time(first, Duration::from_secs(1));
        let pool = generator.next_many_empty(BIG_CHAIN);
        C24 { rt, pool }
    }

    fn span(&self, a: u64, b: u64) -> Option<Vec<ExtendedHeader>> {
        if a >= 1 && a <= b && b <= BIG_CHAIN { Some(self.pool[(a - 1) as usize..b as usize].to_vec()) } else { None }
    }

    fn worker(&self, head: u64, stored: Vec<BlockRange>, pruned: Vec<BlockRange>, limit: u64) -> String {
        let (Ok(st), Ok(pr)) = (BlockRanges::from_vec(stored.into_iter().collect()), BlockRanges::from_vec(pruned.into_iter().collect()))
        else {
            return "load-err".into();
        };
        let all = st.clone() + &pr;
        self.rt.block_on(async {
            let (p2p, handle) = mocked_p2p();
            let store = Arc::new(InMemoryStore::new());
            // build the store: insert every synced range (each one a new HEAD range), then prune
            for r in all.as_ref() {
                let Some(span) = self.span(*r.start(), *r.end()) else { return "bad-op".to_string() };
                if store.insert(span).await.is_err() {
                    return "setup-insert-failed".to_string();
                }
            }
            for r in pr.as_ref() {
                for h in r.clone() {
                    if store.remove_height(h).await.is_err() {
                        return "setup-prune-failed".to_string();
                    }
                }
            }
            let (got_st, got_pr) = (store.get_stored_header_ranges().await.unwrap(), store.get_pruned_ranges().await.unwrap());
            if got_st != st || got_pr != pr {
                return format!("setup-mismatch st={got_st} pr={got_pr}");
            }
            let (mut w, _events) = hook::worker(
                &p2p,
                store.clone(),
                limit,
                Duration::from_secs(30 * 24 * 3600),
                Duration::from_secs(31 * 24 * 3600),
            );
            w.set_subjective_head_height(head);
            handle.set_peers(1, 1);
            if let Err(e) = w.fetch_next_batch().await {
                return format!("fatal {e}");
            }
            let res = match w.ongoing() {
                None => "none".to_string(),
                Some((a, b)) => {
                    let ins = match self.span(a, b) {
                        Some(span) => match store.insert(span).await {
                            Ok(()) => "ok",
                            Err(_) => "err",
                        },
                        None => "na",
                    };
                    format!("req {a}-{b} insert={ins}")
                }
            };
            w.cancel_ongoing();
            res
        })
    }
}

fn parse_ranges(s: &str) -> Option<Vec<BlockRange>> {
    if s == "-" || s.is_empty() {
        return Some(vec![]);
    }
    s.split(',')
        .map(|t| {
            let (a, b) = t.split_once('-')?;
            Some(RangeInclusive::new(a.parse().ok()?, b.parse().ok()?))
        })
        .collect()
}

fn fmt_vec(v: &[(u64, u64)]) -> String {
    if v.is_empty() { "-".into() } else { v.iter().map(|(s, e)| format!("{s}-{e}")).collect::<Vec<_>>().join(",") }
}

fn subset(mask: u32, n: u32) -> Vec<(u64, u64)> {
    let mut v = vec![];
    let mut h = 1;
    while h <= n {
        if mask & (1 << (h - 1)) != 0 {
            let s = h;
            while h < n && mask & (1 << h) != 0 {
                h += 1;
            }
            v.push((s as u64, h as u64));
        }
        h += 1;
    }
    v
}

fn random_value(rng: &mut Rng, base: u64, spread: u64) -> Vec<(u64, u64)> {
    let n = rng.usize(0, 4);
    let mut v = vec![];
    let mut cur = base;
    for _ in 0..n {
        let Some(s) = cur.checked_add(rng.range(if v.is_empty() { 0 } else { 2 }, spread)) else { break };
        let e = s.saturating_add(rng.range(0, spread * 3));
        v.push((s, e));
        if e >= u64::MAX - 1 {
            break;
        }
        cur = e;
    }
    v
}


/// a canonical value with exactly `k` ranges (lengths 1..=4, gaps 2..=5) starting at `base`
fn many_value(rng: &mut Rng, k: usize, base: u64) -> Vec<(u64, u64)> {
    let mut v = Vec::with_capacity(k);
    let mut s = base.max(2);
    for _ in 0..k {
        let e = s + rng.range(0, 3);
        v.push((s, e));
        s = e + *rng.pick(&[2, 2, 3, 4, 5]);
    }
    v
}

/// a canonical value with exactly `k` ranges (lengths 1..=4, gaps 2..=5) starting at `base` whose LAST gap (the
/// missing heights between the penultimate and the highest range) is exactly `top_gap` (S10)
fn many_value_gap(rng: &mut Rng, k: usize, base: u64, top_gap: u64, short: bool) -> Vec<(u64, u64)> {
    let mut v = Vec::with_capacity(k);
    let mut s = base.max(2);
    for i in 0..k {
        let e = s + if short { rng.range(0, 1) } else { rng.range(0, 3) };
        v.push((s, e));
        s = e + if i + 2 == k { top_gap + 1 } else if short { 2 } else { *rng.pick(&[2, 2, 3, 4, 5]) };
    }
    v
}

impl Prop for C24 {
    fn id(&self) -> &'static str {
        "C24"
    }
    fn rule(&self) -> &'static str {
        "Synced set = canonical subset of heights 1..12 (all 4096 in thorough, 40 seeded ones incl. \
         empty/full/alternating in quick) x every head 0..13 x every batch size 0..13; the same through \
         `pruned + stored` with the subset split into stored/pruned parts; random values of 0..4 ranges at \
         1, mid-u64 and ending at u64::MAX with heads at/around every boundary and u64::MAX and batch sizes \
         0, 1, small, 512, u64::MAX; synced values with MANY ranges (9..64) with heads at/around the top and batch sizes around the gap below the highest range; \
         size-threshold stress (tags big/..): values of 8, 32, 63, 65, 128, 129, 257, 1025 ranges (thorough: 7..2049, every power of two -1/+0/+1) \
         whose gap below the highest range is exactly 63/64/65/511/512/513, heads caught-up and behind by gap-1/gap/gap+1, batch sizes \
         1, gap-1, gap, gap+1, 64, 512, u64::MAX, also through `pruned + stored`; the REAL Worker + real InMemoryStore holding 9 / 17 / 33 / 65 \
         (thorough 8..100) stored+pruned ranges (none / every third / all but the highest / only the highest pruned) on a 420-header chain, \
         heads caught-up and behind by 1, 63, 64, 65, batch sizes around the gap and 63/64/65/512; the REAL Worker::fetch_next_batch + real InMemoryStore::insert of the \
         requested batch on an honest 16-header chain with the subset split into stored / pruned heights. \
         The store-ahead-of-head situation (where the one known finding lives) is sampled at ~1/40. Non-trivial = synced non-empty and limit > 0; distinct = distinct \
         (op, result)."
    }
    fn gen_ops(&mut self, rng: &mut Rng, tier: Tier, out: &mut Emitter) {
        let thorough = tier == Tier::Thorough;
        let n = 12u32;
        let masks: Vec<u32> = if thorough {
            (0..(1u32 << n)).collect()
        } else {
            let mut m = vec![0, (1 << n) - 1, 0b010101010101, 0b101010101010, 0b111000111000, 0b000011110000, 1, 1 << (n - 1)];
            for _ in 0..32 {
                m.push(rng.below(1 << n) as u32);
            }
            m
        };
        for &m in &masks {
            let v = subset(m, n);
            let sv = fmt_vec(&v);
            for head in 0..=13u64 {
                for limit in 0..=13u64 {
                    let tag = match v.last() {
                        None => "scope12/empty",
                        Some(l) if l.1 < head => "scope12/behind",
                        Some(l) if l.1 == head => "scope12/caught-up",
                        _ => "scope12/store-ahead",
                    };
                    // the store being ahead of the subjective head is the rare situation (and the one
                    // known finding lives there): keep a small sample of it only
                    if tag == "scope12/store-ahead" && !rng.chance(1, 40) {
                        continue;
                    }
                    out.op(format!("fetch head={head} synced={sv} limit={limit}"), tag, !v.is_empty() && limit > 0);
                }
            }
            // split into stored / pruned
            if thorough || rng.chance(1, 2) {
                for _ in 0..(if thorough { 2 } else { 30 }) {
                    let pm = m & (rng.below(1 << n) as u32);
                    let (st, pr) = (subset(m & !pm, n), subset(pm, n));
                    let topv = v.last().map(|l| l.1).unwrap_or(0);
                    let head = if rng.chance(1, 30) { rng.range(0, 13) } else { rng.range(topv, 13) };
                    let limit = rng.range(0, 13);
                    out.op(
                        format!("batch head={head} stored={} pruned={} limit={limit}", fmt_vec(&st), fmt_vec(&pr)),
                        "scope12/batch",
                        m != 0 && limit > 0,
                    );
                    // the same configuration on the real Worker + real store
                    let head = if rng.chance(1, 30) { rng.range(1, CHAIN) } else { rng.range(topv.max(1), CHAIN) };
                    let limit = *rng.pick(&[0, 1, 2, 3, 5, 8, 13, 512]);
                    out.op(
                        format!("worker head={head} stored={} pruned={} limit={limit}", fmt_vec(&st), fmt_vec(&pr)),
                        if pm == 0 { "worker/nothing-pruned" } else { "worker/pruned" },
                        m != 0 && limit > 0,
                    );
                }
            }
        }
        // synced values with MANY ranges (size-dependent code paths), through the function and
        // through `pruned + stored` with the ranges dealt alternately to the two operands
        let sizes: Vec<usize> = if thorough { (9..=64).collect() } else { vec![9, 10, 16, 17, 24, 33, 64] };
        for (n, &k) in sizes.iter().enumerate() {
            let base = match n % 3 {
                0 => 2,
                1 => (1u64 << 40) + rng.range(0, 5),
                _ => u64::MAX - 9 * k as u64 - 40,
            };
            let v = many_value(rng, k, base);
            let sv = fmt_vec(&v);
            let (top_s, top_e) = v[k - 1];
            let pen_e = v[k - 2].1;
            let gap = top_s - 1 - pen_e;
            let (st, pr): (Vec<_>, Vec<_>) = {
                let mut a = vec![];
                let mut b = vec![];
                for (i, r) in v.iter().enumerate() {
                    if i % 2 == 0 { a.push(*r) } else { b.push(*r) }
                }
                (a, b)
            };
            for head in [top_e, top_e + 1, top_e + 2, top_e + 7, top_e.saturating_add(600), top_s, pen_e] {
                for limit in [0, 1, 2, gap.saturating_sub(1), gap, gap + 1, 7, 512, u64::MAX] {
                    let tag = if top_e < head { "many/behind" } else if top_e == head { "many/caught-up" } else { "many/store-ahead" };
                    if tag == "many/store-ahead" && !rng.chance(1, 10) {
                        continue;
                    }
                    out.op(format!("fetch head={head} synced={sv} limit={limit}"), tag, limit > 0);
                    if rng.chance(1, 3) {
                        out.op(
                            format!("batch head={head} stored={} pruned={} limit={limit}", fmt_vec(&st), fmt_vec(&pr)),
                            "many/batch",
                            limit > 0,
                        );
                    }
                }
            }
        }
        // size-threshold stress (S10): range counts straddling 8 / 32 / 64 / 128 / 256 / 1024 (9..64 are above), the gap
        // below the highest range and the distance to the head exactly 63/64/65 and 511/512/513 with batch sizes +-1
        let big_sizes: Vec<usize> = if thorough {
            vec![7, 8, 31, 32, 63, 65, 127, 128, 129, 255, 256, 257, 511, 512, 513, 1023, 1024, 1025, 2049]
        } else {
            vec![8, 32, 63, 65, 128, 129, 257, 1025]
        };
        let gaps = [63u64, 64, 65, 511, 512, 513];
        for (n, &k) in big_sizes.iter().enumerate() {
            for rep in 0..(if thorough { 3 } else { 1 }) {
                let gap = gaps[(n + rep) % gaps.len()];
                let base = match (n + rep) % 3 {
                    0 => 2,
                    1 => (1u64 << 40) + rng.range(0, 5),
                    _ => u64::MAX - 9 * k as u64 - 1300,
                };
                let v = many_value_gap(rng, k, base, gap, false);
                let sv = fmt_vec(&v);
                let (top_s, top_e) = v[k - 1];
                let pen_e = v[k - 2].1;
                assert_eq!(top_s - 1 - pen_e, gap);
                let (st, pr): (Vec<_>, Vec<_>) = {
                    let mut a = vec![];
                    let mut b = vec![];
                    for (i, r) in v.iter().enumerate() {
                        if i % 3 != 1 { a.push(*r) } else { b.push(*r) }
                    }
                    (a, b)
                };
                let t = format!("big/{k}r-gap{gap}");
                // caught up: the gap below the highest range, batch sizes around the gap and the named constants
                // behind by exactly gap-1 / gap / gap+1 heights: batch sizes around that distance
                for head in [top_e, top_e + gap - 1, top_e + gap, top_e + gap + 1, top_s, pen_e] {
                    for limit in [1, gap - 1, gap, gap + 1, 64, 512, u64::MAX] {
                        let sit = if top_e < head { "behind" } else if top_e == head { "caught-up" } else { "store-ahead" };
                        if sit == "store-ahead" && !rng.chance(1, 10) {
                            continue;
                        }
                        // (the Lean driver needs ~40 ms per op at 1025 ranges: a handful of those in quick)
                        if !thorough && k > 300 && !((head == top_e || head == top_e + gap) && [gap, gap + 1, 512].contains(&limit)) {
                            continue;
                        }
                        out.op(format!("fetch head={head} synced={sv} limit={limit}"), &format!("{t}/{sit}"), limit > 0);
                        if rng.chance(1, 3) {
                            out.op(
                                format!("batch head={head} stored={} pruned={} limit={limit}", fmt_vec(&st), fmt_vec(&pr)),
                                &format!("{t}/batch"),
                                limit > 0,
                            );
                        }
                    }
                }
            }
        }
        // the REAL Worker + real InMemoryStore with MANY stored / pruned ranges (pool of 420 headers)
        let wsizes: Vec<usize> = if thorough { vec![8, 9, 16, 17, 32, 33, 64, 65, 100] } else { vec![9, 17, 33, 65] };
        for (n, &k) in wsizes.iter().enumerate() {
            for rep in 0..(if thorough { 4 } else { 1 }) {
                let gap = [3u64, 8, 9, 16, 17, 33, 64, 65][(n + rep) % 8];
                let wbase = 2 + rng.range(0, 3);
                let v = many_value_gap(rng, k, wbase, gap, k > 40);
                let (top_s, top_e) = v[k - 1];
                assert!(top_e + 70 <= BIG_CHAIN);
                // which ranges are pruned: none / every third / all but the highest / the highest only
                for mode in 0..4usize {
                    let (mut st, mut pr) = (vec![], vec![]);
                    for (i, r) in v.iter().enumerate() {
                        let pruned = match mode {
                            0 => false,
                            1 => i % 3 == 1,
                            2 => i + 1 != k,
                            _ => i + 1 == k,
                        };
                        if pruned { pr.push(*r) } else { st.push(*r) }
                    }
                    let heads = [top_e, top_e + 1, top_e + 63, top_e + 64, top_e + 65, top_s];
                    let limits = [1, gap - 1, gap, gap + 1, 63, 64, 65, 512];
                    for (hi, &head) in heads.iter().enumerate() {
                        if head < top_e && !rng.chance(1, 6) {
                            continue;
                        }
                        let picks: Vec<u64> = if thorough {
                            limits.to_vec()
                        } else {
                            vec![limits[(hi + mode) % 8], limits[(hi + mode + 3) % 8]]
                        };
                        for limit in picks {
                            out.op(
                                format!("worker head={head} stored={} pruned={} limit={limit}", fmt_vec(&st), fmt_vec(&pr)),
                                &format!("big/worker-{k}r/{}", ["nothing-pruned", "some-pruned", "only-top-stored", "top-pruned"][mode]),
                                limit > 0,
                            );
                        }
                    }
                }
            }
        }
        let rounds = if thorough { 30000 } else { 1500 };
        for i in 0..rounds {
            let base = match i % 4 {
                0 => 1,
                1 => rng.next_u64() >> rng.range(1, 40),
                2 => u64::MAX - rng.range(0, 80),
                _ => rng.range(1, 30),
            };
            let spread = *rng.pick(&[1, 2, 3, 5, 9, 600]);
            let v = random_value(rng, base, spread);
            let sv = fmt_vec(&v);
            let mut heads: Vec<u64> = vec![0, 1, u64::MAX, u64::MAX - 1];
            for (s, e) in &v {
                for d in 0..=2 {
                    heads.push(s.saturating_sub(d));
                    heads.push(e.saturating_sub(d));
                    heads.push(e.saturating_add(d));
                    heads.push(e.saturating_add(600 + d));
                }
            }
            for _ in 0..6 {
                let mut head = *rng.pick(&heads);
                if let Some(l) = v.last() {
                    if l.1 > head && !rng.chance(1, 25) {
                        head = l.1.saturating_add(rng.range(0, 3) * rng.range(0, 400));
                    }
                }
                let limit = match rng.below(6) {
                    0 => 0,
                    1 => 1,
                    2 => rng.range(2, 9),
                    3 => 512,
                    4 => u64::MAX - rng.range(0, 1),
                    _ => rng.range(1, 2000),
                };
                let tag = match v.last() {
                    None => "random/empty",
                    Some(l) if l.1 < head => "random/behind",
                    Some(l) if l.1 == head => "random/caught-up",
                    _ => "random/store-ahead",
                };
                out.op(format!("fetch head={head} synced={sv} limit={limit}"), tag, !v.is_empty() && limit > 0);
            }
        }
    }
    fn run(&mut self, line: &str) -> String {
        let show = |r: BlockRange| format!("{}-{}", r.start(), r.end());
        match opname(line) {
            "reset" => "ok".into(),
            "fetch" => {
                let (Some(h), Some(v), Some(l)) = (arg_u64(line, "head"), arg(line, "synced").and_then(parse_ranges), arg_u64(line, "limit")) else {
                    return "bad-op".into();
                };
                let Ok(rs) = BlockRanges::from_vec(v.into_iter().collect()) else { return "load-err".into() };
                show(hook::calculate_range_to_fetch(h, rs.as_ref(), l))
            }
            "worker" => {
                let (Some(h), Some(st), Some(pr), Some(l)) = (
                    arg_u64(line, "head"),
                    arg(line, "stored").and_then(parse_ranges),
                    arg(line, "pruned").and_then(parse_ranges),
                    arg_u64(line, "limit"),
                ) else {
                    return "bad-op".into();
                };
                self.worker(h, st, pr, l)
            }
            "batch" => {
                let (Some(h), Some(st), Some(pr), Some(l)) = (
                    arg_u64(line, "head"),
                    arg(line, "stored").and_then(parse_ranges),
                    arg(line, "pruned").and_then(parse_ranges),
                    arg_u64(line, "limit"),
                ) else {
                    return "bad-op".into();
                };
                let (Ok(st), Ok(pr)) = (BlockRanges::from_vec(st.into_iter().collect()), BlockRanges::from_vec(pr.into_iter().collect())) else {
                    return "load-err".into();
                };
                let synced = pr + &st;
                show(hook::calculate_range_to_fetch(h, synced.as_ref(), l))
            }
            _ => "bad-op".into(),
        }
    }
    fn result_tag(&self, _line: &str, result: &str) -> Option<String> {
        if result.starts_with("req ") {
            return Some(if result.ends_with("insert=ok") { "req-inserted".into() } else { "req-not-inserted".into() });
        }
        Some(match result.split_once('-') {
            Some((a, b)) => match (a.parse::<u64>(), b.parse::<u64>()) {
                (Ok(a), Ok(b)) if a <= b => "batch".to_string(),
                (Ok(_), Ok(_)) => "none".to_string(),
                _ => result.to_string(),
            },
            None => result.to_string(),
        })
    }
}

fn main() {
    main_for(C24::new());
}

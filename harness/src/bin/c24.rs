//! C24 — Syncer fetches missing, insertable heights nearest the head first.
//!
//! `fetch head=H synced=<ranges> limit=N` : the private `calculate_range_to_fetch` (hook)
//! `batch head=H stored=<ranges> pruned=<ranges> limit=N` : `pruned + &stored` as in
//!     `Worker::fetch_next_batch`, then the same function.
use std::ops::RangeInclusive;

use lumina_node::block_ranges::{BlockRange, BlockRanges};
use lumina_node::verif::syncer as hook;
use verif_harness::*;

struct C24;

fn parse_ranges(s: &str) -> Option<Vec<BlockRange>> {
    if s == "-" || s.is_empty() {
        return Some(vec![]);
    }
    s.split(',')
        .map(|t| {
            let (a, b) = t.split_once('-')?;
            Some(RangeInclusive::new(a.parse().ok()?, b.parse().ok()?))
        })
        .collect()
}

fn fmt_vec(v: &[(u64, u64)]) -> String {
    if v.is_empty() { "-".into() } else { v.iter().map(|(s, e)| format!("{s}-{e}")).collect::<Vec<_>>().join(",") }
}

fn subset(mask: u32, n: u32) -> Vec<(u64, u64)> {
    let mut v = vec![];
    let mut h = 1;
    while h <= n {
        if mask & (1 << (h - 1)) != 0 {
            let s = h;
            while h < n && mask & (1 << h) != 0 {
                h += 1;
            }
            v.push((s as u64, h as u64));
        }
        h += 1;
    }
    v
}

fn random_value(rng: &mut Rng, base: u64, spread: u64) -> Vec<(u64, u64)> {
    let n = rng.usize(0, 4);
    let mut v = vec![];
    let mut cur = base;
    for _ in 0..n {
        let Some(s) = cur.checked_add(rng.range(if v.is_empty() { 0 } else { 2 }, spread)) else { break };
        let e = s.saturating_add(rng.range(0, spread * 3));
        v.push((s, e));
        if e >= u64::MAX - 1 {
            break;
        }
        cur = e;
    }
    v
}

impl Prop for C24 {
    fn id(&self) -> &'static str {
        "C24"
    }
    fn rule(&self) -> &'static str {
        "Synced set = canonical subset of heights 1..12 (all 4096 in thorough, 40 seeded ones incl. \
         empty/full/alternating in quick) x every head 0..13 x every batch size 0..13; the same through \
         `pruned + stored` with the subset split into stored/pruned parts; random values of 0..4 ranges at \
         1, mid-u64 and ending at u64::MAX with heads at/around every boundary and u64::MAX and batch sizes \
         0, 1, small, 512, u64::MAX. Non-trivial = synced non-empty and limit > 0; distinct = distinct \
         (op, result)."
    }
    fn gen_ops(&mut self, rng: &mut Rng, tier: Tier, out: &mut Emitter) {
        let thorough = tier == Tier::Thorough;
        let n = 12u32;
        let masks: Vec<u32> = if thorough {
            (0..(1u32 << n)).collect()
        } else {
            let mut m = vec![0, (1 << n) - 1, 0b010101010101, 0b101010101010, 0b111000111000, 0b000011110000, 1, 1 << (n - 1)];
            for _ in 0..32 {
                m.push(rng.below(1 << n) as u32);
            }
            m
        };
        for &m in &masks {
            let v = subset(m, n);
            let sv = fmt_vec(&v);
            for head in 0..=13u64 {
                for limit in 0..=13u64 {
                    let tag = match v.last() {
                        None => "scope12/empty",
                        Some(l) if l.1 < head => "scope12/behind",
                        Some(l) if l.1 == head => "scope12/caught-up",
                        _ => "scope12/store-ahead",
                    };
                    out.op(format!("fetch head={head} synced={sv} limit={limit}"), tag, !v.is_empty() && limit > 0);
                }
            }
            // split into stored / pruned
            if thorough || rng.chance(1, 2) {
                for _ in 0..(if thorough { 2 } else { 4 }) {
                    let pm = m & (rng.below(1 << n) as u32);
                    let (st, pr) = (subset(m & !pm, n), subset(pm, n));
                    let head = rng.range(0, 13);
                    let limit = rng.range(0, 13);
                    out.op(
                        format!("batch head={head} stored={} pruned={} limit={limit}", fmt_vec(&st), fmt_vec(&pr)),
                        "scope12/batch",
                        m != 0 && limit > 0,
                    );
                }
            }
        }
        let rounds = if thorough { 30000 } else { 1500 };
        for i in 0..rounds {
            let base = match i % 4 {
                0 => 1,
                1 => rng.next_u64() >> rng.range(1, 40),
                2 => u64::MAX - rng.range(0, 80),
                _ => rng.range(1, 30),
            };
            let spread = *rng.pick(&[1, 2, 3, 5, 9, 600]);
            let v = random_value(rng, base, spread);
            let sv = fmt_vec(&v);
            let mut heads: Vec<u64> = vec![0, 1, u64::MAX, u64::MAX - 1];
            for (s, e) in &v {
                for d in 0..=2 {
                    heads.push(s.saturating_sub(d));
                    heads.push(e.saturating_sub(d));
                    heads.push(e.saturating_add(d));
                    heads.push(e.saturating_add(600 + d));
                }
            }
            for _ in 0..6 {
                let head = *rng.pick(&heads);
                let limit = match rng.below(6) {
                    0 => 0,
                    1 => 1,
                    2 => rng.range(2, 9),
                    3 => 512,
                    4 => u64::MAX - rng.range(0, 1),
                    _ => rng.range(1, 2000),
                };
                let tag = match v.last() {
                    None => "random/empty",
                    Some(l) if l.1 < head => "random/behind",
                    Some(l) if l.1 == head => "random/caught-up",
                    _ => "random/store-ahead",
                };
                out.op(format!("fetch head={head} synced={sv} limit={limit}"), tag, !v.is_empty() && limit > 0);
            }
        }
    }
    fn run(&mut self, line: &str) -> String {
        let show = |r: BlockRange| format!("{}-{}", r.start(), r.end());
        match opname(line) {
            "reset" => "ok".into(),
            "fetch" => {
                let (Some(h), Some(v), Some(l)) = (arg_u64(line, "head"), arg(line, "synced").and_then(parse_ranges), arg_u64(line, "limit")) else {
                    return "bad-op".into();
                };
                let Ok(rs) = BlockRanges::from_vec(v.into_iter().collect()) else { return "load-err".into() };
                show(hook::calculate_range_to_fetch(h, rs.as_ref(), l))
            }
            "batch" => {
                let (Some(h), Some(st), Some(pr), Some(l)) = (
                    arg_u64(line, "head"),
                    arg(line, "stored").and_then(parse_ranges),
                    arg(line, "pruned").and_then(parse_ranges),
                    arg_u64(line, "limit"),
                ) else {
                    return "bad-op".into();
                };
                let (Ok(st), Ok(pr)) = (BlockRanges::from_vec(st.into_iter().collect()), BlockRanges::from_vec(pr.into_iter().collect())) else {
                    return "load-err".into();
                };
                let synced = pr + &st;
                show(hook::calculate_range_to_fetch(h, synced.as_ref(), l))
            }
            _ => "bad-op".into(),
        }
    }
    fn result_tag(&self, _line: &str, result: &str) -> Option<String> {
        Some(match result.split_once('-') {
            Some((a, b)) => match (a.parse::<u64>(), b.parse::<u64>()) {
                (Ok(a), Ok(b)) if a <= b => "batch".to_string(),
                (Ok(_), Ok(_)) => "none".to_string(),
                _ => result.to_string(),
            },
            None => result.to_string(),
        })
    }
}

fn main() {
    main_for(C24);
}

//! C36 — Window-edge search finds the newest header outside the window.
//!
//! Runs the real `find_height_after_window{,_fast,_slow}` (through the cfg-guarded wrappers in
//! `lumina_node::verif::pruner`) over a real `InMemoryStore` holding headers of a generated chain
//! whose header times are chosen by the op stream.
use std::ops::RangeInclusive;
use std::time::Duration;

use celestia_types::ExtendedHeader;
use celestia_types::test_utils::ExtendedHeaderGenerator;
use lumina_node::block_ranges::BlockRanges;
use lumina_node::store::{InMemoryStore, Store};
use lumina_node::verif::pruner as hook;
use tendermint::Time;
use verif_harness::*;

const BASE: i64 = 1_700_000_000;

fn time_of(t: u64) -> Time {
    Time::from_unix_timestamp(BASE + t as i64, 0).unwrap()
}

fn parse_ranges(s: &str) -> Option<Vec<RangeInclusive<u64>>> {
    let s = s.trim_matches(|c| c == '[' || c == ']');
    if s == "-" || s.is_empty() {
        return Some(vec![]);
    }
    s.split(',')
        .map(|t| {
            let (a, b) = t.split_once('-')?;
            Some(RangeInclusive::new(a.parse().ok()?, b.parse().ok()?))
        })
        .collect()
}

fn show_ranges(v: &[(u64, u64)]) -> String {
    if v.is_empty() { "-".into() } else { v.iter().map(|(a, b)| format!("{a}-{b}")).collect::<Vec<_>>().join(",") }
}

/// maximal runs of a sorted list of heights
fn runs(hs: &[u64]) -> Vec<(u64, u64)> {
    let mut out: Vec<(u64, u64)> = vec![];
    for &h in hs {
        match out.last_mut() {
            Some((_, e)) if *e + 1 == h => *e = h,
            _ => out.push((h, h)),
        }
    }
    out
}

/// Size-threshold stress (S10): one chain + one stored set with exactly `k` disjoint ranges, then searches whose
/// cutoffs sit exactly at / one below / one above the header times of every range's first and last height
/// ("edge"), deep inside ranges of >= 5 heights ("deep") and outside the chain ("out"); previous answers at the
/// top of the admissible heights, at range ends, one past a range end (in the gap) and at range starts.
/// `long_len > 0`: one of the ranges is that long; `min_span > 0`: the ranges are spread over at least that many
/// heights (large heights, sparse store).  Those two kinds are "heavy" for the driver's O(n^3) spec pass and get
/// a handful of ops only.
fn big_instance(rng: &mut Rng, out: &mut Emitter, thorough: bool, k: u64, long_len: u64, min_span: u64) {
    let heavy = long_len > 0 || min_span > 0;
    let label = if long_len > 0 {
        format!("long{long_len}")
    } else if min_span > 0 {
        format!("sparse{min_span}-{k}r")
    } else {
        format!("{k}r")
    };
    let long_at = rng.below(k);
    let mid_at = rng.below(k);
    let gap_hi = if min_span > 0 { (2 * min_span / k).max(2) } else { 4 };
    let mut rs: Vec<(u64, u64)> = vec![];
    let mut h = 1 + rng.below(3);
    for i in 0..k {
        let len = if long_len > 0 && i == long_at {
            long_len
        } else if !heavy && i == mid_at && k <= 65 {
            rng.range(20, 40)
        } else if k > 65 || rng.chance(1, 2) {
            1
        } else {
            rng.range(1, 4)
        };
        rs.push((h, h + len - 1));
        let gap = if min_span > 0 {
            rng.range(gap_hi / 2, gap_hi)
        } else if rng.chance(1, 2) {
            1
        } else {
            rng.range(1, gap_hi)
        };
        h += len + gap.max(1);
    }
    let n = rs.last().unwrap().1 + rng.below(3);
    let mut t = rng.range(0, 50);
    let mut times = vec![];
    for _ in 0..n {
        t += if rng.chance(1, 3) { 1 } else { rng.range(1, 9) };
        times.push(t);
    }
    let time = |h: u64| times[(h - 1) as usize];
    out.op(format!("chain times={}", natl(&times)), &format!("chain/big-{label}"), false);
    out.op(format!("store rs={}", show_ranges(&rs)), &format!("store/big-{label}"), false);

    // cutoffs
    let mut cands: Vec<(u64, &'static str)> = vec![];
    let mut sel: Vec<usize> = (0..rs.len()).collect();
    if heavy || k > 65 || (!thorough && k > 33) {
        // (the driver's spec pass costs ~4 ms per op at 65 ranges, ~60 ms at 257: sample the ranges there)
        rng.shuffle(&mut sel);
        sel.truncate(if heavy { 2 } else if thorough { 40 } else { 30 });
        if long_len > 0 && !sel.contains(&(long_at as usize)) {
            sel.push(long_at as usize);
        }
        let top = rs.len() - 1;
        if !sel.contains(&top) {
            sel.push(top);
        }
    }
    for &i in &sel {
        let (s, e) = rs[i];
        for d in [0u64, 1, 2] {
            cands.push(((time(s) + d).saturating_sub(1), "edge"));
            if e != s {
                cands.push(((time(e) + d).saturating_sub(1), "edge"));
            }
            if e - s + 1 >= 5 {
                let m = if rng.bool() { (s + e) / 2 } else { rng.range(s + 2, e - 2) };
                cands.push(((time(m) + d).saturating_sub(1), "deep"));
            }
        }
    }
    cands.push((0, "out"));
    cands.push((t + 5, "out"));
    for (cutoff, cls) in cands {
        let adm_max = times.iter().filter(|&&x| x <= cutoff).count() as u64;
        // admissible previous answers around the range structure below the edge
        let mut ps: Vec<u64> = vec![adm_max, adm_max.saturating_sub(1), 1];
        let below: Vec<&(u64, u64)> = rs.iter().filter(|r| r.0 <= adm_max).collect();
        if let Some(&&(s, e)) = below.last() {
            ps.extend([s, e.min(adm_max), (e + 1).min(adm_max), s.saturating_sub(1)]);
        }
        if below.len() >= 2 {
            let (s, e) = *below[below.len() - 2];
            ps.extend([s, e, e + 1]);
        }
        ps.retain(|&p| p >= 1 && p <= adm_max);
        let prev = if ps.is_empty() { None } else { Some(*rng.pick(&ps)) };
        let kinds: Vec<u64> = if thorough && !heavy {
            vec![0, 1, 2, 3]
        } else if heavy {
            vec![rng.below(4)]
        } else {
            let a = rng.below(4);
            vec![a, (a + 1 + rng.below(3)) % 4]
        };
        for kind in kinds {
            match (kind, prev) {
                (0, _) => out.op(format!("slow cutoff={cutoff}"), &format!("big/{label}/{cls}-slow"), true),
                (1, _) | (_, None) => {
                    out.op(format!("find cutoff={cutoff} prev=-"), &format!("big/{label}/{cls}-find-none"), true)
                }
                (2, Some(p)) => {
                    out.op(format!("find cutoff={cutoff} prev={p}"), &format!("big/{label}/{cls}-find-adm"), true)
                }
                (_, Some(p)) => {
                    out.op(format!("fast cutoff={cutoff} prev={p}"), &format!("big/{label}/{cls}-fast-adm"), true)
                }
            }
        }
        if rng.chance(1, 12) && adm_max < n {
            let p = rng.range(adm_max + 1, n + 2);
            out.op(format!("find cutoff={cutoff} prev={p}"), &format!("big/{label}/{cls}-find-prev-above"), false);
        }
    }
}

struct C36 {
    rt: tokio::runtime::Runtime,
    chain: Vec<ExtendedHeader>,
    store: InMemoryStore,
    cache: hook::VerifCache,
}

fn show_find(r: Result<Option<u64>, String>) -> String {
    match r {
        Ok(None) => "ok none".into(),
        Ok(Some(h)) => format!("ok some {h}"),
        Err(k) => format!("err {k}"),
    }
}

impl C36 {
    fn new() -> Self {
        let rt = tokio::runtime::Builder::new_current_thread().enable_all().build().unwrap();
        C36 { rt, chain: vec![], store: InMemoryStore::new(), cache: hook::VerifCache::new() }
    }

    fn stored_arg(&self, line: &str) -> BlockRanges {
        match arg(line, "snap") {
            Some(s) => {
                let v = parse_ranges(s).expect("snap");
                BlockRanges::from_vec(v.into_iter().collect()).expect("snap: well-formed ranges")
            }
            None => self.rt.block_on(self.store.get_stored_header_ranges()).unwrap(),
        }
    }
}

fn prev_arg(line: &str) -> Option<u64> {
    match arg(line, "prev").expect("prev") {
        "-" => None,
        s => Some(s.parse().expect("prev")),
    }
}

impl Prop for C36 {
    fn id(&self) -> &'static str {
        "C36"
    }
    fn rule(&self) -> &'static str {
        "ops: `chain` (header times per height), `store` (set of stored heights), then find/fast/slow with a cutoff \
         and a previous answer, run against the real pruner functions over a real InMemoryStore. Streams: (1) chain \
         of 10 headers with times 10,20,..,100: stored sets over heights 1..10 (ALL 1024 in thorough, a sample in \
         quick) x every cutoff 5,10,..,105 (between and exactly at header times) x previous answer none and every \
         admissible height (time <= cutoff, stored or not), plus inadmissible / 0 / beyond-head previous answers; \
         (2) random chains up to 60 headers with random increasing times, random stored sets with gaps, cutoffs at, \
         just below and just above header times; (3) stale `stored_headers` snapshots (NotFound path); \
         (4) size-threshold stress (tags big/..): stored sets with exactly 9, 17, 33 and 65 disjoint ranges (thorough: \
         also 8, 16, 32, 64, 129, 257; several instances each) incl. one range of 20..40 heights, cutoffs exactly at / \
         one below / one above the header time of every range's first and last height (a sample of 30-40 ranges when \
         there are > 33 in quick / > 65 in thorough) and deep inside ranges, \
         previous answers at the top of the admissible heights, at range ends, one past a range end (gap) and at \
         range starts; one stored range of 300 heights among 8 small ones (thorough: also 513 and 2100 long); a \
         sparse 17-range store spread over a chain of >= 2100 headers (thorough: also 33 ranges over >= 4200). \
         non-trivial = a search op on a non-empty store whose previous answer is admissible (none, or a height >= 1 \
         whose own time is <= cutoff)"
    }

    fn gen_ops(&mut self, rng: &mut Rng, tier: Tier, out: &mut Emitter) {
        let thorough = tier == Tier::Thorough;
        // (1) the exhaustive scope of the property's quantifier
        let times: Vec<u64> = (1..=10u64).map(|h| 10 * h).collect();
        out.op(format!("chain times={}", natl(&times)), "chain/10", false);
        let mut subsets: Vec<u32> = if thorough {
            (0..1024u32).collect()
        } else {
            let mut v: Vec<u32> = vec![0, 1, 512, 1023, 0b1110110111, 0b0000011111, 0b1111100000, 0b1010101010, 0b0111001110];
            for _ in 0..36 {
                v.push(rng.below(1024) as u32);
            }
            v
        };
        subsets.dedup();
        for m in subsets {
            let hs: Vec<u64> = (1..=10u64).filter(|h| m >> (h - 1) & 1 == 1).collect();
            out.op(format!("store rs={}", show_ranges(&runs(&hs))), "store/10", false);
            let nonempty = !hs.is_empty();
            for ci in 1..=21u64 {
                let cutoff = 5 * ci;
                out.op(format!("slow cutoff={cutoff}"), "slow/exh", nonempty);
                out.op(format!("find cutoff={cutoff} prev=-"), "find/exh-none", nonempty);
                if thorough || ci % 4 == 1 {
                    out.op(format!("fast cutoff={cutoff} prev=-"), "fast/exh-none", nonempty);
                }
                for p in 1..=10u64 {
                    let adm = 10 * p <= cutoff;
                    if adm {
                        if thorough || rng.chance(1, 3) {
                            out.op(format!("find cutoff={cutoff} prev={p}"), "find/exh-adm", nonempty);
                            out.op(format!("fast cutoff={cutoff} prev={p}"), "fast/exh-adm", nonempty);
                        }
                    } else if rng.chance(1, if thorough { 6 } else { 30 }) {
                        out.op(format!("find cutoff={cutoff} prev={p}"), "find/exh-inadm", false);
                    }
                }
                if rng.chance(1, 40) {
                    out.op(format!("find cutoff={cutoff} prev=0"), "find/prev0", false);
                    out.op(format!("find cutoff={cutoff} prev={}", 11 + rng.below(3)), "find/prev-beyond", false);
                }
            }
        }
        // (2) random chains
        let chains = if thorough { 150 } else { 10 };
        for _ in 0..chains {
            let n = rng.range(1, 60);
            let mut t = rng.range(0, 50);
            let mut times = vec![];
            for _ in 0..n {
                t += if rng.chance(1, 3) { 1 } else { rng.range(1, 9) };
                times.push(t);
            }
            out.op(format!("chain times={}", natl(&times)), "chain/random", false);
            let stores = if thorough { 12 } else { 5 };
            for _ in 0..stores {
                // stored set with run/gap structure
                let mut hs = vec![];
                let mut h = 1u64;
                let mut on = rng.bool();
                while h <= n {
                    let len = if rng.chance(1, 3) { 1 } else { rng.range(1, 12) };
                    for k in 0..len {
                        if on && h + k <= n {
                            hs.push(h + k);
                        }
                    }
                    h += len;
                    on = !on;
                }
                let rs = runs(&hs);
                out.op(format!("store rs={}", show_ranges(&rs)), "store/random", false);
                let nonempty = !hs.is_empty();
                let searches = if thorough { 40 } else { 24 };
                for _ in 0..searches {
                    let cutoff = match rng.below(8) {
                        0 => rng.range(0, t + 10),
                        1 => 0,
                        2 => t + 5,
                        k => {
                            // at / just below / just above a header time (stored ones preferred)
                            let hh = if nonempty && k < 6 { *rng.pick(&hs) } else { rng.range(1, n) };
                            let base = times[(hh - 1) as usize];
                            match rng.below(3) {
                                0 => base,
                                1 => base.saturating_sub(1),
                                _ => base + 1,
                            }
                        }
                    };
                    // admissible previous answers: heights whose own time is <= cutoff
                    let adm_max = times.iter().filter(|&&x| x <= cutoff).count() as u64;
                    let (prev, tag, adm) = match rng.below(10) {
                        0 | 1 => ("-".to_string(), "none", true),
                        2 => {
                            let p = rng.range(0, n + 3);
                            (p.to_string(), "any", p >= 1 && p <= adm_max)
                        }
                        _ if adm_max >= 1 => {
                            // bias towards the top of the admissible range (the interesting fast-path cases)
                            let p = if rng.bool() { adm_max - rng.below(adm_max.min(4)) } else { rng.range(1, adm_max) };
                            (p.to_string(), "adm", true)
                        }
                        _ => ("-".to_string(), "none", true),
                    };
                    match rng.below(6) {
                        0 => out.op(format!("slow cutoff={cutoff}"), "slow/random", nonempty),
                        1 => out.op(format!("fast cutoff={cutoff} prev={prev}"), &format!("fast/random-{tag}"), nonempty && adm),
                        _ => out.op(format!("find cutoff={cutoff} prev={prev}"), &format!("find/random-{tag}"), nonempty && adm),
                    }
                }
                // (3) stale snapshot: the ranges argument claims more than the store holds
                if rng.chance(1, 3) {
                    let cutoff = rng.range(0, t + 5);
                    out.op(format!("find cutoff={cutoff} prev=- snap=1-{}", n + rng.below(3)), "find/stale-snap", false);
                    out.op(format!("slow cutoff={cutoff} snap=1-{n}"), "slow/stale-snap", false);
                }
            }
        }
        // (4) size-threshold stress (S10): stored sets with MANY disjoint ranges and long ranges
        out.op("reset", "reset", false);
        let classes: Vec<(u64, u64)> = if thorough {
            // (number of ranges, instances)
            vec![(8, 3), (9, 6), (16, 3), (17, 6), (32, 3), (33, 6), (64, 2), (65, 5), (129, 2), (257, 1)]
        } else {
            vec![(9, 1), (17, 1), (33, 1), (65, 1)]
        };
        for (k, insts) in classes {
            for _ in 0..insts {
                big_instance(rng, out, thorough, k, 0, 0);
            }
        }
        // one long contiguous range (deep-inside cutoffs) among 8 small ones; the driver's spec pass is O(n^3)
        // in the number of stored heights, so the long instances get only a handful of ops
        big_instance(rng, out, thorough, 9, 300, 0);
        if thorough {
            big_instance(rng, out, thorough, 9, 513, 0);
            big_instance(rng, out, thorough, 3, 2100, 0);
        }
        // large heights: a sparse stored set (17 / 33 ranges) in a chain of 2100+ headers
        big_instance(rng, out, thorough, 17, 0, 2100);
        if thorough {
            big_instance(rng, out, thorough, 33, 0, 4200);
        }
    }

    fn run(&mut self, line: &str) -> String {
        match opname(line) {
            "reset" => {
                self.chain.clear();
                self.store = InMemoryStore::new();
                self.cache = hook::VerifCache::new();
                "ok".into()
            }
            "chain" => {
                let times = unnatl(arg(line, "times").expect("times")).expect("times");
                let mut g = ExtendedHeaderGenerator::new();
                self.chain = times
                    .iter()
                    .map(|&t| {
                        g.set_time(time_of(t), Duration::ZERO);
                        g.next_empty()
                    })
                    .collect();
                for (h, t) in self.chain.iter().zip(&times) {
                    assert_eq!(h.time(), time_of(*t));
                }
                self.store = InMemoryStore::new();
                self.cache = hook::VerifCache::new();
                "ok".into()
            }
            "store" => {
                let rs = parse_ranges(arg(line, "rs").expect("rs")).expect("rs");
                let store = InMemoryStore::new();
                for r in rs {
                    let hs: Vec<ExtendedHeader> =
                        self.chain[(*r.start() - 1) as usize..=(*r.end() - 1) as usize].to_vec();
                    self.rt.block_on(store.insert(hs)).expect("insert");
                }
                self.store = store;
                self.cache = hook::VerifCache::new();
                "ok".into()
            }
            "find" => {
                let cutoff = time_of(arg_u64(line, "cutoff").expect("cutoff"));
                let prev = prev_arg(line);
                let stored = self.stored_arg(line);
                let r = self.rt.block_on(hook::find_height_after_window(&self.store, &stored, &cutoff, prev, &mut self.cache));
                show_find(r)
            }
            "fast" => {
                let cutoff = time_of(arg_u64(line, "cutoff").expect("cutoff"));
                let prev = prev_arg(line);
                let stored = self.stored_arg(line);
                let r = self
                    .rt
                    .block_on(hook::find_height_after_window_fast(&self.store, &stored, &cutoff, prev, &mut self.cache));
                match r {
                    Ok(None) => "ok search".into(),
                    Ok(Some(x)) => show_find(Ok(x)),
                    Err(k) => format!("err {k}"),
                }
            }
            "slow" => {
                let cutoff = time_of(arg_u64(line, "cutoff").expect("cutoff"));
                let stored = self.stored_arg(line);
                let r = self.rt.block_on(hook::find_height_after_window_slow(&self.store, &stored, &cutoff, &mut self.cache));
                show_find(r)
            }
            _ => "bad-op".into(),
        }
    }
}

fn main() {
    main_for(C36::new());
}

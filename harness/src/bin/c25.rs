//! C25 — Syncer never re-requests history behind a pruned window edge.
//!
//! The REAL syncer `Worker` (hook `verif::syncer::worker`, not spawned) on a real
//! `InMemoryStore` and a `P2p` whose command channel the harness owns
//! (hook `verif::p2p::mocked_p2p`).  Every `fetch` op calls the real `fetch_next_batch`, polls
//! the request task once and reads (a) `ongoing_batch.range`, (b) the header-ex requests the
//! real `HeaderSession` put on the wire, (c) the `FetchingHeadersStarted` event.
//!
//! The honest chain has heights `1..=N`; the header at height `h` is `N + 1 - h` days old, the
//! sampling / pruning windows are `sw` / `pw` days + 12 h, so that the clock drift of a run
//! (seconds) never moves a header across a window edge.
use std::sync::Arc;
use std::time::Duration;

use celestia_proto::p2p::pb::header_request::Data;
use celestia_types::ExtendedHeader;
use celestia_types::test_utils::ExtendedHeaderGenerator;
use lumina_node::events::{EventSubscriber, NodeEvent};
use lumina_node::node::{HeaderExError, P2pError};
use lumina_node::store::{InMemoryStore, Store};
use lumina_node::verif::p2p::{MockedCmd, MockedP2p, MockedP2pHandle, mocked_p2p};
use lumina_node::verif::syncer::{VerifWorker, worker};
use tendermint::Time;
use verif_harness::*;

const N: u64 = 300;
const DAY: u64 = 24 * 60 * 60;

struct Ctx {
    sw: u64,
    pw: u64,
    /// days passed since `init`
    adv: u64,
    store: Arc<InMemoryStore>,
    worker: VerifWorker,
    handle: MockedP2pHandle,
    events: EventSubscriber,
    _p2p: MockedP2p,
}

struct C25 {
    rt: tokio::runtime::Runtime,
    pool: Vec<ExtendedHeader>,
    ctx: Option<Ctx>,
}

fn show_ranges(rs: &[std::ops::RangeInclusive<u64>]) -> String {
    if rs.is_empty() {
        "-".into()
    } else {
        rs.iter().map(|r| format!("{}-{}", r.start(), r.end())).collect::<Vec<_>>().join(",")
    }
}

/// window of `days` days (+ 12 h) after `adv` days have passed: the worker only ever compares
/// header times with `now - window`, so shrinking the window is letting time pass
fn window(days: u64, adv: u64) -> Duration {
    Duration::from_secs(days.saturating_sub(adv) * DAY + DAY / 2)
}

fn show_opt(o: Option<u64>) -> String {
    o.map(|h| h.to_string()).unwrap_or_else(|| "none".into())
}

impl C25 {
    fn new() -> Self {
        let rt = tokio::runtime::Builder::new_current_thread().enable_time().build().unwrap();
        let mut generator = ExtendedHeaderGenerator::new();
        let first = (Time::now() - Duration::from_secs((N + 1) * DAY)).unwrap();
        generator.set_time(first, Duration::from_secs(DAY));
        let pool = generator.next_many_empty(N);
        C25 { rt, pool, ctx: None }
    }

    fn hdr(&self, h: u64) -> Option<ExtendedHeader> {
        if h >= 1 && h <= N { Some(self.pool[(h - 1) as usize].clone()) } else { None }
    }

    fn span(&self, a: u64, b: u64) -> Option<Vec<ExtendedHeader>> {
        if a >= 1 && a <= b && b <= N { Some(self.pool[(a - 1) as usize..b as usize].to_vec()) } else { None }
    }

    /// `h=<num> | tail | htail | head`, resolved against the REAL store
    fn height_arg(&self, line: &str) -> Option<u64> {
        let v = arg(line, "h")?;
        let ctx = self.ctx.as_ref()?;
        let ranges = self.rt.block_on(ctx.store.get_stored_header_ranges()).ok()?;
        let rs = ranges.as_ref();
        match v {
            "tail" => rs.first().map(|r| *r.start()),
            "htail" => rs.last().map(|r| *r.start()),
            "head" => rs.last().map(|r| *r.end()),
            _ => v.parse().ok(),
        }
    }

    fn fetch(&mut self, keep: bool) -> String {
        let ctx = self.ctx.as_mut().unwrap();
        let pool = &self.pool;
        self.rt.block_on(async {
            let st = ctx.store.get_stored_header_ranges().await.unwrap();
            let pr = ctx.store.get_pruned_ranges().await.unwrap();
            // the window edge from the REAL header times and the REAL clock: highest height whose
            // header is not after `now - sampling_window` (what `in_sampling_window` computes)
            let cutoff = (Time::now() - window(ctx.sw, ctx.adv)).unwrap_or_else(|_| Time::unix_epoch());
            let edge = pool.iter().filter(|h| h.time() <= cutoff).map(|h| h.height()).max().unwrap_or(0);
            let view = format!("st={} pr={} edge={edge}", show_ranges(st.as_ref()), show_ranges(pr.as_ref()));
            let before = ctx.worker.ongoing();
            if let Err(e) = ctx.worker.fetch_next_batch().await {
                return format!("fatal {e}");
            }
            // a batch that was already ongoing before the call is not a new decision
            let ongoing = if before.is_some() { None } else { ctx.worker.ongoing() };
            let keep = keep || before.is_some();
            if ongoing.is_some() {
                ctx.worker.poll_ongoing_once().await;
            }
            let mut wire: Vec<(u64, u64)> = vec![];
            let mut other = 0;
            while let Some(cmd) = ctx.handle.try_next() {
                match cmd {
                    MockedCmd::HeaderEx(req, _responder) => match req.data {
                        Some(Data::Origin(h)) if req.amount > 0 => wire.push((h, h + req.amount - 1)),
                        _ => other += 1,
                    },
                    _ => other += 1,
                }
            }
            wire.sort();
            let mut merged: Vec<(u64, u64)> = vec![];
            for (a, b) in wire {
                match merged.last_mut() {
                    Some(l) if l.1 + 1 == a => l.1 = b,
                    _ => merged.push((a, b)),
                }
            }
            let mut started: Vec<(u64, u64)> = vec![];
            while let Ok(info) = ctx.events.try_recv() {
                if let NodeEvent::FetchingHeadersStarted { from_height, to_height } = info.event {
                    started.push((from_height, to_height));
                }
            }
            if !keep {
                ctx.worker.cancel_ongoing();
            }
            match ongoing {
                None if merged.is_empty() && started.is_empty() && other == 0 => format!("none {view}"),
                Some(r) if merged == vec![r] && started == vec![r] && other == 0 => {
                    format!("req {}-{} {view}", r.0, r.1)
                }
                o => format!("req? ongoing={o:?} wire={merged:?} started={started:?} other={other}"),
            }
        })
    }
}

impl Prop for C25 {
    fn id(&self) -> &'static str {
        "C25"
    }
    fn rule(&self) -> &'static str {
        "Histories over one honest chain of 300 headers (header h is 301-h days old): random sampling/pruning \
         windows, batch sizes 1..300 and network heads; natural syncing (fetchkeep + deliver), foreign insertions, \
         pruning of the header bounding the batch (h=htail), of the store tail, of random stored heights and of \
         whole prefixes, sampling of ranges, slow-sync heights, peer loss, head bumps; a `fetch` after every few \
         mutations, days passing between any two operations (advance: header ages grow between request and response), \
         all through the real Worker::fetch_next_batch (observed at ongoing_batch.range, on the wire \
         and as FetchingHeadersStarted).  Non-trivial = a fetch/fetchkeep/deliver op of a history in which at \
         least one header was pruned or a header older than the sampling window is stored; distinct = distinct \
         (op, result) lines."
    }

    fn gen_ops(&mut self, rng: &mut Rng, tier: Tier, out: &mut Emitter) {
        // the scenario of DESIGN.md section 8 #7, for a few window positions
        for (sw, bs, k) in [(100u64, 50u64, 180u64), (100, 50, 200), (100, 50, 201), (50, 512, 240), (10, 7, 250)] {
            out.op(format!("init n={N} sw={sw} pw={} bs={bs} h0={N}", sw + 1), "directed/init", false);
            out.op(format!("ins a={k} b={}", N - 1), "directed/ins", false);
            out.op("fetch", "directed/fetch-stored-bound", true);
            for _ in 0..3 {
                out.op("prune h=htail", "directed/prune-bound", true);
                out.op("state", "directed/state", false);
                out.op("fetch", "directed/fetch-pruned-bound", true);
            }
            out.op("fetchkeep", "directed/fetchkeep", true);
            out.op("deliver ok=1", "directed/deliver", true);
            out.op("state", "directed/state", false);
            out.op("reset", "reset", false);
        }
        // time passes between the request and its response, and between prunings and decisions
        for (sw, bs, adv) in [(100u64, 30u64, 30u64), (100, 50, 1), (60, 16, 200), (150, 64, 10)] {
            out.op(format!("init n={N} sw={sw} pw={} bs={bs} h0={N}", sw + 1), "ageing/init", false);
            out.op("fetchkeep", "ageing/fetchkeep", true);
            out.op("deliver ok=1", "ageing/deliver", true);
            out.op("fetchkeep", "ageing/fetchkeep", true);
            out.op(format!("advance d={adv}"), "ageing/advance", true);
            out.op("deliver ok=1", "ageing/deliver-after-ageing", true);
            out.op("fetch", "ageing/fetch-after-ageing", true);
            out.op("prune h=htail", "ageing/prune-bound", true);
            out.op("fetch", "ageing/fetch-pruned-bound", true);
            out.op(format!("advance d={adv}"), "ageing/advance", true);
            out.op("fetch", "ageing/fetch", true);
            out.op("state", "ageing/state", false);
            out.op("reset", "reset", false);
        }
        let scenarios = if tier == Tier::Thorough { 4000 } else { 220 };
        for _ in 0..scenarios {
            let sw = *rng.pick(&[0, 1, 5, 20, 60, 100, 150, 250, 299, 300, 400]) + rng.below(3);
            let pw = match rng.below(4) {
                0 => 0,
                1 => sw + 1,
                2 => sw.saturating_sub(rng.below(30)),
                _ => sw + rng.below(40),
            };
            let bs = *rng.pick(&[1, 2, 3, 5, 8, 16, 20, 32, 50, 64, 100, 128, 299, 300, 512]);
            let h0 = if rng.chance(2, 3) { N - rng.below(4) } else { rng.range(1, N) };
            out.op(format!("init n={N} sw={sw} pw={pw} bs={bs} h0={h0}"), "init", false);
            let mut interesting = false;
            let len = rng.usize(8, 40);
            for _ in 0..len {
                match rng.below(100) {
                    0..=24 => {
                        out.op("fetchkeep", "fetchkeep", interesting);
                        if rng.chance(9, 10) {
                            out.op(format!("deliver ok={}", if rng.chance(9, 10) { 1 } else { 0 }), "deliver", interesting);
                        } else {
                            out.op("fetch", "fetch/while-ongoing", interesting);
                            out.op("cancel", "cancel", false);
                        }
                    }
                    25..=39 => out.op("fetch", "fetch", interesting),
                    40..=54 => {
                        let t = *rng.pick(&["htail", "htail", "htail", "tail", "head"]);
                        let k = rng.usize(1, 4);
                        for _ in 0..k {
                            out.op(format!("prune h={t}"), &format!("prune/{t}"), true);
                        }
                        interesting = true;
                    }
                    55..=62 => {
                        out.op(format!("prune h={}", rng.range(1, N)), "prune/random", true);
                        interesting = true;
                    }
                    63..=70 => {
                        let a = rng.range(1, N);
                        let b = (a + rng.below(40)).min(N);
                        out.op(format!("ins a={a} b={b}"), "ins", false);
                        interesting = true;
                    }
                    71..=78 => {
                        let a = rng.range(1, N);
                        let b = (a + rng.below(120)).min(N);
                        out.op(format!("sample a={a} b={b}"), "sample", false);
                    }
                    79..=84 => {
                        let v = if rng.chance(1, 4) { "none".to_string() } else { rng.range(1, N).to_string() };
                        out.op(format!("slow h={v}"), "slow", false);
                    }
                    85..=88 => out.op(format!("peers n={}", rng.below(3)), "peers", false),
                    89..=92 => out.op(format!("head h={}", rng.range(1, N)), "head", false),
                    93..=94 => out.op(
                        format!("bs n={}", *rng.pick(&[1, 4, 10, 33, 64, 200, 512])),
                        "bs",
                        false,
                    ),
                    95..=97 => {
                        out.op(format!("advance d={}", *rng.pick(&[1, 1, 2, 5, 10, 30, 100])), "advance", true);
                        interesting = true;
                    }
                    _ => out.op("state", "state", false),
                }
            }
            out.op("peers n=1", "peers", false);
            out.op("fetch", "fetch/final", interesting);
            out.op("state", "state", false);
            out.op("reset", "reset", false);
        }
    }

    fn result_tag(&self, line: &str, result: &str) -> Option<String> {
        match opname(line) {
            "state" => None,
            _ => Some(result.split(' ').next().unwrap_or("").to_string()),
        }
    }

    fn run(&mut self, line: &str) -> String {
        let op = opname(line);
        if op == "reset" {
            self.ctx = None;
            return "ok".into();
        }
        if op == "init" {
            let (Some(n), Some(sw), Some(pw), Some(bs), Some(h0)) =
                (arg_u64(line, "n"), arg_u64(line, "sw"), arg_u64(line, "pw"), arg_u64(line, "bs"), arg_u64(line, "h0"))
            else {
                return "bad-op".into();
            };
            let Some(head) = self.hdr(h0) else { return "bad-op".into() };
            if n != N {
                return "bad-op".into();
            }
            let ctx = self.rt.block_on(async {
                let (p2p, handle) = mocked_p2p();
                let store = Arc::new(InMemoryStore::new());
                store.insert(head.clone()).await.expect("insert head");
                let (mut w, events) = worker(
                    &p2p,
                    store.clone(),
                    bs,
                    window(sw, 0),
                    window(pw, 0),
                );
                w.set_subjective_head_height(h0);
                w.init_broadcast(head);
                handle.set_peers(1, 1);
                Ctx { sw, pw, adv: 0, store, worker: w, handle, events, _p2p: p2p }
            });
            self.ctx = Some(ctx);
            return "ok".into();
        }
        if self.ctx.is_none() {
            return "bad-op".into();
        }
        match op {
            "ins" => {
                let (Some(a), Some(b)) = (arg_u64(line, "a"), arg_u64(line, "b")) else { return "bad-op".into() };
                let Some(span) = self.span(a, b) else { return "bad-op".into() };
                let ctx = self.ctx.as_ref().unwrap();
                match self.rt.block_on(ctx.store.insert(span)) {
                    Ok(()) => "ok".into(),
                    Err(_) => "err".into(),
                }
            }
            "prune" => {
                let Some(h) = self.height_arg(line) else { return "err".into() };
                let ctx = self.ctx.as_ref().unwrap();
                match self.rt.block_on(ctx.store.remove_height(h)) {
                    Ok(()) => "ok".into(),
                    Err(_) => "err".into(),
                }
            }
            "sample" => {
                let (Some(a), Some(b)) = (arg_u64(line, "a"), arg_u64(line, "b")) else { return "bad-op".into() };
                let ctx = self.ctx.as_ref().unwrap();
                let mut k = 0;
                for h in a..=b {
                    if self.rt.block_on(ctx.store.mark_as_sampled(h)).is_ok() {
                        k += 1;
                    }
                }
                format!("ok n={k}")
            }
            "head" => {
                let Some(h) = arg_u64(line, "h") else { return "bad-op".into() };
                let ctx = self.ctx.as_mut().unwrap();
                ctx.worker.set_subjective_head_height(h);
                format!("ok head={}", show_opt(ctx.worker.subjective_head_height()))
            }
            "slow" => {
                let Some(v) = arg(line, "h") else { return "bad-op".into() };
                let ctx = self.ctx.as_mut().unwrap();
                ctx.worker.set_highest_slow_sync_height(v.parse().ok());
                "ok".into()
            }
            "peers" => {
                let Some(n) = arg_u64(line, "n") else { return "bad-op".into() };
                self.ctx.as_ref().unwrap().handle.set_peers(n, n);
                "ok".into()
            }
            "bs" => {
                let Some(n) = arg_u64(line, "n") else { return "bad-op".into() };
                self.ctx.as_mut().unwrap().worker.set_batch_size(n);
                "ok".into()
            }
            "advance" => {
                let Some(d) = arg_u64(line, "d") else { return "bad-op".into() };
                let ctx = self.ctx.as_mut().unwrap();
                ctx.adv += d;
                ctx.worker.set_windows(window(ctx.sw, ctx.adv), window(ctx.pw, ctx.adv));
                "ok".into()
            }
            "fetch" => self.fetch(false),
            "fetchkeep" => self.fetch(true),
            "cancel" => {
                self.ctx.as_mut().unwrap().worker.cancel_ongoing();
                "ok".into()
            }
            "deliver" => {
                let Some(k) = arg_u64(line, "ok") else { return "bad-op".into() };
                let Some((a, b)) = self.ctx.as_ref().unwrap().worker.ongoing() else { return "err".into() };
                let res = if k != 0 {
                    Ok(self.span(a, b).expect("requested range inside the chain"))
                } else {
                    Err(P2pError::HeaderEx(HeaderExError::InvalidResponse))
                };
                let ctx = self.ctx.as_mut().unwrap();
                match self.rt.block_on(ctx.worker.on_fetch_next_batch_result(res)) {
                    Ok(()) => format!("ok slow={}", show_opt(ctx.worker.highest_slow_sync_height())),
                    Err(e) => format!("fatal {e}"),
                }
            }
            "state" => {
                let ctx = self.ctx.as_ref().unwrap();
                self.rt.block_on(async {
                    let st = ctx.store.get_stored_header_ranges().await.unwrap();
                    let pr = ctx.store.get_pruned_ranges().await.unwrap();
                    let sa = ctx.store.get_sampled_ranges().await.unwrap();
                    format!(
                        "st={} pr={} sa={} head={} slow={}",
                        show_ranges(st.as_ref()),
                        show_ranges(pr.as_ref()),
                        show_ranges(sa.as_ref()),
                        show_opt(ctx.worker.subjective_head_height()),
                        show_opt(ctx.worker.highest_slow_sync_height())
                    )
                })
            }
            _ => "bad-op".into(),
        }
    }
}

fn main() {
    main_for(C25::new());
}

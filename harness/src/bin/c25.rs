//! C25 — Syncer never re-requests history behind a pruned window edge.
//!
//! The REAL syncer `Worker` (hook `verif::syncer::worker`, not spawned) on a real
//! `InMemoryStore` and a `P2p` whose command channel the harness owns
//! (hook `verif::p2p::mocked_p2p`).  Every `fetch` op calls the real `fetch_next_batch`, polls
//! the request task once and reads (a) `ongoing_batch.range`, (b) the header-ex requests the
//! real `HeaderSession` put on the wire, (c) the `FetchingHeadersStarted` event.
//!
//! The honest chain has heights `1..=N`; the header at height `h` is `N + 1 - h` days old, the
//! sampling / pruning windows are `sw` / `pw` days + 12 h, so that the clock drift of a run
//! (seconds) never moves a header across a window edge.
use std::sync::Arc;
use std::time::Duration;

use celestia_proto::p2p::pb::header_request::Data;
use celestia_types::ExtendedHeader;
use celestia_types::test_utils::ExtendedHeaderGenerator;
use lumina_node::events::{EventSubscriber, NodeEvent};
use lumina_node::node::{HeaderExError, P2pError};
use lumina_node::store::{InMemoryStore, Store};
use lumina_node::verif::p2p::{MockedCmd, MockedP2p, MockedP2pHandle, mocked_p2p};
use lumina_node::verif::syncer::{VerifWorker, worker};
use tendermint::Time;
use verif_harness::*;

const N: u64 = 300;
/// the second, long chain of the size-threshold phase (`init n=2100`): header h is 2101-h days old
const BIG_N: u64 = 2100;
const DAY: u64 = 24 * 60 * 60;

struct Ctx {
    sw: u64,
    pw: u64,
    /// days passed since `init`
    adv: u64,
    store: Arc<InMemoryStore>,
    worker: VerifWorker,
    handle: MockedP2pHandle,
    events: EventSubscriber,
    _p2p: MockedP2p,
}

struct C25 {
    rt: tokio::runtime::Runtime,
    pool: Vec<ExtendedHeader>,
    /// length of the chain in `pool` (`N`, or `BIG_N` after an `init n=2100`)
    pool_n: u64,
    ctx: Option<Ctx>,
}

fn make_pool(n: u64) -> Vec<ExtendedHeader> {
    let mut generator = ExtendedHeaderGenerator::new();
    let first = (Time::now() - Duration::from_secs((n + 1) * DAY)).unwrap();
    generator.set_time(first, Duration::from_secs(DAY));
    generator.next_many_empty(n)
}

fn show_ranges(rs: &[std::ops::RangeInclusive<u64>]) -> String {
    if rs.is_empty() {
        "-".into()
    } else {
        rs.iter().map(|r| format!("{}-{}", r.start(), r.end())).collect::<Vec<_>>().join(",")
    }
}

/// window of `days` days (+ 12 h) after `adv` days have passed: the worker only ever compares
/// header times with `now - window`, so shrinking the window is letting time pass
fn window(days: u64, adv: u64) -> Duration {
    Duration::from_secs(days.saturating_sub(adv) * DAY + DAY / 2)
}

fn show_opt(o: Option<u64>) -> String {
    o.map(|h| h.to_string()).unwrap_or_else(|| "none".into())
}

impl C25 {
    fn new() -> Self {
        let rt = tokio::runtime::Builder::new_current_thread().enable_time().build().unwrap();
        C25 { rt, pool: make_pool(N), pool_n: N, ctx: None }
    }

    fn hdr(&self, h: u64) -> Option<ExtendedHeader> {
        if h >= 1 && h <= self.pool_n { Some(self.pool[(h - 1) as usize].clone()) } else { None }
    }

    fn span(&self, a: u64, b: u64) -> Option<Vec<ExtendedHeader>> {
        if a >= 1 && a <= b && b <= self.pool_n { Some(self.pool[(a - 1) as usize..b as usize].to_vec()) } else { None }
    }

    /// `h=<num> | tail | htail | head`, resolved against the REAL store
    fn height_arg(&self, line: &str) -> Option<u64> {
        let v = arg(line, "h")?;
        let ctx = self.ctx.as_ref()?;
        let ranges = self.rt.block_on(ctx.store.get_stored_header_ranges()).ok()?;
        let rs = ranges.as_ref();
        match v {
            "tail" => rs.first().map(|r| *r.start()),
            "htail" => rs.last().map(|r| *r.start()),
            "head" => rs.last().map(|r| *r.end()),
            _ => v.parse().ok(),
        }
    }

    fn fetch(&mut self, keep: bool) -> String {
        let ctx = self.ctx.as_mut().unwrap();
        let pool = &self.pool;
        self.rt.block_on(async {
            let st = ctx.store.get_stored_header_ranges().await.unwrap();
            let pr = ctx.store.get_pruned_ranges().await.unwrap();
            // the window edge from the REAL header times and the REAL clock: highest height whose
            // header is not after `now - sampling_window` (what `in_sampling_window` computes)
            let cutoff = (Time::now() - window(ctx.sw, ctx.adv)).unwrap_or_else(|_| Time::unix_epoch());
            let edge = pool.iter().filter(|h| h.time() <= cutoff).map(|h| h.height()).max().unwrap_or(0);
            let view = format!("st={} pr={} edge={edge}", show_ranges(st.as_ref()), show_ranges(pr.as_ref()));
            let before = ctx.worker.ongoing();
            if let Err(e) = ctx.worker.fetch_next_batch().await {
                return format!("fatal {e}");
            }
            // a batch that was already ongoing before the call is not a new decision
            let ongoing = if before.is_some() { None } else { ctx.worker.ongoing() };
            let keep = keep || before.is_some();
            if ongoing.is_some() {
                ctx.worker.poll_ongoing_once().await;
            }
            let mut wire: Vec<(u64, u64)> = vec![];
            let mut other = 0;
            while let Some(cmd) = ctx.handle.try_next() {
                match cmd {
                    MockedCmd::HeaderEx(req, _responder) => match req.data {
                        Some(Data::Origin(h)) if req.amount > 0 => wire.push((h, h + req.amount - 1)),
                        _ => other += 1,
                    },
                    _ => other += 1,
                }
            }
            wire.sort();
            let mut merged: Vec<(u64, u64)> = vec![];
            for (a, b) in wire {
                match merged.last_mut() {
                    Some(l) if l.1 + 1 == a => l.1 = b,
                    _ => merged.push((a, b)),
                }
            }
            let mut started: Vec<(u64, u64)> = vec![];
            while let Ok(info) = ctx.events.try_recv() {
                if let NodeEvent::FetchingHeadersStarted { from_height, to_height } = info.event {
                    started.push((from_height, to_height));
                }
            }
            if !keep {
                ctx.worker.cancel_ongoing();
            }
            match ongoing {
                None if merged.is_empty() && started.is_empty() && other == 0 => format!("none {view}"),
                Some(r) if merged == vec![r] && started == vec![r] && other == 0 => {
                    format!("req {}-{} {view}", r.0, r.1)
                }
                // A batch of more than 512 headers: the real HeaderSession keeps at most MAX_CONCURRENT_REQS = 8
                // requests of MAX_AMOUNT_PER_REQ = 64 headers in flight, so after the single poll exactly 512
                // heights of the batch are on the wire (the rest follows when an answer arrives).
                Some(r)
                    if r.1 - r.0 + 1 > 512
                        && merged.len() == 1
                        && merged[0].0 >= r.0
                        && merged[0].1 <= r.1
                        && merged[0].1 - merged[0].0 + 1 == 512
                        && started == vec![r]
                        && other == 0 =>
                {
                    format!("req {}-{} {view}", r.0, r.1)
                }
                o => format!("req? ongoing={o:?} wire={merged:?} started={started:?} other={other}"),
            }
        })
    }
}

/// `k` ascending disjoint ranges inside `2..=n-3` (S10)
fn many_ranges(rng: &mut Rng, n: u64, k: u64) -> Vec<(u64, u64)> {
    let q = ((n - 6) / k).max(2);
    let mut rs = vec![];
    let mut h = 2 + rng.below(2);
    for _ in 0..k {
        let len = rng.range(1, (q / 2).max(1));
        let gap = rng.range(1, (q - q / 2).max(1));
        rs.push((h, h + len - 1));
        h += len + gap;
    }
    assert!(rs.last().unwrap().1 <= n - 2);
    rs
}

/// `init` with the lowest range, `ins` of the others (each one a new head range), subjective head
fn emit_build(out: &mut Emitter, n: u64, sw: u64, pw: u64, bs: u64, rs: &[(u64, u64)], head: u64, label: &str) {
    let (a0, b0) = rs[0];
    out.op(format!("init n={n} sw={sw} pw={pw} bs={bs} h0={a0}"), &format!("{label}/init"), false);
    if b0 > a0 {
        out.op(format!("ins a={} b={b0}", a0 + 1), &format!("{label}/ins"), false);
    }
    for &(a, b) in &rs[1..] {
        out.op(format!("ins a={a} b={b}"), &format!("{label}/ins"), false);
    }
    out.op(format!("head h={head}"), &format!("{label}/head"), false);
}

/// Size-threshold stress (S10): a store of `k` ranges on the chain of `n` headers; the sampling-window edge placed
/// at / around a range boundary or deep inside a range; fetch decisions interleaved with prunings of bounding
/// headers and range ends, samplings, slow-sync heights, days passing, natural syncing (which merges ranges).
fn many_scenario(rng: &mut Rng, out: &mut Emitter, n: u64, k: u64, rounds: usize) {
    let label = format!("big/n{n}-{k}r");
    let rs = many_ranges(rng, n, k);
    let (top_s, top_e) = rs[rs.len() - 1];
    // the window edge (highest height outside the sampling window): near the top two ranges (where the decision
    // looks), at a random range boundary +-1, deep in the store, or nowhere (everything inside the window)
    let pen = rs[rs.len() - 2];
    let r = *rng.pick(&rs);
    let edge_choices = [0, top_s - 1, top_s, top_e, top_e + 1, pen.1, pen.1 + 1, pen.0, r.0, r.1, r.1 + 1, (r.0 + r.1) / 2, n];
    let e = *rng.pick(&edge_choices);
    let sw = if e == 0 { n + 40 } else { n - e.min(n) };
    let pw = match rng.below(3) {
        0 => sw + 1,
        1 => 0,
        _ => sw + rng.below(30),
    };
    let bs = *rng.pick(&[1u64, 2, 7, 8, 9, 16, 17, 63, 64, 65, 127, 128, 129, 511, 512, 513]);
    let head = *rng.pick(&[top_e, top_e, top_e + 1, top_e + 2, n]);
    emit_build(out, n, sw, pw, bs, &rs, head, &label);
    let interesting = e >= rs[0].0;
    let mut pruned = false;
    out.op("state", &format!("{label}/state"), false);
    out.op("fetch", &format!("{label}/fetch"), interesting);
    for _ in 0..rounds {
        let nt = interesting || pruned;
        match rng.below(12) {
            0..=2 => {
                for _ in 0..rng.range(1, 3) {
                    out.op("prune h=htail", &format!("{label}/prune-bound"), true);
                }
                pruned = true;
            }
            3 => {
                let r = *rng.pick(&rs);
                out.op(format!("prune h={}", if rng.bool() { r.0 } else { r.1 }), &format!("{label}/prune-range-edge"), true);
                pruned = true;
            }
            4 => {
                out.op("prune h=tail", &format!("{label}/prune-tail"), true);
                pruned = true;
            }
            5 => {
                let i = rng.below(rs.len() as u64) as usize;
                let j = (i + rng.range(0, 9) as usize).min(rs.len() - 1);
                out.op(format!("sample a={} b={}", rs[i].0, rs[j].1), &format!("{label}/sample"), false);
            }
            6 => {
                let v = *rng.pick(&[top_e, n, pen.1, top_s - 1]);
                out.op(format!("slow h={v}"), &format!("{label}/slow"), false);
            }
            7 => out.op(format!("advance d={}", rng.range(1, 3)), &format!("{label}/advance"), true),
            8 => out.op(
                format!("bs n={}", *rng.pick(&[1u64, 8, 9, 63, 64, 65, 511, 512, 513])),
                &format!("{label}/bs"),
                false,
            ),
            _ => {
                out.op("fetchkeep", &format!("{label}/fetchkeep"), nt);
                out.op("deliver ok=1", &format!("{label}/deliver"), nt);
            }
        }
        out.op("fetch", &format!("{label}/fetch"), interesting || pruned);
    }
    out.op("state", &format!("{label}/state"), false);
    out.op("reset", "reset", false);
}

/// Size-threshold stress (S10): the slow-sync gate `available_for_sampling > max(batch_size / 2, 50)`: a store of
/// `k` ranges holding exactly threshold + 2 unsampled heights inside the sampling window, then one height sampled
/// at a time: threshold+2, +1 (no request), threshold, threshold-1 (request).
fn slow_scenario(rng: &mut Rng, out: &mut Emitter, n: u64, bs: u64, k: u64) {
    let thr = (bs / 2).max(50);
    let total = thr + 2;
    let k = k.min(total - 1);
    let label = format!("thr/slow-bs{bs}-{k}r");
    // k ranges with `total` heights altogether, single-height gaps
    let mut rs = vec![];
    let mut h = 2 + rng.below(3);
    let mut left = total;
    for i in 0..k {
        let rest = k - i - 1;
        let len = if rest == 0 { left } else { rng.range(1, (2 * (left - rest) / (rest + 1)).max(1).min(left - rest)) };
        rs.push((h, h + len - 1));
        left -= len;
        h += len + rng.range(1, 2);
    }
    assert!(rs.last().unwrap().1 <= n - 2 && rs.iter().map(|r| r.1 - r.0 + 1).sum::<u64>() == total);
    let top_e = rs[rs.len() - 1].1;
    emit_build(out, n, n + 40, n + 41, bs, &rs, top_e, &label);
    out.op(format!("slow h={n}"), &format!("{label}/slow"), false);
    out.op("fetch", &format!("{label}/avail=thr+2"), true);
    // sample one height of a different range each time
    let mut picks: Vec<u64> = rs.iter().map(|r| r.0).collect();
    rng.shuffle(&mut picks);
    for (i, name) in ["avail=thr+1", "avail=thr", "avail=thr-1"].iter().enumerate() {
        let x = picks[i % picks.len()] + (i / picks.len()) as u64;
        out.op(format!("sample a={x} b={x}"), &format!("{label}/sample"), false);
        out.op("fetch", &format!("{label}/{name}"), true);
    }
    // the threshold follows the batch size: batch_size / 2, at least 50
    out.op(format!("bs n={}", bs + 2), &format!("{label}/bs+2"), false);
    out.op("fetch", &format!("{label}/avail=thr-1,bs+2"), true);
    out.op(format!("bs n={}", bs.saturating_sub(4).max(1)), &format!("{label}/bs-4"), false);
    out.op("fetch", &format!("{label}/avail=thr-1,bs-4"), true);
    out.op("state", &format!("{label}/state"), false);
    out.op("reset", "reset", false);
}

impl Prop for C25 {
    fn id(&self) -> &'static str {
        "C25"
    }
    fn rule(&self) -> &'static str {
        "Histories over one honest chain of 300 headers (header h is 301-h days old): random sampling/pruning \
         windows, batch sizes 1..300 and network heads; natural syncing (fetchkeep + deliver), foreign insertions, \
         pruning of the header bounding the batch (h=htail), of the store tail, of random stored heights and of \
         whole prefixes, sampling of ranges, slow-sync heights, peer loss, head bumps; a `fetch` after every few \
         mutations, days passing between any two operations (advance: header ages grow between request and response), \
         all through the real Worker::fetch_next_batch (observed at ongoing_batch.range, on the wire \
         and as FetchingHeadersStarted); size-threshold stress (tags big/.., thr/..): stores built \
         with 9 / 17 / 33 / 65 disjoint ranges (thorough: 8..90, 12 instances each) on the 300-chain and with 17 / 65 (thorough: \
         129, 257) ranges on a second chain of 2100 headers (heights up to 2098), the sampling-window edge at / one around the \
         boundaries of the top two ranges and of random ranges or deep inside one, batch sizes 7/8/9, 16/17, 63/64/65, 127/128/129, \
         511/512/513, fetch after every mutation (prune bound / range edge / tail, sample, slow, advance, bs, fetchkeep+deliver); \
         the slow-sync gate `available > max(bs/2, 50)` with exactly threshold+2 .. threshold-1 unsampled stored heights spread \
         over 2..65 ranges for bs = 1, 100..103 (threshold 50/51), 128..130 (64/65), 1024..1026 (512/513, long chain); batches of \
         511 / 512 / 513 / 1025 headers on the long chain (8 x 64 on the wire at a time).  Non-trivial = a fetch/fetchkeep/deliver op of a history in which at \
         least one header was pruned or a header older than the sampling window is stored; distinct = distinct \
         (op, result) lines."
    }

    fn gen_ops(&mut self, rng: &mut Rng, tier: Tier, out: &mut Emitter) {
        // the scenario of DESIGN.md section 8 #7, for a few window positions
        for (sw, bs, k) in [(100u64, 50u64, 180u64), (100, 50, 200), (100, 50, 201), (50, 512, 240), (10, 7, 250)] {
            out.op(format!("init n={N} sw={sw} pw={} bs={bs} h0={N}", sw + 1), "directed/init", false);
            out.op(format!("ins a={k} b={}", N - 1), "directed/ins", false);
            out.op("fetch", "directed/fetch-stored-bound", true);
            for _ in 0..3 {
                out.op("prune h=htail", "directed/prune-bound", true);
                out.op("state", "directed/state", false);
                out.op("fetch", "directed/fetch-pruned-bound", true);
            }
            out.op("fetchkeep", "directed/fetchkeep", true);
            out.op("deliver ok=1", "directed/deliver", true);
            out.op("state", "directed/state", false);
            out.op("reset", "reset", false);
        }
        // time passes between the request and its response, and between prunings and decisions
        for (sw, bs, adv) in [(100u64, 30u64, 30u64), (100, 50, 1), (60, 16, 200), (150, 64, 10)] {
            out.op(format!("init n={N} sw={sw} pw={} bs={bs} h0={N}", sw + 1), "ageing/init", false);
            out.op("fetchkeep", "ageing/fetchkeep", true);
            out.op("deliver ok=1", "ageing/deliver", true);
            out.op("fetchkeep", "ageing/fetchkeep", true);
            out.op(format!("advance d={adv}"), "ageing/advance", true);
            out.op("deliver ok=1", "ageing/deliver-after-ageing", true);
            out.op("fetch", "ageing/fetch-after-ageing", true);
            out.op("prune h=htail", "ageing/prune-bound", true);
            out.op("fetch", "ageing/fetch-pruned-bound", true);
            out.op(format!("advance d={adv}"), "ageing/advance", true);
            out.op("fetch", "ageing/fetch", true);
            out.op("state", "ageing/state", false);
            out.op("reset", "reset", false);
        }
        let scenarios = if tier == Tier::Thorough { 4000 } else { 220 };
        for _ in 0..scenarios {
            let sw = *rng.pick(&[0, 1, 5, 20, 60, 100, 150, 250, 299, 300, 400]) + rng.below(3);
            let pw = match rng.below(4) {
                0 => 0,
                1 => sw + 1,
                2 => sw.saturating_sub(rng.below(30)),
                _ => sw + rng.below(40),
            };
            let bs = *rng.pick(&[1, 2, 3, 5, 8, 16, 20, 32, 50, 64, 100, 128, 299, 300, 512]);
            let h0 = if rng.chance(2, 3) { N - rng.below(4) } else { rng.range(1, N) };
            out.op(format!("init n={N} sw={sw} pw={pw} bs={bs} h0={h0}"), "init", false);
            let mut interesting = false;
            let len = rng.usize(8, 40);
            for _ in 0..len {
                match rng.below(100) {
                    0..=24 => {
                        out.op("fetchkeep", "fetchkeep", interesting);
                        if rng.chance(9, 10) {
                            out.op(format!("deliver ok={}", if rng.chance(9, 10) { 1 } else { 0 }), "deliver", interesting);
                        } else {
                            out.op("fetch", "fetch/while-ongoing", interesting);
                            out.op("cancel", "cancel", false);
                        }
                    }
                    25..=39 => out.op("fetch", "fetch", interesting),
                    40..=54 => {
                        let t = *rng.pick(&["htail", "htail", "htail", "tail", "head"]);
                        let k = rng.usize(1, 4);
                        for _ in 0..k {
                            out.op(format!("prune h={t}"), &format!("prune/{t}"), true);
                        }
                        interesting = true;
                    }
                    55..=62 => {
                        out.op(format!("prune h={}", rng.range(1, N)), "prune/random", true);
                        interesting = true;
                    }
                    63..=70 => {
                        let a = rng.range(1, N);
                        let b = (a + rng.below(40)).min(N);
                        out.op(format!("ins a={a} b={b}"), "ins", false);
                        interesting = true;
                    }
                    71..=78 => {
                        let a = rng.range(1, N);
                        let b = (a + rng.below(120)).min(N);
                        out.op(format!("sample a={a} b={b}"), "sample", false);
                    }
                    79..=84 => {
                        let v = if rng.chance(1, 4) { "none".to_string() } else { rng.range(1, N).to_string() };
                        out.op(format!("slow h={v}"), "slow", false);
                    }
                    85..=88 => out.op(format!("peers n={}", rng.below(3)), "peers", false),
                    89..=92 => out.op(format!("head h={}", rng.range(1, N)), "head", false),
                    93..=94 => out.op(
                        format!("bs n={}", *rng.pick(&[1, 4, 10, 33, 64, 200, 512])),
                        "bs",
                        false,
                    ),
                    95..=97 => {
                        out.op(format!("advance d={}", *rng.pick(&[1, 1, 2, 5, 10, 30, 100])), "advance", true);
                        interesting = true;
                    }
                    _ => out.op("state", "state", false),
                }
            }
            out.op("peers n=1", "peers", false);
            out.op("fetch", "fetch/final", interesting);
            out.op("state", "state", false);
            out.op("reset", "reset", false);
        }
        // size-threshold stress (S10)
        let thorough = tier == Tier::Thorough;
        let reps = if thorough { 12 } else { 1 };
        for _ in 0..reps {
            for k in [9u64, 17, 33, 65] {
                many_scenario(rng, out, N, k, if thorough { 24 } else { 12 });
            }
            if thorough {
                for k in [8u64, 16, 32, 64, 90] {
                    many_scenario(rng, out, N, k, 24);
                }
            }
        }
        // SLOW_SYNC_MIN_THRESHOLD = 50 and batch_size / 2: 50/51, 64/65
        for (bs, k) in [(1u64, 9u64), (100, 2), (101, 17), (102, 9), (103, 33), (128, 17), (129, 9), (130, 33)] {
            slow_scenario(rng, out, N, bs, k);
            if thorough {
                slow_scenario(rng, out, N, bs, 2 * k + 1);
            }
        }
        // large heights: the chain of 2100 headers
        for _ in 0..reps {
            many_scenario(rng, out, BIG_N, 17, if thorough { 24 } else { 10 });
            many_scenario(rng, out, BIG_N, 65, if thorough { 24 } else { 10 });
            if thorough {
                many_scenario(rng, out, BIG_N, 129, 24);
                many_scenario(rng, out, BIG_N, 257, 24);
            }
        }
        for (bs, k) in [(1024u64, 65u64), (1025, 9), (1026, 33)] {
            slow_scenario(rng, out, BIG_N, bs, k);
        }
        // batches of 511 / 512 / 513 / 1025 headers (the HeaderSession sends at most 8 x 64 at a time)
        for bs in [511u64, 512, 513, 1025] {
            let t = format!("thr/long-batch-bs{bs}");
            out.op(format!("init n={BIG_N} sw={} pw={} bs={bs} h0=3", BIG_N + 100, BIG_N + 101), &format!("{t}/init"), false);
            out.op(format!("head h={}", 1500 + rng.below(500)), &format!("{t}/head"), false);
            out.op("fetchkeep", &format!("{t}/fetchkeep"), true);
            out.op("deliver ok=1", &format!("{t}/deliver"), true);
            out.op("fetch", &format!("{t}/fetch"), true);
            out.op("state", &format!("{t}/state"), false);
            out.op("reset", "reset", false);
        }
    }

    fn result_tag(&self, line: &str, result: &str) -> Option<String> {
        match opname(line) {
            "state" => None,
            _ => Some(result.split(' ').next().unwrap_or("").to_string()),
        }
    }

    fn run(&mut self, line: &str) -> String {
        let op = opname(line);
        if op == "reset" {
            self.ctx = None;
            return "ok".into();
        }
        if op == "init" {
            let (Some(n), Some(sw), Some(pw), Some(bs), Some(h0)) =
                (arg_u64(line, "n"), arg_u64(line, "sw"), arg_u64(line, "pw"), arg_u64(line, "bs"), arg_u64(line, "h0"))
            else {
                return "bad-op".into();
            };
            if n != N && n != BIG_N {
                return "bad-op".into();
            }
            if n != self.pool_n {
                self.ctx = None;
                self.pool = make_pool(n);
                self.pool_n = n;
            }
            let Some(head) = self.hdr(h0) else { return "bad-op".into() };
            let ctx = self.rt.block_on(async {
                let (p2p, handle) = mocked_p2p();
                let store = Arc::new(InMemoryStore::new());
                store.insert(head.clone()).await.expect("insert head");
                let (mut w, events) = worker(
                    &p2p,
                    store.clone(),
                    bs,
                    window(sw, 0),
                    window(pw, 0),
                );
                w.set_subjective_head_height(h0);
                w.init_broadcast(head);
                handle.set_peers(1, 1);
                Ctx { sw, pw, adv: 0, store, worker: w, handle, events, _p2p: p2p }
            });
            self.ctx = Some(ctx);
            return "ok".into();
        }
        if self.ctx.is_none() {
            return "bad-op".into();
        }
        match op {
            "ins" => {
                let (Some(a), Some(b)) = (arg_u64(line, "a"), arg_u64(line, "b")) else { return "bad-op".into() };
                let Some(span) = self.span(a, b) else { return "bad-op".into() };
                let ctx = self.ctx.as_ref().unwrap();
                match self.rt.block_on(ctx.store.insert(span)) {
                    Ok(()) => "ok".into(),
                    Err(_) => "err".into(),
                }
            }
            "prune" => {
                let Some(h) = self.height_arg(line) else { return "err".into() };
                let ctx = self.ctx.as_ref().unwrap();
                match self.rt.block_on(ctx.store.remove_height(h)) {
                    Ok(()) => "ok".into(),
                    Err(_) => "err".into(),
                }
            }
            "sample" => {
                let (Some(a), Some(b)) = (arg_u64(line, "a"), arg_u64(line, "b")) else { return "bad-op".into() };
                let ctx = self.ctx.as_ref().unwrap();
                let mut k = 0;
                for h in a..=b {
                    if self.rt.block_on(ctx.store.mark_as_sampled(h)).is_ok() {
                        k += 1;
                    }
                }
                format!("ok n={k}")
            }
            "head" => {
                let Some(h) = arg_u64(line, "h") else { return "bad-op".into() };
                let ctx = self.ctx.as_mut().unwrap();
                ctx.worker.set_subjective_head_height(h);
                format!("ok head={}", show_opt(ctx.worker.subjective_head_height()))
            }
            "slow" => {
                let Some(v) = arg(line, "h") else { return "bad-op".into() };
                let ctx = self.ctx.as_mut().unwrap();
                ctx.worker.set_highest_slow_sync_height(v.parse().ok());
                "ok".into()
            }
            "peers" => {
                let Some(n) = arg_u64(line, "n") else { return "bad-op".into() };
                self.ctx.as_ref().unwrap().handle.set_peers(n, n);
                "ok".into()
            }
            "bs" => {
                let Some(n) = arg_u64(line, "n") else { return "bad-op".into() };
                self.ctx.as_mut().unwrap().worker.set_batch_size(n);
                "ok".into()
            }
            "advance" => {
                let Some(d) = arg_u64(line, "d") else { return "bad-op".into() };
                let ctx = self.ctx.as_mut().unwrap();
                ctx.adv += d;
                ctx.worker.set_windows(window(ctx.sw, ctx.adv), window(ctx.pw, ctx.adv));
                "ok".into()
            }
            "fetch" => self.fetch(false),
            "fetchkeep" => self.fetch(true),
            "cancel" => {
                self.ctx.as_mut().unwrap().worker.cancel_ongoing();
                "ok".into()
            }
            "deliver" => {
                let Some(k) = arg_u64(line, "ok") else { return "bad-op".into() };
                let Some((a, b)) = self.ctx.as_ref().unwrap().worker.ongoing() else { return "err".into() };
                let res = if k != 0 {
                    Ok(self.span(a, b).expect("requested range inside the chain"))
                } else {
                    Err(P2pError::HeaderEx(HeaderExError::InvalidResponse))
                };
                let ctx = self.ctx.as_mut().unwrap();
                match self.rt.block_on(ctx.worker.on_fetch_next_batch_result(res)) {
                    Ok(()) => format!("ok slow={}", show_opt(ctx.worker.highest_slow_sync_height())),
                    Err(e) => format!("fatal {e}"),
                }
            }
            "state" => {
                let ctx = self.ctx.as_ref().unwrap();
                self.rt.block_on(async {
                    let st = ctx.store.get_stored_header_ranges().await.unwrap();
                    let pr = ctx.store.get_pruned_ranges().await.unwrap();
                    let sa = ctx.store.get_sampled_ranges().await.unwrap();
                    format!(
                        "st={} pr={} sa={} head={} slow={}",
                        show_ranges(st.as_ref()),
                        show_ranges(pr.as_ref()),
                        show_ranges(sa.as_ref()),
                        show_opt(ctx.worker.subjective_head_height()),
                        show_opt(ctx.worker.highest_slow_sync_height())
                    )
                })
            }
            _ => "bad-op".into(),
        }
    }
}

fn main() {
    main_for(C25::new());
}

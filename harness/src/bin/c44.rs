//! C44 — gRPC calls fail over across endpoints.
//!
//! The REAL fail-over machinery is driven: generated `GrpcClient` methods (`get_auth_params`,
//! `get_blob_params`, `estimate_gas_price` — three expansions of `#[grpc_method]`) of a client
//! built with the public `GrpcClientBuilder::transport` over fake endpoints (tower services that
//! speak just enough gRPC: data frame + trailers, trailers-only error statuses, transport errors).
//!
//! * controlled histories: every call future is polled by hand and every endpoint answer is
//!   released by an op, so the harness decides the interleaving of any number of concurrent calls
//!   exactly (`new`, `start`, `respond`, `drop`, `probe`); the model predicts every line;
//! * `storm`: callers on a multi-thread tokio runtime race through endpoints whose answers are a
//!   pure function of (seed, call, endpoint); every request/answer/return is stamped globally and
//!   the trace goes to the driver as `obs=` (must be a run of the model; spec on every call).
use std::collections::HashMap;
use std::convert::Infallible;
use std::future::{Future, IntoFuture};
use std::pin::Pin;
use std::sync::atomic::{AtomicU64, Ordering::SeqCst};
use std::sync::{Arc, Mutex};
use std::task::{Context, Poll, Waker};

use bytes::Bytes;
use celestia_grpc::grpc::TxPriority;
use celestia_grpc::{Error, GrpcClient};
use http_body::Frame;
use http_body_util::StreamBody;
use tonic::body::Body as TonicBody;
use verif_harness::*;

#[derive(Clone, Copy, Debug, PartialEq)]
enum Kind {
    Ok,
    Bad,
    Status(u32),
    Transport,
}

impl Kind {
    fn parse(s: &str) -> Option<Kind> {
        match s {
            "o" => Some(Kind::Ok),
            "b" => Some(Kind::Bad),
            "t" => Some(Kind::Transport),
            _ => s.strip_prefix('s').and_then(|c| c.parse().ok()).map(Kind::Status),
        }
    }
    fn show(&self) -> String {
        match self {
            Kind::Ok => "o".into(),
            Kind::Bad => "b".into(),
            Kind::Transport => "t".into(),
            Kind::Status(c) => format!("s{c}"),
        }
    }
}

#[derive(Debug)]
struct FakeErr(String);
impl std::fmt::Display for FakeErr {
    fn fmt(&self, f: &mut std::fmt::Formatter<'_>) -> std::fmt::Result {
        write!(f, "{}", self.0)
    }
}
impl std::error::Error for FakeErr {}

type FrameIter = futures::stream::Iter<std::vec::IntoIter<Result<Frame<Bytes>, Infallible>>>;
type FakeBody = StreamBody<FrameIter>;

static STAMP: AtomicU64 = AtomicU64::new(0);
fn stamp() -> u64 {
    STAMP.fetch_add(1, SeqCst)
}

enum Mode {
    /// answers are released by `respond` ops
    Controlled,
    /// answers are a pure function of (seed, call, endpoint)
    Auto { seed: u64 },
}

struct Shared {
    mode: Mode,
    /// controlled mode: (call, endpoint) in arrival order
    requests: Mutex<Vec<(u64, usize)>>,
    pending: Mutex<HashMap<u64, tokio::sync::oneshot::Sender<Kind>>>,
    /// auto mode: stamped events
    log: Mutex<Vec<(u64, String)>>,
}

#[derive(Clone)]
struct Fake {
    id: usize,
    shared: Arc<Shared>,
}

fn grpc_frame(msg: &[u8]) -> Bytes {
    let mut v = vec![0u8];
    v.extend_from_slice(&(msg.len() as u32).to_be_bytes());
    v.extend_from_slice(msg);
    Bytes::from(v)
}

/// the answer of endpoint `id` for `path` as an HTTP response (or a transport error)
fn answer(kind: Kind, id: usize, path: &str) -> Result<http::Response<FakeBody>, FakeErr> {
    let body = |frames: Vec<Result<Frame<Bytes>, Infallible>>| StreamBody::new(futures::stream::iter(frames));
    let base = || http::Response::builder().status(200).header("content-type", "application/grpc");
    match kind {
        Kind::Transport => Err(FakeErr(format!("connection refused e{id}"))),
        Kind::Status(code) => Ok(base()
            .header("grpc-status", code.to_string())
            .header("grpc-message", format!("e{id}"))
            .body(body(vec![]))
            .unwrap()),
        Kind::Ok | Kind::Bad => {
            // the endpoint id is echoed in the payload so that the caller's result shows whose answer it got
            let msg: Vec<u8> = if path.contains("EstimateGasPrice") {
                let mut m = vec![0x09];
                m.extend_from_slice(&(id as f64).to_le_bytes());
                m
            } else if kind == Kind::Bad {
                vec![] // `params: None` => Error::FailedToParseResponse
            } else {
                vec![0x0a, 0x02, 0x08, id as u8] // params { field 1 = id }
            };
            let mut trailers = http::HeaderMap::new();
            trailers.insert("grpc-status", "0".parse().unwrap());
            Ok(base().body(body(vec![Ok(Frame::data(grpc_frame(&msg))), Ok(Frame::trailers(trailers))])).unwrap())
        }
    }
}

fn auto_kind(seed: u64, call: u64, ep: usize) -> (Kind, u64) {
    let mut r = Rng::new(seed ^ call.wrapping_mul(0x9E37_79B9) ^ ((ep as u64) << 48));
    let k = match r.below(100) {
        0..=34 => Kind::Ok,
        35..=39 => Kind::Bad,
        40..=54 => Kind::Transport,
        55..=84 => Kind::Status(*r.pick(&[14, 2, 4, 10])),
        _ => Kind::Status(*r.pick(&[1, 3, 5, 7, 8, 9, 13, 16])),
    };
    (k, r.below(4))
}

impl tower::Service<http::Request<TonicBody>> for Fake {
    type Response = http::Response<FakeBody>;
    type Error = FakeErr;
    type Future = Pin<Box<dyn Future<Output = Result<Self::Response, FakeErr>> + Send>>;

    fn poll_ready(&mut self, _cx: &mut Context<'_>) -> Poll<Result<(), FakeErr>> {
        Poll::Ready(Ok(()))
    }

    fn call(&mut self, req: http::Request<TonicBody>) -> Self::Future {
        let call: u64 = req.headers().get("x-call").and_then(|v| v.to_str().ok()).and_then(|s| s.parse().ok()).unwrap_or(u64::MAX);
        let path = req.uri().path().to_string();
        let id = self.id;
        let shared = self.shared.clone();
        match shared.mode {
            Mode::Controlled => {
                let (tx, rx) = tokio::sync::oneshot::channel();
                shared.requests.lock().unwrap().push((call, id));
                shared.pending.lock().unwrap().insert(call, tx);
                Box::pin(async move {
                    let kind = rx.await.unwrap_or(Kind::Transport);
                    answer(kind, id, &path)
                })
            }
            Mode::Auto { seed } => {
                let q = stamp();
                shared.log.lock().unwrap().push((q, format!("Q{call}.{id}")));
                Box::pin(async move {
                    let (kind, yields) = auto_kind(seed, call, id);
                    for _ in 0..yields {
                        tokio::task::yield_now().await;
                    }
                    let a = stamp();
                    shared.log.lock().unwrap().push((a, format!("A{call}.{id}.{}", kind.show())));
                    answer(kind, id, &path)
                })
            }
        }
    }
}

fn build_client(n: usize, mode: Mode) -> (GrpcClient, Arc<Shared>) {
    let shared = Arc::new(Shared {
        mode,
        requests: Mutex::new(vec![]),
        pending: Mutex::new(HashMap::new()),
        log: Mutex::new(vec![]),
    });
    let mut b = GrpcClient::builder();
    for id in 0..n {
        b = b.transport(Fake { id, shared: shared.clone() });
    }
    (b.build().expect("client"), shared)
}

type CallFut = Pin<Box<dyn Future<Output = Result<u64, Error>> + Send>>;

/// one call through a generated method; the value is the endpoint id echoed in the payload
fn make_call(client: &GrpcClient, method: &str, call: u64) -> CallFut {
    let id = call.to_string();
    match method {
        "p" => {
            let f = client.get_blob_params().metadata("x-call", &id).unwrap().into_future();
            Box::pin(async move { f.await.map(|p| p.gas_per_blob_byte as u64) })
        }
        "e" => {
            let f = client.estimate_gas_price(TxPriority::Medium).metadata("x-call", &id).unwrap().into_future();
            Box::pin(async move { f.await.map(|p| p as u64) })
        }
        _ => {
            let f = client.get_auth_params().metadata("x-call", &id).unwrap().into_future();
            Box::pin(async move { f.await.map(|p| p.max_memo_characters) })
        }
    }
}

/// `e<id>` inside a status message
fn ep_of_message(msg: &str) -> Option<u64> {
    let i = msg.rfind('e')?;
    let digits: String = msg[i + 1..].chars().take_while(|c| c.is_ascii_digit()).collect();
    digits.parse().ok()
}

enum Outcome {
    Ok(u64),
    Parse,
    Err(i32, Option<u64>),
    Other(String),
}

fn classify(r: Result<u64, Error>) -> Outcome {
    match r {
        Ok(e) => Outcome::Ok(e),
        Err(Error::FailedToParseResponse) => Outcome::Parse,
        Err(Error::TonicError(st)) => Outcome::Err(st.code() as i32, ep_of_message(st.message())),
        Err(e) => Outcome::Other(format!("{e}").replace(' ', "_")),
    }
}

struct Call {
    fut: CallFut,
    tried: Vec<(usize, Kind)>,
    current: usize,
}

struct C44 {
    client: Option<GrpcClient>,
    shared: Option<Arc<Shared>>,
    calls: HashMap<u64, Call>,
    probes: u64,
    rt: Option<tokio::runtime::Runtime>,
    last_obs: Option<String>,
}

fn poll_once(f: &mut CallFut) -> Poll<Result<u64, Error>> {
    let waker = Waker::noop();
    let mut cx = Context::from_waker(waker);
    f.as_mut().poll(&mut cx)
}

impl C44 {
    fn last_request(&self, call: u64) -> Option<usize> {
        self.shared.as_ref()?.requests.lock().unwrap().iter().rev().find(|(c, _)| *c == call).map(|(_, e)| *e)
    }
    fn nreq(&self) -> usize {
        self.shared.as_ref().map(|s| s.requests.lock().unwrap().len()).unwrap_or(0)
    }

    /// poll the call until it finishes or sends its next request
    fn advance(&mut self, call: u64) -> String {
        let before = self.nreq();
        for _ in 0..4 {
            let c = self.calls.get_mut(&call).unwrap();
            match poll_once(&mut c.fut) {
                Poll::Ready(r) => {
                    let c = self.calls.remove(&call).unwrap();
                    let tried = if c.tried.is_empty() {
                        "-".to_string()
                    } else {
                        c.tried.iter().map(|(e, k)| format!("{e}:{}", k.show())).collect::<Vec<_>>().join(",")
                    };
                    let res = match classify(r) {
                        Outcome::Ok(e) => format!("ok e={e}"),
                        Outcome::Parse => format!("parse e={}", c.current),
                        Outcome::Err(code, from) => {
                            format!("err code={code} from={}", from.map(|x| x.to_string()).unwrap_or("?".into()))
                        }
                        Outcome::Other(s) => format!("other {s}"),
                    };
                    return format!("done {res} tried={tried}");
                }
                Poll::Pending => {
                    if self.nreq() > before {
                        let e = self.last_request(call).unwrap();
                        self.calls.get_mut(&call).unwrap().current = e;
                        return format!("next e={e}");
                    }
                }
            }
        }
        "stuck".into()
    }

    fn storm(&mut self, n: usize, callers: usize, calls: usize, seed: u64) -> String {
        let rt = self.rt.get_or_insert_with(|| {
            tokio::runtime::Builder::new_multi_thread().worker_threads(4).enable_all().build().unwrap()
        });
        let (client, shared) = build_client(n, Mode::Auto { seed });
        rt.block_on(async {
            let mut hs = vec![];
            for k in 0..callers {
                let client = client.clone();
                let sh = shared.clone();
                hs.push(tokio::spawn(async move {
                    let mut r = Rng::new(seed ^ ((k as u64 + 1) * 7919));
                    for j in 0..calls {
                        let call = (k * 100 + j) as u64;
                        let method = *r.pick(&["a", "p"]);
                        for _ in 0..r.below(3) {
                            tokio::task::yield_now().await;
                        }
                        let s = stamp();
                        sh.log.lock().unwrap().push((s, format!("S{call}")));
                        let res = make_call(&client, method, call).await;
                        let e = stamp();
                        let last = sh
                            .log
                            .lock()
                            .unwrap()
                            .iter()
                            .rev()
                            .find_map(|(_, t)| t.strip_prefix(&format!("Q{call}.")).map(|x| x.to_string()));
                        let tok = match classify(res) {
                            Outcome::Ok(e) => format!("ok{e}"),
                            Outcome::Parse => format!("pa{}", last.unwrap_or("?".into())),
                            Outcome::Err(code, from) => {
                                format!("er{code}f{}", from.map(|x| x.to_string()).unwrap_or("?".into()))
                            }
                            Outcome::Other(s) => format!("other{s}"),
                        };
                        sh.log.lock().unwrap().push((e, format!("R{call}.{tok}")));
                    }
                }));
            }
            for h in hs {
                h.await.unwrap();
            }
        });
        // read the final register: a call id for which every endpoint answers with a network error
        // (answers are a pure function of seed, call, endpoint) is tried on every endpoint in register order
        let mut probe = 9_999_000u64;
        while !(0..n).all(|e| match auto_kind(seed, probe, e).0 {
            Kind::Transport => true,
            Kind::Status(c) => [14, 2, 4, 10].contains(&c),
            _ => false,
        }) {
            probe += 1;
        }
        let _ = rt.block_on(make_call(&client, "a", probe));
        let mut evs: Vec<(u64, String)> = shared.log.lock().unwrap().drain(..).collect();
        evs.sort();
        let qp = format!("Q{probe}.");
        let ap = format!("A{probe}.");
        let order: Vec<String> = evs.iter().filter_map(|(_, t)| t.strip_prefix(&qp).map(|x| x.to_string())).collect();
        let mut toks: Vec<String> =
            evs.into_iter().map(|(_, t)| t).filter(|t| !t.starts_with(&qp) && !t.starts_with(&ap)).collect();
        toks.push(format!("P{}", order.join(".")));
        self.last_obs = Some(toks.join(","));
        "done".into()
    }
}

impl Prop for C44 {
    fn id(&self) -> &'static str {
        "C44"
    }
    fn rule(&self) -> &'static str {
        "Controlled histories on the real GrpcClient (generated get_auth_params / get_blob_params / estimate_gas_price \
         over 1..5 fake endpoints built with GrpcClientBuilder::transport): up to 4 concurrent calls whose interleaving the \
         harness fixes by releasing each endpoint answer (ok, unparsable payload, transport failure, every gRPC status code \
         1..16), cancellation of calls in flight, and a register probe (a call failing everywhere) after each history; \
         exhaustive: every answer script over {ok, network, non-network} for 1..3 endpoints, sequentially. `storm`: 2..6 \
         callers x 2..5 calls on a multi-thread runtime against endpoints answering by a pure function of (seed, call, \
         endpoint); the stamped trace must be a run of the model. S10 size-threshold stress (tags big/…): controlled histories with \
         6, 7, 8, 9, 15, 16, 17, 31, 32, 33, 62, 63 endpoints (63 = the most the probe walks through) and up to 9 / 17 / 33 / 65 overlapping calls \
         with network-failure-biased answers, and 3 (thorough 30) storms with 6..8 endpoints x 7..8 callers x 6..8 calls (the harness's maxima; the driver's trace check is the bottleneck there). Non-trivial = every op of a history with >= 2 endpoints \
         and every storm; distinct = distinct (op+trace, result)."
    }
    fn gen_ops(&mut self, rng: &mut Rng, tier: Tier, out: &mut Emitter) {
        let thorough = tier == Tier::Thorough;
        let kinds_all: Vec<String> = ["o", "b", "t"].iter().map(|s| s.to_string()).chain((1..=16).map(|c| format!("s{c}"))).collect();
        // 1. exhaustive scripts over {ok, net, nonnet} (and bad payload) for 1..3 endpoints, two calls in sequence
        let small = ["o", "b", "s14", "s5", "t"];
        for n in 1..=3usize {
            let total = small.len().pow(n as u32);
            for code in 0..total {
                let mut script = vec![];
                let mut x = code;
                for _ in 0..n {
                    script.push(small[x % small.len()]);
                    x /= small.len();
                }
                out.op(format!("new n={n}"), "seq/exh", n >= 2);
                for (ci, m) in ["a", "p"].iter().enumerate() {
                    out.op(format!("start c={ci} m={m}"), "seq/exh", n >= 2);
                    for k in &script {
                        out.op(format!("respond c={ci} kind={k}"), "seq/exh", n >= 2);
                    }
                }
                out.op("probe", "seq/exh", n >= 2);
                out.op("reset", "seq/exh", false);
            }
        }
        // every status code, alone and after a network failure
        for k in &kinds_all {
            out.op("new n=2", "seq/codes", true);
            out.op("start c=0 m=a", "seq/codes", true);
            out.op(format!("respond c=0 kind={k}"), "seq/codes", true);
            out.op(format!("respond c=0 kind={k}"), "seq/codes", true);
            out.op(format!("start c=1 m={}", if k == "b" { "p" } else { "e" }), "seq/codes", true);
            out.op("respond c=1 kind=t", "seq/codes", true);
            out.op(format!("respond c=1 kind={k}"), "seq/codes", true);
            out.op("probe", "seq/codes", true);
            out.op("reset", "seq/codes", false);
        }
        // 2. random controlled interleavings of concurrent calls
        let hist = if thorough { 4000 } else { 300 };
        // S10 size-threshold stress: after the regular histories, histories with 6..63 endpoints (63 = the most the
        // harness's probe can walk through) and up to 9 / 17 / 33 / 65 overlapping calls, answers biased to network
        // failures so that calls walk through many endpoints
        let big_ns: [usize; 12] = [6, 7, 8, 9, 15, 16, 17, 31, 32, 33, 62, 63];
        let big_live: [usize; 4] = [9, 17, 33, 65];
        let big_hist = if thorough { 240 } else { 12 };
        for hno in 0..hist + big_hist {
            let big = hno >= hist;
            let n = if big { big_ns[(hno - hist) % big_ns.len()] } else { rng.usize(1, 5) };
            let max_live = if big { big_live[(hno - hist) % big_live.len()] } else { 4 };
            let tag_random: String = if big { format!("big/ctl-n{n}-live{max_live}") } else { "ctl/random".into() };
            let tag_random = tag_random.as_str();
            out.op(format!("new n={n}"), tag_random, n >= 2);
            let mut live: Vec<u64> = vec![];
            let mut fails: HashMap<u64, usize> = HashMap::new();
            let mut next_id = 0u64;
            let len = if big { 3 * max_live + rng.usize(40, 120) } else { rng.usize(6, 40) };
            if big {
                // two calls that walk through EVERY endpoint: one fails everywhere, one succeeds on the last endpoint
                for last in ["t", "o"] {
                    out.op(format!("start c={next_id} m=a"), "big/walk-all", true);
                    for e in 0..n {
                        let k = if e + 1 == n { last.to_string() } else if rng.bool() { "t".to_string() } else { format!("s{}", rng.pick(&[14u32, 2, 4, 10])) };
                        out.op(format!("respond c={next_id} kind={k}"), "big/walk-all", true);
                    }
                    next_id += 1;
                }
            }
            for _ in 0..len {
                let r = rng.below(100);
                if (live.len() < max_live && r < if big { 45 } else { 30 }) || live.is_empty() {
                    let m = *rng.pick(&["a", "p"]);
                    out.op(format!("start c={next_id} m={m}"), tag_random, n >= 2);
                    live.push(next_id);
                    next_id += 1;
                } else if r < 88 {
                    let c = *rng.pick(&live);
                    let k = match rng.below(10) + if big { 3 } else { 0 } {
                        0..=2 => "o".to_string(),
                        3 => "b".to_string(),
                        4..=5 => "t".to_string(),
                        6..=7 | 10..=11 => format!("s{}", rng.pick(&[14u32, 2, 4, 10])),
                        12 => "t".to_string(),
                        _ => rng.pick(&kinds_all).clone(),
                    };
                    out.op(format!("respond c={c} kind={k}"), tag_random, n >= 2);
                    // a call ends on ok / bad payload / non-network status, or when its n-th endpoint failed;
                    // now and then a finished call is kept so that `nocall` answers are exercised too
                    let network = k == "t" || ["s14", "s2", "s4", "s10"].contains(&k.as_str());
                    let f = fails.entry(c).or_insert(0);
                    *f += 1;
                    if (!network || *f >= n) && !rng.chance(1, 12) {
                        live.retain(|x| *x != c);
                    }
                } else if r < 93 {
                    let c = *rng.pick(&live);
                    out.op(format!("drop c={c}"), tag_random, n >= 2);
                    live.retain(|x| *x != c);
                } else if r < 97 {
                    out.op("probe", tag_random, n >= 2);
                } else {
                    // misuse: respond / drop on unknown calls, start with an id in use
                    match rng.below(3) {
                        0 => out.op(format!("respond c={} kind=o", next_id + 7), "ctl/misuse", n >= 2),
                        1 => out.op(format!("drop c={}", next_id + 7), "ctl/misuse", n >= 2),
                        _ => out.op(format!("start c={} m=a", live[0]), "ctl/misuse", n >= 2),
                    }
                }
            }
            out.op("probe", tag_random, n >= 2);
            out.op("reset", tag_random, false);
        }
        // 3. storms
        let storms = if thorough { 6000 } else { 400 };
        for _ in 0..storms {
            out.op(
                format!("storm n={} callers={} calls={} seed={}", rng.usize(1, 5), rng.usize(2, 6), rng.usize(2, 5), rng.next_u64() >> 16),
                "storm",
                true,
            );
            out.op("reset", "storm", false);
        }
        // S10: storms at the largest sizes the harness supports (8 endpoints, 8 callers, 8 calls each) and just below
        // (the driver's trace check — the set of model states a stamped trace can be in — costs ~1.5 s per such storm on
        // average (up to 14 s) against 0.02 s for the regular ones: the Lean driver is the bottleneck, hence only 3 per quick and 30 per thorough run)
        for _ in 0..(if thorough { 30 } else { 3 }) {
            out.op(
                format!("storm n={} callers={} calls={} seed={}", rng.usize(6, 8), rng.usize(7, 8), rng.usize(6, 8), rng.next_u64() >> 16),
                "big/storm",
                true,
            );
            out.op("reset", "big/storm", false);
        }
    }

    fn observed(&mut self, _line: &str) -> Option<String> {
        self.last_obs.take()
    }

    fn run(&mut self, line: &str) -> String {
        self.last_obs = None;
        match opname(line) {
            "reset" => {
                self.calls.clear();
                self.client = None;
                self.shared = None;
                "ok".into()
            }
            "new" => {
                let Some(n) = arg_u64(line, "n") else { return "bad-op".into() };
                self.calls.clear();
                let (client, shared) = build_client(n as usize, Mode::Controlled);
                self.client = Some(client);
                self.shared = Some(shared);
                "ok".into()
            }
            "start" => {
                let (Some(c), Some(m)) = (arg_u64(line, "c"), arg(line, "m")) else { return "bad-op".into() };
                let Some(client) = self.client.as_ref() else { return "bad-op".into() };
                if self.calls.contains_key(&c) {
                    return "busy".into();
                }
                let before = self.nreq();
                let mut fut = make_call(client, m, c);
                match poll_once(&mut fut) {
                    Poll::Ready(r) => match classify(r) {
                        Outcome::Other(s) => format!("done other {s} tried=-"),
                        _ => "done unexpected tried=-".into(),
                    },
                    Poll::Pending => {
                        if self.nreq() == before {
                            return "stuck".into();
                        }
                        let e = self.last_request(c).unwrap();
                        self.calls.insert(c, Call { fut, tried: vec![], current: e });
                        format!("req e={e}")
                    }
                }
            }
            "respond" => {
                let (Some(c), Some(k)) = (arg_u64(line, "c"), arg(line, "kind").and_then(Kind::parse)) else {
                    return "bad-op".into();
                };
                if !self.calls.contains_key(&c) {
                    return "nocall".into();
                }
                let tx = self.shared.as_ref().unwrap().pending.lock().unwrap().remove(&c);
                let Some(tx) = tx else { return "nocall".into() };
                let call = self.calls.get_mut(&c).unwrap();
                call.tried.push((call.current, k));
                let _ = tx.send(k);
                self.advance(c)
            }
            "drop" => {
                let Some(c) = arg_u64(line, "c") else { return "bad-op".into() };
                if self.calls.remove(&c).is_none() {
                    return "nocall".into();
                }
                self.shared.as_ref().unwrap().pending.lock().unwrap().remove(&c);
                "ok".into()
            }
            "probe" => {
                let Some(client) = self.client.as_ref() else { return "bad-op".into() };
                self.probes += 1;
                let c = 1_000_000 + self.probes;
                let before = self.nreq();
                let mut fut = make_call(client, "a", c);
                let mut order = vec![];
                for _ in 0..64 {
                    match poll_once(&mut fut) {
                        Poll::Ready(_) => break,
                        Poll::Pending => {
                            if let Some(tx) = self.shared.as_ref().unwrap().pending.lock().unwrap().remove(&c) {
                                order.push(self.last_request(c).unwrap());
                                let _ = tx.send(Kind::Transport);
                            }
                        }
                    }
                }
                let _ = before;
                if order.is_empty() { "order -".into() } else { format!("order {}", natl(&order)) }
            }
            "storm" => {
                let (Some(n), Some(callers), Some(calls), Some(seed)) =
                    (arg_u64(line, "n"), arg_u64(line, "callers"), arg_u64(line, "calls"), arg_u64(line, "seed"))
                else {
                    return "bad-op".into();
                };
                self.storm((n as usize).clamp(1, 8), (callers as usize).clamp(1, 8), (calls as usize).clamp(1, 8), seed)
            }
            _ => "bad-op".into(),
        }
    }
}

fn main() {
    main_for(C44 { client: None, shared: None, calls: HashMap::new(), probes: 0, rt: None, last_obs: None });
}

//! C38 — The syncer keeps the store on the network's chain and converges.
//!
//! The REAL `Syncer` (hook `verif::syncer::start_syncer`: the spawned `Worker::run` with both
//! event loops) on a real `InMemoryStore`, talking to a `P2p` whose command channel the harness
//! owns (hook `verif::p2p::mocked_p2p`).  The harness plays the P2p worker: every header-ex
//! request of the real `HeaderSession` is answered by a simulated peer through the REAL client
//! acceptance function `decode_and_verify_responses` (hook `header_ex::client::decode_and_verify`)
//! over real encoded headers: honest chain, a fork signed by the same key, a foreign chain,
//! invalidated / re-signed headers, truncated / gapped / oversized / empty / not-found answers
//! and transport errors; header-sub announcements; disconnect / reconnect.
//!
//! One current-thread tokio runtime; after every event the harness yields until the worker is
//! quiescent, then reads the store, `Syncer::info`, and the outstanding requests.  After every
//! event the stored headers are compared (by hash) with the honest chain (`off=`).
use std::sync::atomic::{AtomicU64, Ordering};
use std::sync::{Arc, OnceLock};
use std::time::Duration;

use celestia_proto::p2p::pb::header_request::Data;
use celestia_proto::p2p::pb::{HeaderRequest, HeaderResponse, StatusCode};
use celestia_types::ExtendedHeader;
use celestia_types::test_utils::{ExtendedHeaderGenerator, invalidate, unverify};
use libp2p::request_response::OutboundFailure;
use lumina_node::node::{HeaderExError, P2pError};
use lumina_node::store::{InMemoryStore, Store};
use lumina_node::verif::p2p::header_ex::{client, utils};
use lumina_node::verif::p2p::header_session::Responder;
use lumina_node::verif::p2p::{MockedCmd, MockedP2p, MockedP2pHandle, mocked_p2p};
use lumina_node::verif::syncer::{VerifSyncer, start_syncer};
use tendermint::Time;
use verif_harness::*;

const N: u64 = 160;
/// second, long chain of the size-threshold phase (`start n=700`): batches of 511 / 512 / 513 headers
const BIG_N: u64 = 700;
/// length of the chain the current scenario runs on (`N` or `BIG_N`)
static CUR_N: AtomicU64 = AtomicU64::new(N);

fn cur_n() -> u64 {
    CUR_N.load(Ordering::Relaxed)
}
const DAY: u64 = 24 * 60 * 60;
const FORKS: [u64; 3] = [10, 50, 90];

struct Pool {
    honest: Vec<ExtendedHeader>,
    /// forks[i][k] = header at height FORKS[i] + 1 + k of the fork leaving the honest chain after FORKS[i]
    forks: Vec<Vec<ExtendedHeader>>,
    foreign: Vec<ExtendedHeader>,
}

fn pool() -> &'static Pool {
    static P: OnceLock<Pool> = OnceLock::new();
    static PB: OnceLock<Pool> = OnceLock::new();
    if cur_n() == N { P.get_or_init(|| build_pool(N)) } else { PB.get_or_init(|| build_pool(BIG_N)) }
}

fn build_pool(n: u64) -> Pool {
    let first = (Time::now() - Duration::from_secs((n + 1) * DAY)).unwrap();
    let mut g = ExtendedHeaderGenerator::new();
    g.set_time(first, Duration::from_secs(DAY));
    let mut honest = vec![];
    let mut forks = vec![];
    for h in 1..=n {
        honest.push(g.next_empty());
        if FORKS.contains(&h) {
            let mut fg = g.fork();
            forks.push(fg.next_many_empty(n - h));
        }
    }
    let mut fg = ExtendedHeaderGenerator::new();
    fg.set_time(first, Duration::from_secs(DAY));
    let foreign = fg.next_many_empty(n);
    Pool { honest, forks, foreign }
}

fn honest(h: u64) -> Option<ExtendedHeader> {
    if h >= 1 && h <= cur_n() { Some(pool().honest[(h - 1) as usize].clone()) } else { None }
}

fn fork(d: u64, h: u64) -> Option<ExtendedHeader> {
    if h <= d {
        return honest(h);
    }
    let i = FORKS.iter().position(|x| *x == d)?;
    pool().forks[i].get((h - d - 1) as usize).cloned()
}

fn foreign(h: u64) -> Option<ExtendedHeader> {
    if h >= 1 && h <= cur_n() { Some(pool().foreign[(h - 1) as usize].clone()) } else { None }
}

struct Ctx {
    d: u64,
    sw: u64,
    pw: u64,
    store: Arc<InMemoryStore>,
    syncer: VerifSyncer,
    handle: MockedP2pHandle,
    _p2p: MockedP2p,
    head_req: Option<Responder>,
    outstanding: Vec<(u64, u64, Responder)>,
    connected_phase: bool,
    saw_init_header_sub: bool,
}

struct C38 {
    rt: tokio::runtime::Runtime,
    ctx: Option<Ctx>,
}

fn show_ranges(rs: &[std::ops::RangeInclusive<u64>]) -> String {
    if rs.is_empty() {
        "-".into()
    } else {
        rs.iter().map(|r| format!("{}-{}", r.start(), r.end())).collect::<Vec<_>>().join(",")
    }
}

impl Ctx {
    /// let the worker run until it is blocked, then take what it put on the command channel
    async fn settle(&mut self) {
        for _ in 0..6 {
            for _ in 0..60 {
                tokio::task::yield_now().await;
            }
            let mut got = false;
            while let Some(cmd) = self.handle.try_next() {
                got = true;
                match cmd {
                    MockedCmd::HeaderEx(req, responder) => match req.data {
                        Some(Data::Origin(0)) => self.head_req = Some(responder),
                        Some(Data::Origin(h)) => self.outstanding.push((h, req.amount, responder)),
                        _ => {}
                    },
                    MockedCmd::InitHeaderSub(_) => self.saw_init_header_sub = true,
                    MockedCmd::Other => {}
                }
            }
            if !got {
                break;
            }
        }
        // requests whose session is gone cannot be answered any more
        self.outstanding.retain(|(_, _, r)| !r.is_closed());
        self.outstanding.sort_by(|x, y| y.0.cmp(&x.0));
    }

    async fn wait_head_req(&mut self, max: Duration) -> bool {
        let t0 = std::time::Instant::now();
        loop {
            self.settle().await;
            if self.head_req.is_some() {
                return true;
            }
            if t0.elapsed() > max {
                return false;
            }
            tokio::time::sleep(Duration::from_millis(20)).await;
        }
    }

    async fn state(&mut self) -> String {
        let st = self.store.get_stored_header_ranges().await.unwrap();
        let mut off: Vec<u64> = vec![];
        for r in st.as_ref() {
            for h in r.clone() {
                let ok = match (self.store.get_by_height(h).await, honest(h)) {
                    (Ok(x), Some(y)) => x.hash() == y.hash(),
                    _ => false,
                };
                if !ok {
                    off.push(h);
                }
            }
        }
        let head = match self.syncer.info().await {
            Some((_, head)) => head.to_string(),
            None => "dead".into(),
        };
        let out = if self.outstanding.is_empty() {
            "-".to_string()
        } else {
            self.outstanding.iter().map(|(h, a, _)| format!("{h}+{a}")).collect::<Vec<_>>().join(",")
        };
        let pr = self.store.get_pruned_ranges().await.unwrap();
        format!(
            "st={} pr={} head={head} out={out} ph={} off={}",
            show_ranges(st.as_ref()),
            show_ranges(pr.as_ref()),
            if self.connected_phase { 1 } else { 0 },
            natl(&off)
        )
    }

    /// C35's per-height removal condition, evaluated on the REAL store and the REAL header times:
    /// stored, at or before the pruning cutoff, and outside the sampling window or both neighbours synced
    async fn prune_safe(&self, h: u64) -> bool {
        let Some(hdr) = honest(h) else { return false };
        let st = self.store.get_stored_header_ranges().await.unwrap();
        let pr = self.store.get_pruned_ranges().await.unwrap();
        let synced = |x: u64| st.contains(x) || pr.contains(x);
        let cutoff = |days: u64| {
            (Time::now() - Duration::from_secs(days * DAY + DAY / 2)).unwrap_or_else(|_| Time::unix_epoch())
        };
        let old_p = hdr.time() <= cutoff(self.pw);
        let old_s = hdr.time() <= cutoff(self.sw);
        st.contains(h) && old_p && (old_s || (h >= 1 && synced(h - 1) && synced(h + 1)))
    }

    /// answer the idx-th outstanding request the way the real client would, given what the peer sends
    async fn answer(&mut self, idx: usize, kind: &str) {
        if idx >= self.outstanding.len() {
            return;
        }
        let (h, a, responder) = self.outstanding.remove(idx);
        let num: u64 = kind[1..].parse().unwrap_or(0);
        let hon = |h: u64, a: u64| -> Vec<ExtendedHeader> { (h..h + a).filter_map(honest).collect() };
        let transport = || Err(P2pError::HeaderEx(HeaderExError::OutboundFailure(OutboundFailure::Timeout)));
        let headers: Option<Vec<ExtendedHeader>> = match kind.as_bytes().first() {
            Some(b'h') => Some(hon(h, a)),
            Some(b't') => Some(hon(h, a).into_iter().take(num as usize).collect()),
            Some(b'f') => Some((h..h + a).filter_map(|x| fork(self.d, x)).collect()),
            Some(b'g') => Some((h..h + a).filter_map(foreign).collect()),
            Some(b'i') => {
                let mut v = hon(h, a);
                invalidate(&mut v[(num % a) as usize]);
                Some(v)
            }
            Some(b'u') => {
                let mut v = hon(h, a);
                unverify(&mut v[(num % a) as usize]);
                Some(v)
            }
            Some(b'x') if a >= 3 => {
                let mut v = hon(h, a);
                v.remove(1);
                Some(v)
            }
            Some(b'r') => {
                let mut v = hon(h, a);
                v.reverse();
                Some(v)
            }
            Some(b'm') if h + a <= cur_n() => Some(hon(h, a + 1)),
            Some(b'z') => Some(vec![]),
            _ => None,
        };
        let req = HeaderRequest { data: Some(Data::Origin(h)), amount: a };
        let res = if kind.starts_with('n') {
            let resps = vec![HeaderResponse { body: vec![], status_code: StatusCode::NotFound.into() }];
            client::decode_and_verify(&req, &resps).await.map_err(P2pError::HeaderEx)
        } else {
            match headers {
                None => transport(),
                Some(hs) => {
                    let resps: Vec<HeaderResponse> = hs.iter().map(utils::to_header_response).collect();
                    client::decode_and_verify(&req, &resps).await.map_err(P2pError::HeaderEx)
                }
            }
        };
        let _ = responder.send(res);
        self.settle().await;
    }
}

/// Size-threshold stress (S10): sync to convergence, then the pruner removes every second height of a stretch
/// (`k` removals: `k` pruned ranges, `k + 1` stored ranges), then announcements (adjacent and gapped), bad and
/// honest answers, more prunings (merging pruned ranges, the tail), drains: the syncer must stay on the chain,
/// converge and never ask for a pruned height again while `pruned + stored` has many ranges.
fn comb_scenario(rng: &mut Rng, out: &mut Emitter, n: u64, k: u64, bs: u64, sw: u64, label: &str) {
    let d = *rng.pick(&FORKS);
    // (3 rounds of +1 / +2 announcements and a reconnect stay inside the chain)
    let head = n - rng.range(10, 16);
    out.op(format!("start n={n} sw={sw} pw=0 bs={bs} d={d}"), &format!("{label}/start"), false);
    out.op("connect", &format!("{label}/connect"), false);
    out.op(format!("head h={head}"), &format!("{label}/head"), true);
    out.op("state", &format!("{label}/state"), false);
    if n > N {
        // a batch of more than 512 headers: 8 concurrent requests of 64, the 9th after the first answer
        for k in ["h", "t5", "e", "h", "i3", "h"] {
            out.op(format!("ans i={} k={k}", rng.below(8)), &format!("{label}/ans-{}", &k[..1]), true);
        }
    }
    out.op("drain budget=900", &format!("{label}/drain"), true);
    // the comb, from just below the head downwards (a stretch of 3 stored heights now and then)
    let mut x = head - rng.range(1, 3);
    let mut combs = vec![];
    for _ in 0..k {
        if x < 3 {
            break;
        }
        out.op(format!("prune h={x}"), &format!("{label}/prune-comb"), true);
        combs.push(x);
        x -= if rng.chance(1, 6) { 3 } else { 2 };
    }
    out.op("state", &format!("{label}/state"), false);
    let mut cur = head;
    for round in 0..3 {
        cur += 1;
        out.op(format!("newhead h={cur}"), &format!("{label}/newhead-adjacent"), true);
        cur += 2;
        out.op(format!("newhead h={cur}"), &format!("{label}/newhead-gap"), true);
        let bad = *rng.pick(&["f", "g", "i1", "u0", "e", "n", "z", "t1"]);
        out.op(format!("ans i=0 k={bad}"), &format!("{label}/ans-{}", &bad[..1]), true);
        out.op("ans i=0 k=h", &format!("{label}/ans-h"), true);
        // merge two pruned ranges: the height between two teeth has both neighbours synced (pruned)
        if let Some(&t) = combs.get(round * 3 + 1) {
            out.op(format!("prune h={}", t + 1), &format!("{label}/prune-merge"), true);
        }
        out.op("prune h=tail", &format!("{label}/prune-tail"), true);
        out.op("drain budget=900", &format!("{label}/drain"), true);
    }
    if rng.bool() {
        out.op("disconnect", &format!("{label}/disconnect"), true);
        out.op("connect", &format!("{label}/connect"), false);
        cur = (cur + 1).min(n);
        out.op(format!("head h={cur}"), &format!("{label}/head-reconnect"), true);
        out.op("drain budget=900", &format!("{label}/drain"), true);
    }
    out.op("state", &format!("{label}/state"), false);
    out.op("reset", "reset", false);
}

impl Prop for C38 {
    fn id(&self) -> &'static str {
        "C38"
    }
    fn rule(&self) -> &'static str {
        "Scenarios of the real Syncer against simulated header-ex peers over a 160-header honest chain (header h is \
         161-h days old; sampling window 20..200 days; batch sizes 8..100): initial head 100..150 INSIDE the sampling \
         window (premise: trusted peers report a fresh head; an older one is refused as `stale-head`; sometimes after a \
         failed or a stale-but-fresh head answer), then 30-90 events: answers to a randomly chosen outstanding request of the real \
         HeaderSession — honest (55%), truncated, fork signed by the honest key, foreign chain, invalidated or re-signed \
         header at a random position, gap, reversed, one too many, empty, not-found, transport error — header-sub \
         announcements (adjacent, gap, stale), up to two disconnect/reconnects with a new network head, removals by \
         the pruner of heights satisfying C35's per-height condition (refused otherwise), and final drains with honest \
         answers under a step budget (exhausting it is a failure), one of them after further prunings; \
         size-threshold stress (tags big/comb.., thr/n700..): after convergence the pruner removes every second height of a \
         stretch below the head: 9 / 17 / 33 / 65 teeth (thorough: 8..70, 3 instances each) = that many pruned ranges and one more \
         stored range, batch sizes 7/8/9 (MIN_AMOUNT_PER_REQ), 63/64/65 (MAX_AMOUNT_PER_REQ), 127/128/129, 511/512/513, then adjacent and \
         gapped announcements, a bad then an honest answer, merging of pruned ranges, tail prunings, drains, a reconnect; a second \
         honest chain of 700 headers with batch size 513 (thorough: 511, 512, 513, 1000): 8 concurrent requests of 64 + the 9th, \
         mixed answers, then a comb of 33 (thorough up to 257) teeth.  After every event: stored ranges, subjective head, outstanding requests \
         and the stored heights whose header hash differs from the honest chain.  Non-trivial = every event after the \
         first accepted head; distinct = distinct (op, result) lines."
    }

    fn gen_ops(&mut self, rng: &mut Rng, tier: Tier, out: &mut Emitter) {
        let scenarios = if tier == Tier::Thorough { 160 } else { 12 };
        for sc in 0..scenarios {
            let sw = *rng.pick(&[20u64, 40, 60, 60, 100, 100, 200, 200]);
            let pw = if rng.chance(1, 6) { 0 } else { sw + 1 };
            let bs = *rng.pick(&[8u64, 16, 20, 32, 64, 64, 100, 100, 512]);
            let d = *rng.pick(&FORKS);
            // premise of C38 (hypothesis `HeadFresh` of the theorems that admit pruning): the network head
            // handed over by TRUSTED peers is inside the sampling window (it is seconds old in reality)
            let fresh_lo = (N + 1).saturating_sub(sw).max(1);
            let mut head = rng.range(fresh_lo.max(100).min(150), 150);
            out.op(format!("start n={N} sw={sw} pw={pw} bs={bs} d={d}"), "start", false);
            out.op("connect", "connect", false);
            if sc % 4 == 1 {
                out.op("head h=err", "head/err", false);
            }
            out.op(format!("head h={head}"), "head/first", true);
            let len = rng.usize(30, 90);
            let mut reconnects = 0;
            for _ in 0..len {
                match rng.below(100) {
                    0..=74 => {
                        let i = match rng.below(20) {
                            0..=11 => 0,
                            12..=16 => rng.range(1, 2),
                            _ => rng.below(8),
                        };
                        let k = match rng.below(100) {
                            0..=54 => "h".to_string(),
                            55..=62 => format!("t{}", rng.range(1, 12)),
                            63..=68 => "f".into(),
                            69..=73 => "g".into(),
                            74..=79 => format!("i{}", rng.below(16)),
                            80..=85 => format!("u{}", rng.below(16)),
                            86..=88 => "x".into(),
                            89..=90 => "r".into(),
                            91..=92 => "m".into(),
                            93..=94 => "z".into(),
                            95..=96 => "n".into(),
                            _ => "e".into(),
                        };
                        let tag = format!("ans/{}", &k[..1]);
                        out.op(format!("ans i={i} k={k}"), &tag, true);
                    }
                    75..=86 => {
                        let h = match rng.below(4) {
                            0 => head + 1,
                            1 => (head + rng.range(2, 6)).min(N),
                            2 => rng.range(1, head),
                            _ => (head + 1).min(N),
                        };
                        if h > head {
                            head = h.min(N);
                        }
                        out.op(format!("newhead h={}", h.min(N)), "newhead", true);
                    }
                    87..=89 if reconnects < 2 => {
                        reconnects += 1;
                        out.op("disconnect", "disconnect", true);
                        out.op("connect", "connect", false);
                        let h = match rng.below(3) {
                            // a stale (lower) head, still inside the sampling window
                            0 => rng.range(fresh_lo.min(head), head),
                            _ => (head + rng.below(5)).min(N),
                        };
                        out.op(format!("head h={h}"), "head/reconnect", true);
                        if h < head {
                            // a stale head is rejected when it is not insertable: answer again
                            out.op(format!("head h={}", (head + 1).min(N)), "head/after-stale", true);
                            head = (head + 1).min(N);
                        } else {
                            head = h;
                        }
                    }
                    90..=95 => {
                        // the pruner: the store tail (old after a batch straddled the window edge), or any height
                        let t = if rng.chance(3, 4) { "tail".to_string() } else { rng.range(1, head).to_string() };
                        let k = rng.usize(1, 3);
                        for _ in 0..k {
                            out.op(format!("prune h={t}"), "prune", true);
                        }
                    }
                    _ => out.op("state", "state", false),
                }
            }
            out.op("drain budget=600", "drain", true);
            // the pruner after convergence, then the syncer must stay put (C25) and the window stay full
            out.op("prune h=tail", "prune/after-drain", true);
            out.op("prune h=tail", "prune/after-drain", true);
            out.op(format!("newhead h={}", (head + 1).min(N)), "newhead/after-prune", true);
            out.op("drain budget=600", "drain", true);
            out.op("state", "state", false);
            out.op("reset", "reset", false);
        }
        // size-threshold stress (S10)
        let thorough = tier == Tier::Thorough;
        let combs: Vec<(u64, u64)> = if thorough {
            // (teeth of the comb, batch size)
            // (the slow-sync gate stops the syncer at about max(bs / 2, 50) + bs unsampled headers: a comb of k teeth
            // needs 2k + 3 stored heights, hence the large batch sizes for the large combs)
            vec![(8, 7), (9, 8), (9, 9), (16, 63), (17, 64), (17, 65), (32, 127), (33, 128), (33, 129), (64, 511), (65, 513), (70, 512)]
        } else {
            vec![(9, 9), (17, 65), (33, 128), (65, 512)]
        };
        for _ in 0..(if thorough { 3 } else { 1 }) {
            for &(k, bs) in &combs {
                let sw = if k <= 17 && rng.bool() { 60 } else { 200 };
                comb_scenario(rng, out, N, k, bs, sw, &format!("big/comb{k}"));
            }
        }
        // long chain: batches of 511 / 512 / 513 headers = 8 / 8 / 9 requests of MAX_AMOUNT_PER_REQ = 64
        // (MAX_CONCURRENT_REQS = 8), then a comb of 33 / 129 teeth
        let bigs: Vec<(u64, u64)> = if thorough { vec![(511, 33), (512, 129), (513, 65), (1000, 257)] } else { vec![(513, 33)] };
        for (bs, k) in bigs {
            comb_scenario(rng, out, BIG_N, k, bs, BIG_N + 100, &format!("thr/n700-bs{bs}"));
        }
    }

    fn result_tag(&self, line: &str, result: &str) -> Option<String> {
        match opname(line) {
            "head" | "prune" => Some(result.split(' ').next().unwrap_or("").to_string()),
            "connect" | "start" | "reset" => Some(result.to_string()),
            _ => Some(if result.ends_with("off=-") || result.contains("off=- ") { "on-chain".into() } else { "OFF-CHAIN".into() }),
        }
    }

    fn run(&mut self, line: &str) -> String {
        let op = opname(line);
        if op == "reset" {
            if let Some(ctx) = self.ctx.take() {
                ctx.syncer.stop();
                self.rt.block_on(async {
                    for _ in 0..50 {
                        tokio::task::yield_now().await;
                    }
                });
            }
            return "ok".into();
        }
        if op == "start" {
            let (Some(n), Some(sw), Some(pw), Some(bs), Some(d)) =
                (arg_u64(line, "n"), arg_u64(line, "sw"), arg_u64(line, "pw"), arg_u64(line, "bs"), arg_u64(line, "d"))
            else {
                return "bad-op".into();
            };
            if (n != N && n != BIG_N) || !FORKS.contains(&d) {
                return "bad-op".into();
            }
            CUR_N.store(n, Ordering::Relaxed);
            pool();
            let ctx = self.rt.block_on(async {
                let (p2p, handle) = mocked_p2p();
                let store = Arc::new(InMemoryStore::new());
                let (syncer, _events) = start_syncer(
                    &p2p,
                    store.clone(),
                    bs,
                    Duration::from_secs(sw * DAY + DAY / 2),
                    Duration::from_secs(pw * DAY + DAY / 2),
                );
                let mut ctx = Ctx {
                    d,
                    sw,
                    pw,
                    store,
                    syncer,
                    handle,
                    _p2p: p2p,
                    head_req: None,
                    outstanding: vec![],
                    connected_phase: false,
                    saw_init_header_sub: false,
                };
                ctx.settle().await;
                ctx
            });
            self.ctx = Some(ctx);
            return "ok".into();
        }
        let Some(ctx) = self.ctx.as_mut() else { return "bad-op".into() };
        self.rt.block_on(async {
            match op {
                "connect" => {
                    ctx.handle.set_peers(1, 1);
                    if !ctx.connected_phase && ctx.head_req.is_none() {
                        if ctx.wait_head_req(Duration::from_secs(5)).await { "headreq".into() } else { "timeout".to_string() }
                    } else {
                        ctx.settle().await;
                        "ok".into()
                    }
                }
                "head" => {
                    let Some(responder) = ctx.head_req.take() else { return "bad-op".to_string() };
                    let Some(v) = arg(line, "h") else { return "bad-op".to_string() };
                    // premise: a network head reported by TRUSTED peers is inside the sampling window (judged
                    // by its real time); a staler one is not an admissible event of this property — `stale-head`
                    if let Some(h) = v.parse::<u64>().ok().and_then(honest) {
                        let cutoff = (Time::now() - Duration::from_secs(ctx.sw * DAY + DAY / 2))
                            .unwrap_or_else(|_| Time::unix_epoch());
                        if h.time() <= cutoff {
                            ctx.head_req = Some(responder);
                            return "stale-head".to_string();
                        }
                    }
                    let res = match v.parse::<u64>().ok().and_then(honest) {
                        Some(h) => Ok(vec![h]),
                        None => Err(P2pError::HeaderEx(HeaderExError::OutboundFailure(OutboundFailure::Timeout))),
                    };
                    ctx.saw_init_header_sub = false;
                    let _ = responder.send(res);
                    ctx.settle().await;
                    if ctx.saw_init_header_sub {
                        ctx.connected_phase = true;
                        format!("accepted {}", ctx.state().await)
                    } else if ctx.wait_head_req(Duration::from_secs(8)).await {
                        format!("retry {}", ctx.state().await)
                    } else {
                        format!("stuck {}", ctx.state().await)
                    }
                }
                "ans" => {
                    let (Some(i), Some(k)) = (arg_u64(line, "i"), arg(line, "k")) else { return "bad-op".to_string() };
                    ctx.answer(i as usize, k).await;
                    ctx.state().await
                }
                "newhead" => {
                    let Some(h) = arg_u64(line, "h").and_then(honest) else { return "bad-op".to_string() };
                    ctx.handle.announce_new_head(h);
                    ctx.settle().await;
                    ctx.state().await
                }
                "disconnect" => {
                    ctx.handle.set_peers(0, 0);
                    ctx.settle().await;
                    if ctx.connected_phase {
                        ctx.outstanding.clear();
                    }
                    ctx.connected_phase = false;
                    ctx.state().await
                }
                "drain" => {
                    let Some(budget) = arg_u64(line, "budget") else { return "bad-op".to_string() };
                    let mut steps = 0;
                    while steps < budget && !ctx.outstanding.is_empty() {
                        ctx.answer(0, "h").await;
                        steps += 1;
                    }
                    format!("{} steps={steps}", ctx.state().await)
                }
                "prune" => {
                    let st = ctx.store.get_stored_header_ranges().await.unwrap();
                    let h = match arg(line, "h") {
                        Some("tail") => st.as_ref().first().map(|r| *r.start()),
                        Some(v) => v.parse::<u64>().ok(),
                        None => None,
                    };
                    let verdict = match h {
                        Some(h) if ctx.prune_safe(h).await => {
                            ctx.store.remove_height(h).await.expect("remove_height of a stored height");
                            "pruned"
                        }
                        _ => "refused",
                    };
                    ctx.settle().await;
                    format!("{verdict} {}", ctx.state().await)
                }
                "state" => {
                    ctx.settle().await;
                    ctx.state().await
                }
                _ => "bad-op".to_string(),
            }
        })
    }
}

fn main() {
    main_for(C38 { rt: tokio::runtime::Builder::new_current_thread().enable_time().build().unwrap(), ctx: None });
}

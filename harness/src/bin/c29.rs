//! C29 — Header-ex server answers every request correctly without crashing.
//!
//! Runs the REAL `HeaderExServerHandler` (through the cfg-guarded `serve` wrapper in
//! `node/src/p2p/header_ex/server.rs`) over a real `InMemoryStore` holding headers with gaps.
use std::sync::Arc;

use celestia_proto::p2p::pb::header_request::Data;
use celestia_proto::p2p::pb::{HeaderRequest, HeaderResponse, StatusCode};
use celestia_types::ExtendedHeader;
use celestia_types::test_utils::ExtendedHeaderGenerator;
use lumina_node::store::{InMemoryStore, Store, VerifiedExtendedHeaders};
use lumina_node::verif::p2p::header_ex::server as srv;
use verif_harness::*;

fn adler(b: &[u8]) -> u32 {
    let (mut a, mut s) = (1u32, 0u32);
    for &x in b {
        a = (a + x as u32) % 65521;
        s = (s + a) % 65521;
    }
    s * 65536 + a
}

fn body_digest(b: &[u8]) -> String {
    format!("{}-{}", b.len(), adler(b))
}

struct C29 {
    rt: tokio::runtime::Runtime,
    /// one honest chain, heights 1..=CHAIN
    chain: Vec<ExtendedHeader>,
    encoded: Vec<Vec<u8>>,
    store: Arc<InMemoryStore>,
}

const CHAIN: u64 = 700;
/// length of the generated chain; heights above `CHAIN` are used by the size-threshold phase only
const BIG_CHAIN: u64 = 2200;

fn encode(h: &ExtendedHeader) -> Vec<u8> {
    use tendermint_proto::Protobuf;
    <ExtendedHeader as Protobuf<celestia_proto::header::pb::ExtendedHeader>>::encode_vec(h.clone())
}

impl C29 {
    fn new() -> Self {
        let rt = tokio::runtime::Builder::new_current_thread().enable_time().build().unwrap();
        let mut g = ExtendedHeaderGenerator::new();
        let chain = g.next_many(BIG_CHAIN);
        let encoded = chain.iter().map(encode).collect();
        C29 { rt, chain, encoded, store: Arc::new(InMemoryStore::new()) }
    }

    fn entry(&self, h: u64) -> String {
        let hd = &self.chain[(h - 1) as usize];
        format!("{h}:{}:{}", hx(hd.hash().as_bytes()), body_digest(&self.encoded[(h - 1) as usize]))
    }

    /// `store e=..` line for the given inclusive height ranges (ascending, disjoint)
    fn store_line(&self, ranges: &[(u64, u64)]) -> String {
        let mut es = vec![];
        for &(a, b) in ranges {
            for h in a..=b {
                es.push(self.entry(h));
            }
        }
        format!("store e={}", if es.is_empty() { "-".to_string() } else { es.join(",") })
    }
}

fn show(rs: &[HeaderResponse]) -> String {
    let items: Vec<String> = rs
        .iter()
        .map(|r| {
            if r.status_code == i32::from(StatusCode::Ok) {
                format!("ok:{}", body_digest(&r.body))
            } else if r.status_code == i32::from(StatusCode::NotFound) && r.body.is_empty() {
                "nf".to_string()
            } else if r.status_code == i32::from(StatusCode::Invalid) && r.body.is_empty() {
                "inv".to_string()
            } else {
                format!("other:{}:{}", r.status_code, r.body.len())
            }
        })
        .collect();
    format!("resp {}", items.join(","))
}

fn parse_req(line: &str) -> Option<HeaderRequest> {
    let amount = arg_u64(line, "a")?;
    let d = arg(line, "d")?;
    let data = if d == "none" {
        None
    } else if let Some(o) = d.strip_prefix("o:") {
        Some(Data::Origin(o.parse().ok()?))
    } else if let Some(h) = d.strip_prefix("h:") {
        Some(Data::Hash(unhx(h)?))
    } else {
        return None;
    };
    Some(HeaderRequest { amount, data })
}

const AMOUNTS: &[u64] = &[0, 1, 2, 3, 64, 511, 512, 513, 1000, u32::MAX as u64, 1 << 32, (1 << 63) - 1, 1 << 63, u64::MAX - 1, u64::MAX];

fn gen_ranges(rng: &mut Rng, max: u64) -> Vec<(u64, u64)> {
    let mut v = vec![];
    let mut h = rng.range(1, 5);
    while h <= max {
        let len = match rng.below(5) {
            0 => 1,
            1 => rng.range(1, 4),
            2 => rng.range(1, 40),
            _ => rng.range(1, 12),
        };
        let end = (h + len - 1).min(max);
        v.push((h, end));
        h = end + 1 + rng.range(1, 6);
    }
    v
}

impl Prop for C29 {
    fn id(&self) -> &'static str {
        "C29"
    }
    fn rule(&self) -> &'static str {
        "stores: InMemoryStore filled from one generated chain (1..700) with random gaps, one contiguous 1..700 store \
         (so that the 512 cap is reached), one empty store; requests: origin x amount over stored heights, gap edges, \
         head, 0, heights beyond the head, u64::MAX-512..u64::MAX, amounts 0,1,2,511,512,513,2^32,2^63,u64::MAX; hash \
         requests with stored/unknown/short/long hashes and amounts 0,1,2; requests without data; requests after stop; \
         size-threshold stress (tags big/.., thr/..; chain extended to 2200 headers): stores with 9 / 17 / 33 / 65 ranges \
         (thorough: 8..257, 3 each) where EVERY range gets requests with amount = run length -1/+0/+1, 513 from its last \
         height, below and above it, head / beyond-head / hash requests near the top; one range of exactly 63/64/65 heights \
         with amounts 62..66; a store with runs of exactly 511, 512, 513, 63, 64, 65 and 462 heights at heights up to 2200 \
         with amounts run-1/run/run+1/511/512/513/u64::MAX and origins that leave exactly 63/64/65/511/512/513 heights; \
         one contiguous store 1..2200 with origins around 64, 512, 1024, head-512 and amounts 63..65, 511..513, 1000..2200. \
         Non-trivial = every request against a non-empty store except no-data requests; distinct = distinct (op, result)."
    }
    fn gen_ops(&mut self, rng: &mut Rng, tier: Tier, out: &mut Emitter) {
        let thorough = tier == Tier::Thorough;
        let mut stores: Vec<Vec<(u64, u64)>> = vec![vec![], vec![(1, CHAIN)], vec![(1, 1)], vec![(3, 520), (522, 600)]];
        for _ in 0..(if thorough { 25 } else { 4 }) {
            let max = *rng.pick(&[12u64, 40, 120]);
            stores.push(gen_ranges(rng, max));
        }
        for ranges in stores {
            out.op(self.store_line(&ranges), "store", false);
            let nonempty = !ranges.is_empty();
            let head = ranges.last().map(|r| r.1).unwrap_or(0);
            // interesting origins: range edges +-1, 0, beyond the head, near u64::MAX
            let mut origins: Vec<u64> = vec![0, 1, 2, head, head + 1, head + 2, 1 << 32, (1 << 63) - 1, 1 << 63];
            for d in [0u64, 1, 2, 511, 512, 513, 514] {
                origins.push(u64::MAX - d);
            }
            for &(a, b) in ranges.iter().take(12) {
                origins.extend([a.saturating_sub(1), a, a + 1, b, b + 1]);
            }
            origins.sort();
            origins.dedup();
            for &o in &origins {
                let amounts: Vec<u64> = if thorough || o >= u64::MAX - 600 {
                    AMOUNTS.to_vec()
                } else {
                    let mut v = vec![0, 1, 2, 512, 513, u64::MAX];
                    v.push(*rng.pick(AMOUNTS));
                    v.push(rng.range(1, 30));
                    v
                };
                for a in amounts {
                    out.op(format!("req a={a} d=o:{o}"), if o == 0 { "req/origin-0" } else { "req/height" }, nonempty);
                }
            }
            // exact run lengths: amount around the distance to the next gap
            for &(a, b) in ranges.iter().take(20) {
                let o = rng.range(a, b);
                let run = b - o + 1;
                for am in [run.saturating_sub(1).max(1), run, run + 1] {
                    out.op(format!("req a={am} d=o:{o}"), "req/height-run-edge", true);
                }
            }
            for _ in 0..(if thorough { 200 } else { 40 }) {
                let o = if rng.chance(4, 5) { rng.range(1, head + 3) } else { rng.next_u64() };
                let a = if rng.chance(4, 5) { rng.range(1, 600) } else { *rng.pick(AMOUNTS) };
                out.op(format!("req a={a} d=o:{o}"), "req/height-random", nonempty);
            }
            // hash requests
            let mut hashes: Vec<Vec<u8>> = vec![vec![], vec![0; 31], vec![0; 32], vec![0xff; 33], rng.bytes(32)];
            for &(a, b) in ranges.iter().take(6) {
                hashes.push(self.chain[(a - 1) as usize].hash().as_bytes().to_vec());
                hashes.push(self.chain[(b - 1) as usize].hash().as_bytes().to_vec());
                if b < CHAIN {
                    // a header of the chain that is NOT stored
                    hashes.push(self.chain[b as usize].hash().as_bytes().to_vec());
                }
                let mut t = self.chain[(a - 1) as usize].hash().as_bytes().to_vec();
                t.truncate(31);
                hashes.push(t);
            }
            for h in hashes {
                for a in [0u64, 1, 2, u64::MAX] {
                    out.op(format!("req a={a} d=h:{}", hx(&h)), "req/hash", nonempty);
                }
            }
            for a in [0u64, 1, 2, 512, u64::MAX] {
                out.op(format!("req a={a} d=none"), "req/no-data", false);
            }
            out.op(format!("req a=1 d=o:{} stop=1", head.max(1)), "req/stopped", nonempty);
            out.op("req a=1 d=o:0 stop=1".to_string(), "req/stopped", nonempty);
        }
        // size-threshold stress (S10): stores with MANY gaps, run lengths 63/64/65 and 511/512/513, 2200 contiguous
        out.op("reset", "reset", false);
        let ks: Vec<u64> = if thorough { vec![8, 9, 16, 17, 32, 33, 64, 65, 129, 257] } else { vec![9, 17, 33, 65] };
        for (ki, &k) in ks.iter().enumerate() {
            for rep in 0..(if thorough { 3 } else { 1 }) {
                // k ranges of 1..6 heights, gaps of 1..3, one range of exactly 63 / 64 / 65 heights
                let special = rng.below(k);
                let special_len = [63u64, 64, 65][(ki + rep) % 3];
                let mut ranges = vec![];
                let mut h = rng.range(1, 4);
                for i in 0..k {
                    let len = if i == special { special_len } else if rng.bool() { 1 } else { rng.range(1, 6) };
                    ranges.push((h, h + len - 1));
                    h += len + rng.range(1, 3);
                }
                assert!(ranges.last().unwrap().1 <= BIG_CHAIN);
                out.op(self.store_line(&ranges), &format!("store/big-{k}r"), false);
                let head = ranges.last().unwrap().1;
                // EVERY range (not only the first 12): exact run lengths +-1, the cap, gap edges
                for &(a, b) in &ranges {
                    let run = b - a + 1;
                    let t = format!("big/{k}r");
                    out.op(format!("req a={run} d=o:{a}"), &format!("{t}/run"), true);
                    out.op(format!("req a={} d=o:{a}", run + 1), &format!("{t}/run+1"), true);
                    out.op(format!("req a={} d=o:{a}", (run - 1).max(1)), &format!("{t}/run-1"), true);
                    out.op(format!("req a=513 d=o:{b}"), &format!("{t}/last-of-range"), true);
                    out.op(format!("req a=2 d=o:{}", a - 1), &format!("{t}/below-range"), true);
                    out.op(format!("req a={} d=o:{}", *rng.pick(&[1u64, 64, 512, u64::MAX]), b + 1), &format!("{t}/above-range"), true);
                    if run >= 63 {
                        for am in [62u64, 63, 64, 65, 66, 512] {
                            out.op(format!("req a={am} d=o:{a}"), &format!("thr/run{run}-amount{am}"), true);
                            out.op(format!("req a={am} d=o:{}", a + 1), &format!("thr/run{}-amount{am}", run - 1), true);
                        }
                    }
                }
                out.op("req a=1 d=o:0".to_string(), &format!("big/{k}r/head"), true);
                out.op(format!("req a=2 d=o:{}", head + 1), &format!("big/{k}r/beyond-head"), true);
                for &(a, b) in ranges.iter().rev().take(3) {
                    out.op(format!("req a=1 d=h:{}", hx(self.chain[(b - 1) as usize].hash().as_bytes())), &format!("big/{k}r/hash-stored"), true);
                    out.op(format!("req a=1 d=h:{}", hx(self.chain[(a - 2) as usize].hash().as_bytes())), &format!("big/{k}r/hash-in-gap"), true);
                }
            }
        }
        // run lengths exactly 511 / 512 / 513 (MAX_HEADERS_AMOUNT_RESPONSE = 512) and 63 / 64 / 65, large heights
        let thr_ranges: Vec<(u64, u64)> =
            vec![(5, 515), (517, 1028), (1030, 1542), (1544, 1606), (1608, 1671), (1673, 1737), (1739, BIG_CHAIN)];
        out.op(self.store_line(&thr_ranges), "store/thr-runs", false);
        for &(a, b) in &thr_ranges {
            let run = b - a + 1;
            let mut ams = vec![run - 1, run, run + 1, 511, 512, 513, u64::MAX];
            ams.sort();
            ams.dedup();
            for am in ams {
                out.op(format!("req a={am} d=o:{a}"), &format!("thr/run{}-amount", run.min(999)), true);
                if thorough || rng.chance(1, 3) {
                    out.op(format!("req a={am} d=o:{}", a + 1), &format!("thr/run{}-amount", (run - 1).min(999)), true);
                }
            }
            // exactly 511 / 512 / 513 heights left up to the end of the range
            for left in [63u64, 64, 65, 511, 512, 513] {
                if left <= run {
                    let am = if left < 100 { 64 } else { *rng.pick(&[512u64, 513, 1000]) };
                    out.op(format!("req a={am} d=o:{}", b + 1 - left), &format!("thr/left{left}-amount{am}"), true);
                }
            }
        }
        // one contiguous range of 2200 heights
        out.op(self.store_line(&[(1, BIG_CHAIN)]), "store/long2200", false);
        let b = BIG_CHAIN;
        let origins = [1u64, 2, 63, 64, 65, 511, 512, 513, 1024, 1025, b - 513, b - 512, b - 511, b - 510, b - 64, b - 63, b - 1, b, b + 1];
        let all_am = [63u64, 64, 65, 511, 512, 513, 1000, 2048, 2200, u64::MAX];
        for (oi, o) in origins.into_iter().enumerate() {
            // (each answer carries up to 512 headers: quick takes every second origin and 3 amounts)
            if !thorough && oi % 2 == 1 {
                continue;
            }
            let ams: Vec<u64> = if thorough { all_am.to_vec() } else { vec![512, 513, *rng.pick(&all_am)] };
            for am in ams {
                out.op(format!("req a={am} d=o:{o}"), "big/long2200/req", true);
            }
        }
        out.op("req a=1 d=o:0".to_string(), "big/long2200/head", true);
    }

    fn run(&mut self, line: &str) -> String {
        match opname(line) {
            "reset" => {
                self.store = Arc::new(InMemoryStore::new());
                "ok".into()
            }
            "store" => {
                let Some(e) = arg(line, "e") else { return "bad-op".into() };
                let store = InMemoryStore::new();
                let mut n = 0;
                if e != "-" {
                    // consecutive heights form one inserted range
                    let heights: Vec<u64> = e.split(',').filter_map(|t| t.split(':').next()?.parse().ok()).collect();
                    let mut i = 0;
                    while i < heights.len() {
                        let mut j = i;
                        while j + 1 < heights.len() && heights[j + 1] == heights[j] + 1 {
                            j += 1;
                        }
                        let hs: Vec<ExtendedHeader> =
                            (heights[i]..=heights[j]).map(|h| self.chain[(h - 1) as usize].clone()).collect();
                        n += hs.len();
                        let v = unsafe { VerifiedExtendedHeaders::new_unchecked(hs) };
                        if let Err(e) = self.rt.block_on(store.insert(v)) {
                            return format!("insert-error {e}");
                        }
                        i = j + 1;
                    }
                }
                self.store = Arc::new(store);
                format!("ok {n}")
            }
            "req" => {
                let Some(r) = parse_req(line) else { return "bad-op".into() };
                let stop = arg(line, "stop") == Some("1");
                let sent = self.rt.block_on(srv::serve(self.store.clone(), vec![r], stop));
                match sent.as_slice() {
                    [] => "nothing".into(),
                    [(0, rs)] => show(rs),
                    _ => format!("unexpected-sends {}", sent.len()),
                }
            }
            _ => "bad-op".into(),
        }
    }

    fn result_tag(&self, _line: &str, result: &str) -> Option<String> {
        let mut w = result.split(' ');
        let first = w.next().unwrap_or("");
        if first == "resp" {
            let l = w.next().unwrap_or("");
            let n = l.split(',').count();
            let kind = if l.starts_with("ok") { "ok" } else { l };
            Some(format!("{kind}x{}", if n >= 512 { "512".to_string() } else if n > 1 { "n".to_string() } else { "1".to_string() }))
        } else {
            Some(first.to_string())
        }
    }
}

fn main() {
    main_for(C29::new());
}

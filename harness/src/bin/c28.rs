//! C28 — Header-ex client accepts only well-formed, validated responses.
//!
//! Runs the REAL `decode_and_verify_responses` (private; hook `verif::p2p::header_ex::client`)
//! and `HeaderRequestExt::{is_valid,is_head_request}` on requests × response lists built from a
//! pool of real encoded `ExtendedHeader`s.  Response bodies are named by pool id in the op line;
//! the validation oracle written into the line (`id:height` / `id:x`) is re-checked against
//! `ExtendedHeader::decode_and_validate` of the actual body on every run.
use std::collections::HashMap;

use celestia_proto::p2p::pb::header_request::Data;
use celestia_proto::p2p::pb::{HeaderRequest, HeaderResponse};
use celestia_types::ExtendedHeader;
use celestia_types::test_utils::{ExtendedHeaderGenerator, invalidate};
use lumina_node::verif::p2p::header_ex::{client, utils};
use tendermint_proto::Protobuf;
use verif_harness::*;

const N: u64 = 60;

struct PoolEntry {
    body: Vec<u8>,
    /// `Some(height)` iff decode_and_validate(body) succeeds
    oracle: Option<u64>,
    hash: Option<Vec<u8>>,
}

struct Pool {
    entries: HashMap<u64, PoolEntry>,
    by_hash: HashMap<Vec<u8>, u64>,
    /// first height of the high chain (ids 501..)
    high_start: Option<u64>,
}

fn entry_of_body(body: Vec<u8>) -> PoolEntry {
    match ExtendedHeader::decode_and_validate(&body) {
        Ok(h) => PoolEntry { body, oracle: Some(h.height()), hash: Some(h.hash().as_bytes().to_vec()) },
        Err(_) => PoolEntry { body, oracle: None, hash: None },
    }
}

fn build_pool(rng: &mut Rng) -> Pool {
    let mut entries = HashMap::new();
    let mut gen_a = ExtendedHeaderGenerator::new();
    let chain_a = gen_a.next_many(N);
    let mut gen_b = ExtendedHeaderGenerator::new();
    let chain_b = gen_b.next_many(N);
    for (i, h) in chain_a.iter().enumerate() {
        let i = i as u64;
        entries.insert(1 + i, entry_of_body(h.clone().encode_vec()));
        entries.insert(201 + i, entry_of_body(gen_a.another_of(h).encode_vec()));
        let mut inv = h.clone();
        invalidate(&mut inv);
        entries.insert(301 + i, entry_of_body(inv.encode_vec()));
    }
    for (i, h) in chain_b.iter().enumerate() {
        entries.insert(101 + i as u64, entry_of_body(h.clone().encode_vec()));
    }
    entries.insert(400, entry_of_body(vec![]));
    for i in 0..20u64 {
        let n = rng.usize(1, 300);
        entries.insert(401 + i, entry_of_body(rng.bytes(n)));
    }
    // a chain at very large heights (tendermint heights are bounded by i64::MAX)
    let high_start = (i64::MAX as u64) - 30;
    let high = std::panic::catch_unwind(|| ExtendedHeaderGenerator::new_from_height(high_start).next_many(10));
    let high_start = match high {
        Ok(hs) => {
            for (i, h) in hs.iter().enumerate() {
                entries.insert(501 + i as u64, entry_of_body(h.clone().encode_vec()));
            }
            Some(high_start)
        }
        Err(_) => None,
    };
    // truncated encodings of valid headers
    for i in 0..10u64 {
        let mut b = chain_a[i as usize].clone().encode_vec();
        let cut = rng.usize(1, b.len() - 1);
        b.truncate(cut);
        entries.insert(601 + i, entry_of_body(b));
    }
    let mut by_hash = HashMap::new();
    for (id, e) in &entries {
        if let Some(h) = &e.hash {
            assert!(by_hash.insert(h.clone(), *id).is_none(), "pool hashes must be pairwise distinct");
        }
    }
    Pool { entries, by_hash, high_start }
}

struct C28 {
    pool: Pool,
    rt: tokio::runtime::Runtime,
}

fn err_name<E: std::fmt::Debug>(e: &E) -> String {
    let s = format!("{e:?}");
    s.split(|c: char| !c.is_alphanumeric()).next().unwrap_or("?").to_string()
}

impl C28 {
    fn item(&self, status: i64, id: u64) -> String {
        match self.pool.entries.get(&id).and_then(|e| e.oracle) {
            Some(h) => format!("{status}:{id}:{h}"),
            None => format!("{status}:{id}:x"),
        }
    }

    fn parse_req(&self, line: &str) -> Option<HeaderRequest> {
        let amount = arg_u64(line, "amount")?;
        let data = match arg(line, "kind")? {
            "none" => None,
            "origin" => Some(Data::Origin(arg_u64(line, "origin")?)),
            "hash" => {
                let h = arg(line, "hash")?;
                if let Some(id) = h.strip_prefix('p') {
                    let id: u64 = id.parse().ok()?;
                    Some(Data::Hash(self.pool.entries.get(&id)?.hash.clone()?))
                } else {
                    let raw = unhx(h.strip_prefix('r')?)?;
                    if self.pool.by_hash.contains_key(&raw) {
                        return None;
                    }
                    Some(Data::Hash(raw))
                }
            }
            _ => return None,
        };
        Some(HeaderRequest { data, amount })
    }

    /// `Err(true)` = oracle in the line disagrees with the real body
    fn parse_resps(&self, line: &str) -> Result<Vec<HeaderResponse>, bool> {
        let s = arg(line, "resps").ok_or(false)?;
        if s == "-" {
            return Ok(vec![]);
        }
        let mut out = vec![];
        for it in s.split(',') {
            let p: Vec<&str> = it.split(':').collect();
            if p.len() != 3 {
                return Err(false);
            }
            let status: i32 = p[0].parse().map_err(|_| false)?;
            let id: u64 = p[1].parse().map_err(|_| false)?;
            let e = self.pool.entries.get(&id).ok_or(false)?;
            let claimed = if p[2] == "x" { None } else { Some(p[2].parse::<u64>().map_err(|_| false)?) };
            if claimed != e.oracle {
                return Err(true);
            }
            out.push(HeaderResponse { body: e.body.clone(), status_code: status });
        }
        Ok(out)
    }
}

impl Prop for C28 {
    fn id(&self) -> &'static str {
        "C28"
    }
    fn rule(&self) -> &'static str {
        "decode_and_verify_responses on height / head / hash / data-less requests (amounts 0..70, origins incl. 0, \
         heights near i64::MAX and u64::MAX) x response lists of 0..70 entries built from real encoded headers: \
         perfect runs, shuffled, gapped, duplicated, other-chain and same-height-other-hash headers, invalidated \
         headers, garbage/truncated/empty bodies, NOT_FOUND/INVALID/unknown status codes at every position, \
         oversized lists; plus is_valid/is_head_request over kinds x amounts x hash lengths. The validation oracle in \
         each line is re-checked against ExtendedHeader::decode_and_validate. Non-trivial = every dav case with at \
         least one entry; distinct = distinct (op, result) lines."
    }
    fn gen_ops(&mut self, rng: &mut Rng, tier: Tier, out: &mut Emitter) {
        let rounds = if tier == Tier::Thorough { 4000 } else { 220 };
        // is_valid / is_head_request
        for kind in ["none", "origin", "hash"] {
            for amount in [0u64, 1, 2, 3, 64, 512, 513, u64::MAX] {
                match kind {
                    "origin" => {
                        for origin in [0u64, 1, 2, u64::MAX] {
                            out.op(format!("valid kind=origin origin={origin} amount={amount}"), "valid/origin", true);
                        }
                    }
                    "hash" => {
                        for len in [0usize, 1, 31, 32, 33, 64] {
                            out.op(format!("valid kind=hash hash=r{} amount={amount}", hx(&rng.bytes(len))), "valid/hash", true);
                        }
                        out.op(format!("valid kind=hash hash=p{} amount={amount}", rng.range(1, N)), "valid/hash", true);
                    }
                    _ => out.op(format!("valid kind=none amount={amount}"), "valid/none", true),
                }
            }
        }
        let status_bad = [0i64, 2, 3, -1, 7, 2, 0];
        for _ in 0..rounds {
            // ---- height requests
            let n = rng.range(1, 12);
            let s = rng.range(1, N - n);
            let run: Vec<u64> = (s..s + n).collect();
            let amount = n + *rng.pick(&[0u64, 0, 1, 5]);
            let items = |c: &C28, ids: &[u64]| ids.iter().map(|&i| c.item(1, i)).collect::<Vec<_>>();
            let mk = |origin: u64, amount: u64, it: Vec<String>| {
                format!("dav kind=origin origin={origin} amount={amount} resps={}", if it.is_empty() { "-".into() } else { it.join(",") })
            };
            out.op(mk(s, amount, items(self, &run)), "height/perfect", true);
            {
                let mut sh = run.clone();
                rng.shuffle(&mut sh);
                out.op(mk(s, amount, items(self, &sh)), "height/shuffled", true);
            }
            if n >= 2 {
                let mut g = run.clone();
                g.remove(rng.usize(0, g.len() - 1));
                out.op(mk(s, amount, items(self, &g)), "height/gapped-or-wrong-start", true);
                let mut d = run.clone();
                let i = rng.usize(0, d.len() - 1);
                d.insert(i, d[i]);
                out.op(mk(s, amount + 1, items(self, &d)), "height/duplicated", true);
            }
            {
                // one entry replaced: other chain / other hash / invalidated / garbage / truncated / empty
                let mut it = items(self, &run);
                let i = rng.usize(0, it.len() - 1);
                let h = run[i];
                let (rep, tag) = match rng.below(7) {
                    0 => (self.item(1, 100 + h), "height/other-chain-entry"),
                    1 => (self.item(1, 200 + h), "height/other-hash-entry"),
                    2 => (self.item(1, 300 + h), "height/invalidated-entry"),
                    3 => (self.item(1, 401 + rng.below(20)), "height/garbage-entry"),
                    4 => (self.item(1, 601 + rng.below(10)), "height/truncated-entry"),
                    5 => (self.item(1, 400), "height/empty-body-entry"),
                    _ => (self.item(*rng.pick(&status_bad), h), "height/bad-status-entry"),
                };
                it[i] = rep;
                out.op(mk(s, amount, it), tag, true);
            }
            // wrong origin, oversized, amount 0
            out.op(mk(s + *rng.pick(&[1u64, 2, 100]), amount, items(self, &run)), "height/wrong-origin", true);
            out.op(mk(s.saturating_sub(1).max(1), amount, items(self, &run)), "height/wrong-origin", true);
            out.op(mk(s, n - 1, items(self, &run)), "height/oversized", true);
            out.op(mk(s, 0, items(self, &run[..1])), "height/amount-0", true);
            if rng.chance(1, 10) {
                out.op(mk(s, amount, vec![]), "height/empty-list", false);
            }
            // origins near u64::MAX (the checked `start + n`)
            {
                let k = rng.range(0, n + 1);
                out.op(mk(u64::MAX - k, amount, items(self, &run)), "height/origin-near-u64-max", true);
                out.op(mk(u64::MAX, 1, items(self, &run[..1])), "height/origin-u64-max", true);
            }
            // very large real heights
            if let Some(hs) = self.pool.high_start {
                let m = rng.range(1, 5);
                let off = rng.range(0, 10 - m);
                let ids: Vec<u64> = (501 + off..501 + off + m).collect();
                let origin = hs + off + *rng.pick(&[0u64, 0, 0, 1]);
                out.op(mk(origin, m, items(self, &ids)), "height/near-i64-max", true);
            }
            // ---- head requests
            {
                let m = rng.range(1, 3);
                let ids: Vec<u64> = (0..m).map(|_| *rng.pick(&[1u64, 2, 101, 201, 301, 400, 401])).collect();
                let amount = *rng.pick(&[1u64, 1, 2, 3]);
                out.op(mk(0, amount, items(self, &ids)), "head", true);
                out.op(mk(0, 1, vec![self.item(*rng.pick(&status_bad), 1)]), "head/bad-status", true);
            }
            // ---- hash requests
            {
                let id = *rng.pick(&[1u64, 5, 101, 201]) + rng.below(3);
                let amount = *rng.pick(&[1u64, 1, 2]);
                let mkh = |hash: String, amount: u64, it: Vec<String>| {
                    format!("dav kind=hash hash={hash} amount={amount} resps={}", if it.is_empty() { "-".into() } else { it.join(",") })
                };
                out.op(mkh(format!("p{id}"), amount, vec![self.item(1, id)]), "hash/matching", true);
                let other = *rng.pick(&[id + 1, 200 + (id % 100).max(1), 100 + (id % 100).max(1), 300 + (id % 100).max(1), 400]);
                out.op(mkh(format!("p{id}"), amount, vec![self.item(1, other)]), "hash/other-header", true);
                out.op(mkh(format!("p{id}"), 2, vec![self.item(1, id), self.item(1, id + 1)]), "hash/two-entries", true);
                out.op(mkh(format!("p{id}"), amount, vec![self.item(*rng.pick(&status_bad), id)]), "hash/bad-status", true);
                let len = *rng.pick(&[0usize, 31, 32, 32, 33]);
                out.op(mkh(format!("r{}", hx(&rng.bytes(len))), amount, vec![self.item(1, id)]), "hash/raw", true);
            }
            // ---- no data
            out.op(
                format!("dav kind=none amount={} resps={}", rng.range(0, 3), self.item(1, rng.range(1, N))),
                "none",
                true,
            );
            // ---- fully random
            {
                let mmax = if rng.chance(1, 20) { 70 } else { 8 };
                let m = rng.range(0, mmax);
                let it: Vec<String> = (0..m)
                    .map(|_| {
                        let id = match rng.below(8) {
                            0 => 100 + rng.range(1, N),
                            1 => 200 + rng.range(1, N),
                            2 => 300 + rng.range(1, N),
                            3 => 400 + rng.below(21),
                            _ => rng.range(1, 12),
                        };
                        let st = if rng.chance(1, 6) { *rng.pick(&status_bad) } else { 1 };
                        self.item(st, id)
                    })
                    .collect();
                let ro = rng.range(1, 12);
                let origin = *rng.pick(&[0u64, 1, 2, 3, u64::MAX, u64::MAX - 1, ro]);
                out.op(mk(origin, rng.range(0, 9), it), "random", m > 0);
            }
        }
    }
    fn run(&mut self, line: &str) -> String {
        match opname(line) {
            "reset" => "ok".into(),
            "valid" => match self.parse_req(line) {
                Some(req) => format!("valid={} head={}", utils::is_valid(&req), utils::is_head_request(&req)),
                None => "bad-op".into(),
            },
            "dav" => {
                let Some(req) = self.parse_req(line) else { return "bad-op".into() };
                let resps = match self.parse_resps(line) {
                    Ok(r) => r,
                    Err(true) => return "bad-oracle".into(),
                    Err(false) => return "bad-op".into(),
                };
                let res = self.rt.block_on(client::decode_and_verify(&req, &resps));
                match res {
                    Ok(hdrs) => {
                        let ids: Vec<String> = hdrs
                            .iter()
                            .map(|h| match self.pool.by_hash.get(h.hash().as_bytes()) {
                                Some(id) => id.to_string(),
                                None => "0".to_string(),
                            })
                            .collect();
                        format!("ok {}", if ids.is_empty() { "-".to_string() } else { ids.join(",") })
                    }
                    Err(e) => format!("err {}", err_name(&e)),
                }
            }
            _ => "bad-op".into(),
        }
    }
}

fn main() {
    // the pool is rebuilt by every process; op lines name bodies by id only
    let mut prng = Rng::new(0xC28);
    let pool = build_pool(&mut prng);
    let rt = tokio::runtime::Builder::new_current_thread().build().unwrap();
    main_for(C28 { pool, rt });
}

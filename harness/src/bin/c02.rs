//! C02 — Header chain verification accepts exactly linked successors.
//!
//! ops (every header is spelled out on the line: header fields, commit, validator set):
//!   verify                now=<ns> t.<header> u.<header> bits=<oracle bits of u's commit under t's set>
//!   verify_adjacent       same
//!   verify_range          now=<ns> n=<k> 0.<header> 1.<header> … bits=<bits of header 1's commit under header 0's set>
//!   verify_adjacent_range same (header 0 is the trusted one)
//!   verified              same, `VerifiedExtendedHeaders::try_from(vec![0, 1, …])`
//! result: `ok bits=…` | `err <kind> … bits=…` | `panic`
//!
//! Clock: `ExtendedHeader::verify` reads `Time::now()` itself.  The line carries the nominal
//! clock value `now` the header times were generated against; `run` reads the real clock once,
//! and shifts the `time` field of every header of the op by (real now − nominal now) before
//! calling the real code.  `verify*` never recomputes hashes and vote sign bytes do not contain
//! the header time, so the shift changes nothing else.  Generated times keep ≥ 1 s distance from
//! the `now + 10 s` boundary.
#[path = "../consensus_e.rs"]
mod consensus_e;

use celestia_types::ExtendedHeader;
use consensus_e::*;
use lumina_node::store::VerifiedExtendedHeaders;
use tendermint::block::{CommitSig, Id as BlockId, parts};
use tendermint::validator::Set;
use tendermint::{Hash, Time};
use verif_harness::*;

struct C02;

const NOW: i128 = 1_790_000_000_000_000_000;
const SEC: i128 = 1_000_000_000;

fn h32(rng: &mut Rng) -> Hash {
    Hash::Sha256(rng.bytes(32).try_into().unwrap())
}

fn gen_powers(rng: &mut Rng, n: usize) -> Vec<u64> {
    match rng.below(4) {
        0 => vec![1; n],
        1 => (0..n).map(|_| rng.range(1, 10)).collect(),
        2 => {
            let mut p: Vec<u64> = (0..n).map(|_| rng.range(1, 20)).collect();
            let s: u64 = p.iter().sum();
            p[0] += (3 - s % 3) % 3;
            p
        }
        _ => (0..n).map(|_| rng.range(1, 1_000_000)).collect(),
    }
}

/// validator-set rotation with partial overlap
fn rotate(rng: &mut Rng, ps: &[Party]) -> Vec<Party> {
    let mut v = ps.to_vec();
    for _ in 0..rng.range(1, 3) {
        match rng.below(5) {
            0 if v.len() < 10 => {
                let p = rng.range(1, 20);
                v.push(new_party(rng, p));
            }
            1 if v.len() > 1 => {
                let i = rng.usize(0, v.len() - 1);
                v.remove(i);
            }
            2 => {
                let i = rng.usize(0, v.len() - 1);
                let p = rng.range(1, 20);
                v[i] = new_party(rng, p);
            }
            3 => {
                let i = rng.usize(0, v.len() - 1);
                v[i].val.power = rng.range(1, 30);
            }
            _ => {
                // replace most of the set
                let keep = rng.usize(0, v.len() / 2);
                let n = v.len();
                for x in v.iter_mut().take(n).skip(keep) {
                    let p = rng.range(1, 20);
                    *x = new_party(rng, p);
                }
            }
        }
    }
    v
}

struct Chain {
    headers: Vec<ExtendedHeader>,
    sets: Vec<(Vec<Party>, Set)>,
}

/// honest chain of `len` headers starting at `start` (> 1 ⇒ the first header names a random parent)
fn build_chain(rng: &mut Rng, chain: &str, start: u64, len: usize, rotating: bool, from: Option<(&ExtendedHeader, &(Vec<Party>, Set))>) -> Chain {
    let n = rng.usize(1, 8);
    let mut parties: Vec<Party> = match from {
        Some((_, (ps, _))) => ps.clone(),
        None => gen_powers(rng, n).into_iter().map(|p| new_party(rng, p)).collect(),
    };
    let mut sets = vec![];
    for i in 0..=len {
        if i > 0 && rotating && rng.chance(1, 2) {
            parties = rotate(rng, &parties);
        }
        sets.push(set_of_parties(&parties));
    }
    let mut headers: Vec<ExtendedHeader> = vec![];
    let base = match from {
        Some((h, _)) => h.header.time.unix_timestamp_nanos(),
        None => NOW - 3600 * SEC,
    };
    for i in 0..len {
        let height = start + i as u64;
        let lbi = if let Some(prev) = headers.last() {
            Some(prev.commit.block_id)
        } else if let Some((h, _)) = from {
            Some(h.commit.block_id)
        } else if height == 1 {
            None
        } else {
            Some(BlockId { hash: h32(rng), part_set_header: parts::Header::new(1, h32(rng)).unwrap() })
        };
        let (ps, set) = &sets[i];
        let next = &sets[i + 1].1;
        // signers: everybody, or a > 2/3 prefix in stored (power-descending) order
        let total: u64 = set.total_voting_power().value();
        let all = rng.bool();
        let mut acc = 0u64;
        let mut upto = ps.len();
        for (k, p) in ps.iter().enumerate() {
            acc += p.val.power;
            if 3 * acc as u128 > 2 * total as u128 {
                upto = k + 1;
                break;
            }
        }
        let t = base + (i as i128 + 1) * SEC + rng.below(500_000_000) as i128;
        let eh = make_header(rng, chain, height, t, 1, lbi, ps, set, next, empty_dah(), &|k| all || k < upto);
        headers.push(eh);
    }
    Chain { headers, sets }
}

fn bits_for(tr: &ExtendedHeader, un: &ExtendedHeader) -> Vec<u8> {
    trusting_bits(&tr.validator_set, &un.commit, tr.chain_id())
}

fn ibits_for(tr: &ExtendedHeader, un: &ExtendedHeader) -> Vec<u8> {
    trusting_ibits(&tr.validator_set, &un.commit, tr.chain_id())
}

fn pair_line(op: &str, tr: &ExtendedHeader, un: &ExtendedHeader) -> String {
    format!(
        "{op} now={NOW} {} {} bits={} ibits={}",
        fmt_eh_nodah(tr, "t.", false),
        fmt_eh_nodah(un, "u.", false),
        bits_str(&bits_for(tr, un)),
        bits_str(&ibits_for(tr, un))
    )
}

fn range_line(op: &str, hs: &[ExtendedHeader]) -> String {
    let bits = if hs.len() >= 2 { bits_for(&hs[0], &hs[1]) } else { vec![] };
    let ibits = if hs.len() >= 2 { ibits_for(&hs[0], &hs[1]) } else { vec![] };
    let mut s = format!("{op} now={NOW} n={}", hs.len());
    for (i, h) in hs.iter().enumerate() {
        s.push(' ');
        s.push_str(&fmt_eh_nodah(h, &format!("{i}."), false));
    }
    s.push_str(&format!(" bits={} ibits={}", bits_str(&bits), bits_str(&ibits)));
    s
}

fn set_time(h: &mut ExtendedHeader, ns: i128) {
    h.header.time = time_of(ns);
}

/// one-field perturbations of the untrusted (or trusted) header of a pair
fn perturb_pair(rng: &mut Rng, tr: &ExtendedHeader, un: &ExtendedHeader) -> Vec<(ExtendedHeader, ExtendedHeader, &'static str)> {
    let mut out = vec![];
    let tt = tr.header.time.unix_timestamp_nanos();
    let mut push = |t: ExtendedHeader, u: ExtendedHeader, tag| out.push((t, u, tag));
    for (dh, tag) in [(0i64, "height-equal"), (-1, "height-lower"), (2, "height-skip")] {
        let mut u = un.clone();
        let h = (tr.height() as i64 + dh).max(1) as u64;
        u.header.height = h.try_into().unwrap();
        push(tr.clone(), u, tag);
    }
    {
        let mut u = un.clone();
        u.header.chain_id = chain_of("otherchain");
        push(tr.clone(), u, "chain-id");
    }
    for (dt, tag) in [(0i128, "time-equal"), (-1, "time-1ns-earlier"), (1, "time-1ns-later"), (-5 * SEC, "time-earlier")] {
        let mut u = un.clone();
        set_time(&mut u, tt + dt);
        push(tr.clone(), u, tag);
    }
    for (dt, tag) in [
        (10 * SEC - SEC, "time-future-minus-1s"),
        (10 * SEC + SEC, "time-future-plus-1s"),
        (10 * SEC - 5 * SEC, "time-future-minus-5s"),
        (10 * SEC + 60 * SEC, "time-future-plus-60s"),
        (0, "time-now"),
    ] {
        let mut u = un.clone();
        set_time(&mut u, NOW + dt);
        push(tr.clone(), u, tag);
    }
    {
        let mut u = un.clone();
        if let Some(id) = &mut u.header.last_block_id {
            id.hash = h32(rng);
        }
        push(tr.clone(), u, "parent-hash");
        let mut u = un.clone();
        u.header.last_block_id = None;
        push(tr.clone(), u, "parent-none");
        let mut u = un.clone();
        if let Some(id) = &mut u.header.last_block_id {
            id.hash = Hash::None;
        }
        push(tr.clone(), u, "parent-hash-empty");
    }
    {
        let mut u = un.clone();
        u.header.validators_hash = h32(rng);
        push(tr.clone(), u, "validators-hash");
        let mut t = tr.clone();
        t.header.next_validators_hash = h32(rng);
        push(t, un.clone(), "trusted-next-validators-hash");
        let mut t = tr.clone();
        t.commit.block_id.hash = h32(rng);
        push(t, un.clone(), "trusted-hash");
        let mut t = tr.clone();
        t.commit.block_id.hash = Hash::None;
        let mut u = un.clone();
        u.header.last_block_id = None;
        push(t, u, "both-hashes-none");
    }
    out
}

/// an untrusted non-adjacent header whose commit is crafted against the trusted set
fn crafted_nonadjacent(rng: &mut Rng, tr: &ExtendedHeader, ps: &[Party], un: &ExtendedHeader) -> (ExtendedHeader, &'static str) {
    let mut u = un.clone();
    let total = tr.validator_set.total_voting_power().value();
    let n = ps.len();
    // greedy fill to exactly floor(total/3) then maybe one more
    let needed = total / 3;
    let mut order: Vec<usize> = (0..n).collect();
    rng.shuffle(&mut order);
    let mut sel = vec![false; n];
    let mut sum = 0;
    for &i in &order {
        if sum + ps[i].val.power <= needed {
            sel[i] = true;
            sum += ps[i].val.power;
        }
    }
    let mode = rng.below(7);
    if mode >= 1 {
        if let Some(&i) = order.iter().find(|&&i| !sel[i]) {
            sel[i] = true;
        }
    }
    let mut ents: Vec<(u8, Party)> = vec![]; // (flag, signer)
    for i in 0..n {
        if sel[i] {
            ents.push((2, ps[i].clone()));
        } else if rng.bool() {
            ents.push((*rng.pick(&[0u8, 1, 1]), ps[i].clone()));
        }
    }
    for _ in 0..rng.below(3) {
        let p = new_party(rng, 1);
        ents.push((2, p));
    }
    rng.shuffle(&mut ents);
    let mut tag = if mode == 0 { "nonadj/at-or-below-third" } else { "nonadj/above-third" };
    let mut forged: Option<usize> = None;
    match mode {
        2 if !ents.is_empty() => {
            forged = Some(rng.usize(0, ents.len() - 1));
            tag = "nonadj/forged";
        }
        3 if !ents.is_empty() => {
            let i = rng.usize(0, ents.len() - 1);
            let e = ents[i].clone();
            let at = rng.usize(0, ents.len());
            ents.insert(at, e);
            tag = "nonadj/double-vote";
        }
        4 if !ents.is_empty() => {
            forged = Some(usize::MAX); // missing signature somewhere
            tag = "nonadj/no-signature";
        }
        _ => {}
    }
    let t0 = u.header.time.unix_timestamp_nanos();
    u.commit.signatures = ents
        .iter()
        .map(|(f, p)| {
            let validator_address = tendermint::account::Id::new(p.val.addr.clone().try_into().unwrap());
            let timestamp = time_of(t0 + rng.below(1_000_000) as i128);
            match f {
                0 => CommitSig::BlockIdFlagAbsent,
                1 => CommitSig::BlockIdFlagNil { validator_address, timestamp, signature: None },
                _ => CommitSig::BlockIdFlagCommit { validator_address, timestamp, signature: None },
            }
        })
        .collect();
    let ch = tr.chain_id().clone();
    let missing = if forged == Some(usize::MAX) { Some(rng.usize(0, ents.len() - 1)) } else { None };
    for (j, (f, p)) in ents.iter().enumerate() {
        if *f == 0 || missing == Some(j) {
            continue;
        }
        if forged == Some(j) {
            let k = key_from(rng);
            sign_entry(&mut u.commit, &ch, j, &k);
        } else {
            sign_entry(&mut u.commit, &ch, j, &p.key);
        }
    }
    (u, tag)
}

/// replace `un`'s commit entries by validly signed entries of the given (flag, signer) list
fn with_entries(rng: &mut Rng, tr: &ExtendedHeader, un: &ExtendedHeader, ents: &[(u8, Party)]) -> ExtendedHeader {
    let mut u = un.clone();
    let t0 = u.header.time.unix_timestamp_nanos();
    u.commit.signatures = ents
        .iter()
        .map(|(f, p)| {
            let validator_address = tendermint::account::Id::new(p.val.addr.clone().try_into().unwrap());
            let timestamp = time_of(t0 + rng.below(1_000_000) as i128);
            match f {
                0 => CommitSig::BlockIdFlagAbsent,
                1 => CommitSig::BlockIdFlagNil { validator_address, timestamp, signature: None },
                _ => CommitSig::BlockIdFlagCommit { validator_address, timestamp, signature: None },
            }
        })
        .collect();
    let ch = tr.chain_id().clone();
    for (j, (f, p)) in ents.iter().enumerate() {
        if *f != 0 {
            sign_entry(&mut u.commit, &ch, j, &p.key);
        }
    }
    u
}

/// non-adjacent verification against trusted sets of fixed shapes, with untrusted commits in which
/// validators appear several times (`multiplicity_plans`): `verify`, `verify_range` with the crafted
/// header first, `verify_adjacent` (always not-adjacent)
fn gen_multiplicity_ops(rng: &mut Rng, out: &mut Emitter) {
    let chain = "private";
    for shape in multiplicity_power_shapes(rng) {
        let parties: Vec<Party> = shape.iter().map(|&p| new_party(rng, p)).collect();
        let (ps, set) = set_of_parties(&parties);
        // the untrusted header's own set: the strangers plus some of the trusted validators
        let strangers = [new_party(rng, 3), new_party(rng, 5)];
        let mut own: Vec<Party> = strangers.to_vec();
        own.extend(ps.iter().take(ps.len() / 2).cloned());
        let (ops_, oset) = set_of_parties(&own);
        let h = rng.range(2, 100_000);
        let lbi = Some(BlockId { hash: h32(rng), part_set_header: parts::Header::new(1, h32(rng)).unwrap() });
        let t0 = NOW - 1000 * SEC;
        let tr = make_header(rng, chain, h, t0, 1, lbi, &ps, &set, &set, empty_dah(), &|_| true);
        let gap = rng.range(2, 50);
        let un0 = make_header(rng, chain, h + gap, t0 + (gap as i128) * SEC, 1, lbi, &ops_, &oset, &oset, empty_dah(), &|_| true);
        let un1 = make_header(rng, chain, h + gap + 1, t0 + (gap as i128 + 1) * SEC, 1, Some(un0.commit.block_id), &ops_, &oset, &oset, empty_dah(), &|_| true);
        let powers: Vec<u64> = ps.iter().map(|p| p.val.power).collect();
        let total = set.total_voting_power().value();
        for (slots, tag) in multiplicity_plans(rng, &powers, total, 1, 3) {
            let ents: Vec<(u8, Party)> = slots
                .iter()
                .map(|s| match s {
                    Slot::Trusted(i) => (2u8, ps[*i].clone()),
                    Slot::Stranger(k) => (2u8, strangers[*k].clone()),
                    Slot::Absent => (0u8, strangers[0].clone()),
                    Slot::NilOf(i) => (1u8, ps[*i].clone()),
                })
                .collect();
            let u = with_entries(rng, &tr, &un0, &ents);
            out.op(pair_line("verify", &tr, &u), &format!("verify/nonadj/{tag}"), true);
            // as the first element of a range; the second links to it (same hash: verify* does not
            // recompute hashes and the commit's block id is untouched)
            out.op(range_line("verify_range", &[tr.clone(), u.clone(), un1.clone()]), &format!("verify_range/{tag}"), true);
            if rng.chance(1, 4) {
                out.op(pair_line("verify_adjacent", &tr, &u), &format!("verify_adjacent/{tag}"), true);
                out.op(range_line("verify_adjacent_range", &[tr.clone(), u.clone()]), &format!("verify_adjacent_range/{tag}"), true);
            }
        }
    }
}

fn gen_chain_ops(rng: &mut Rng, out: &mut Emitter, tier: Tier) {
    let chain = *rng.pick(&["private", "celestia", "mocha-4"]);
    let start = *rng.pick(&[1u64, 2, 5, 1000, 123_456]);
    let len = if tier == Tier::Thorough { rng.usize(4, 14) } else { rng.usize(4, 8) };
    let rotating = rng.chance(3, 4);
    let c = build_chain(rng, chain, start, len, rotating, None);
    let hs = &c.headers;
    // pairs
    for i in 0..len - 1 {
        out.op(pair_line("verify", &hs[i], &hs[i + 1]), "verify/adjacent-honest", true);
        if rng.chance(1, 3) {
            out.op(pair_line("verify_adjacent", &hs[i], &hs[i + 1]), "verify_adjacent/honest", true);
        }
    }
    for _ in 0..4 {
        let i = rng.usize(0, len - 2);
        let j = rng.usize(i + 1, len - 1);
        out.op(pair_line("verify", &hs[i], &hs[j]), if j == i + 1 { "verify/adjacent-honest" } else { "verify/nonadjacent-honest" }, true);
        out.op(pair_line("verify_adjacent", &hs[i], &hs[j]), "verify_adjacent/any", true);
        out.op(pair_line("verify", &hs[j], &hs[i]), "verify/backwards", true);
    }
    // one-field perturbations on an adjacent and on a non-adjacent pair
    let i = rng.usize(0, len - 2);
    for (t, u, tag) in perturb_pair(rng, &hs[i], &hs[i + 1]) {
        out.op(pair_line("verify", &t, &u), &format!("verify/adj/{tag}"), true);
    }
    if len >= 3 {
        let i = rng.usize(0, len - 3);
        let j = rng.usize(i + 2, len - 1);
        for (t, u, tag) in perturb_pair(rng, &hs[i], &hs[j]) {
            out.op(pair_line("verify", &t, &u), &format!("verify/nonadj/{tag}"), true);
        }
        for _ in 0..12 {
            let (u, tag) = crafted_nonadjacent(rng, &hs[i], &c.sets[i].0, &hs[j]);
            out.op(pair_line("verify", &hs[i], &u), tag, true);
        }
    }
    // ranges
    let fork_at = rng.usize(0, len - 2);
    let fork = build_chain(rng, chain, hs[fork_at].height() + 1, len - fork_at - 1, rotating, Some((&hs[fork_at], &c.sets[fork_at + 1])));
    // S9: the empty batch (`Ok(VerifiedExtendedHeaders(vec![]))`, utils.rs:69); only `verified` has an
    // n=0 form (the two range ops need a trusted header)
    out.op(range_line("verified", &[]), "verified/empty-vec", true);
    for op in ["verify_range", "verify_adjacent_range", "verified"] {
        // honest: trusted i, untrusted i+1..=j  (as one list 0..)
        let i = rng.usize(0, len - 2);
        let j = rng.usize(i + 1, len - 1);
        out.op(range_line(op, &hs[i..=j]), &format!("{op}/honest"), true);
        out.op(range_line(op, &hs[i..=i]), &format!("{op}/empty-range"), true);
        // first untrusted not adjacent to the trusted
        if j >= i + 2 {
            let mut v = vec![hs[i].clone()];
            v.extend_from_slice(&hs[i + 2..=j]);
            out.op(range_line(op, &v), &format!("{op}/first-not-adjacent"), true);
        }
        // skipped height in the middle
        if j >= i + 3 {
            let mut v = hs[i..=j].to_vec();
            let k = rng.usize(1, v.len() - 2);
            v.remove(k);
            out.op(range_line(op, &v), &format!("{op}/skipped"), true);
        }
        // reordered / duplicated
        if j >= i + 2 {
            let mut v = hs[i..=j].to_vec();
            let a = rng.usize(1, v.len() - 1);
            let b = rng.usize(1, v.len() - 1);
            v.swap(a, b);
            out.op(range_line(op, &v), &format!("{op}/reordered"), a != b);
            let mut v = hs[i..=j].to_vec();
            let a = rng.usize(1, v.len() - 1);
            let d = v[a].clone();
            v.insert(a, d);
            out.op(range_line(op, &v), &format!("{op}/duplicated"), true);
        }
        // fork spliced in: main chain up to fork_at+k, then fork headers of later heights
        if !fork.headers.is_empty() {
            let mut v = hs[..=fork_at].to_vec();
            v.extend(fork.headers.iter().cloned());
            let s = rng.usize(0, fork_at);
            out.op(range_line(op, &v[s..]), &format!("{op}/fork-from-parent"), true);
            if fork.headers.len() >= 2 && fork_at + 2 < len {
                // main chain one step past the fork point, then the fork's next height
                let mut v = hs[..=fork_at + 1].to_vec();
                v.extend(fork.headers[1..].iter().cloned());
                let s = rng.usize(0, fork_at);
                out.op(range_line(op, &v[s..]), &format!("{op}/fork-mismatch"), true);
            }
        }
        // one-field perturbation of a middle element
        if j >= i + 2 {
            let k = rng.usize(i + 1, j);
            let pert = perturb_pair(rng, &hs[k - 1], &hs[k]);
            let (t, u, tag) = rng.pick(&pert).clone();
            let mut v = hs[i..=j].to_vec();
            v[k - 1 - i] = t;
            v[k - i] = u;
            out.op(range_line(op, &v), &format!("{op}/perturbed/{tag}"), true);
        }
    }
}

impl Prop for C02 {
    fn id(&self) -> &'static str {
        "C02"
    }
    fn rule(&self) -> &'static str {
        "honest chains of 4..14 fully consistent headers (1..10 validators, random powers, validator-set rotation with partial overlap: \
         add/remove/replace/re-weight/replace-most, commits signed with real ed25519 keys by all or by a >2/3 prefix), starting at heights 1, 2, 5, \
         1000, 123456, three chain ids; verify / verify_adjacent on adjacent, non-adjacent and backwards pairs; every one-field perturbation \
         (height equal/lower/skip, chain id, time equal / ±1 ns / earlier, time at now+10 s ± 1 s, ± 5 s, +60 s, parent hash changed / None / empty, \
         validators hash, trusted next-validators hash, trusted hash) on an adjacent and on a non-adjacent pair; non-adjacent untrusted commits \
         crafted against the trusted set at the exact 1/3 boundary and one validator above, with strangers, forged signatures, double votes, \
         missing signatures; trusted sets of fixed shapes (4/8/3/6 equal powers, …) against untrusted commits in which a validator appears \
         several times: repeated power above 1/3 while the distinct trusted power is at/below 1/3, repeats last/first/scattered, repeated strangers \
         that are in the untrusted header's own set only, repeats after/before the early exit (verify and verify_range with that header first); verify_range / verify_adjacent_range / VerifiedExtendedHeaders::try_from on honest sub-ranges, empty ranges, first \
         element not adjacent, skipped height, reordered, duplicated, the empty Vec (try_from only; every `verified` op also runs the slice constructor \
         and compares verdict and content), forks spliced in from any height (matching and mismatching parent), \
         perturbed middle element.  Non-trivial = all generated cases (reordering that swaps an element with itself excluded); distinct = distinct (op, result) lines."
    }
    fn gen_ops(&mut self, rng: &mut Rng, tier: Tier, out: &mut Emitter) {
        let chains = if tier == Tier::Thorough { 300 } else { 14 };
        for _ in 0..chains {
            gen_chain_ops(rng, out, tier);
        }
        for _ in 0..(if tier == Tier::Thorough { 30 } else { 2 }) {
            gen_multiplicity_ops(rng, out);
        }
    }
    fn run(&mut self, line: &str) -> String {
        let op = opname(line);
        if op == "reset" {
            return "ok".into();
        }
        let Some(now) = arg(line, "now").and_then(|s| s.parse::<i128>().ok()) else { return "bad-op".into() };
        let real_now = Time::now().unix_timestamp_nanos();
        let shift = real_now - now;
        let rebase = |mut h: ExtendedHeader| {
            h.header.time = time_of(h.header.time.unix_timestamp_nanos() + shift);
            h
        };
        let fin = |r: celestia_types::Result<()>, bits: &[u8], ibits: &[u8]| match r {
            Ok(()) => format!("ok bits={} ibits={}", bits_str(bits), bits_str(ibits)),
            Err(e) => format!("err {} bits={} ibits={}", err_kind(&e), bits_str(bits), bits_str(ibits)),
        };
        match op {
            "verify" | "verify_adjacent" => {
                let (Some(t), Some(u)) = (parse_eh_nodah(line, "t."), parse_eh_nodah(line, "u.")) else { return "bad-op".into() };
                let bits = bits_for(&t, &u);
                let ibits = ibits_for(&t, &u);
                let (t, u) = (rebase(t), rebase(u));
                let r = if op == "verify" { t.verify(&u) } else { t.verify_adjacent(&u) };
                fin(r, &bits, &ibits)
            }
            "verify_range" | "verify_adjacent_range" | "verified" => {
                let Some(n) = arg_u64(line, "n") else { return "bad-op".into() };
                let mut hs = vec![];
                for i in 0..n {
                    let Some(h) = parse_eh_nodah(line, &format!("{i}.")) else { return "bad-op".into() };
                    hs.push(h);
                }
                let bits = if hs.len() >= 2 { bits_for(&hs[0], &hs[1]) } else { vec![] };
                let ibits = if hs.len() >= 2 { ibits_for(&hs[0], &hs[1]) } else { vec![] };
                let hs: Vec<ExtendedHeader> = hs.into_iter().map(rebase).collect();
                let r = match op {
                    "verify_range" => hs[0].verify_range(&hs[1..]),
                    "verify_adjacent_range" => hs[0].verify_adjacent_range(&hs[1..]),
                    _ => {
                        // S9: the slice constructor (`TryFrom<&[ExtendedHeader]>`, utils.rs:28) must give the
                        // same verdict and the same content as the `Vec` one; a difference changes the
                        // result line, which the model then contradicts
                        let via_slice = VerifiedExtendedHeaders::try_from(&hs[..]);
                        let via_vec = VerifiedExtendedHeaders::try_from(hs.clone());
                        let same = match (&via_slice, &via_vec) {
                            (Ok(a), Ok(b)) => a.as_ref() == b.as_ref() && b.as_ref() == &hs[..],
                            (Err(a), Err(b)) => err_kind(a) == err_kind(b),
                            _ => false,
                        };
                        if !same {
                            return "constructors-disagree".into();
                        }
                        via_vec.map(|_| ())
                    }
                };
                fin(r, &bits, &ibits)
            }
            _ => "bad-op".into(),
        }
    }
}

fn main() {
    main_for(C02);
}

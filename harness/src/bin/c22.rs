//! C22 — The persistent store survives crashes at any point.
//!
//! A fault-injecting in-memory `redb::StorageBackend` records every `write` / `set_len` /
//! `sync_data` the real redb issues while the real `RedbStore` runs a history of operations.
//! Every boundary of that event log is a crash point.  A crash image keeps everything up to the
//! last `sync_data` before the crash point and ANY SUBSET of the whole writes after it (all,
//! none, only the header page, everything but the header page, only the last write, random
//! subsets).  The image is reopened with the real redb (recovery) and the real `RedbStore::new`;
//! the raw tables of the reopened store are dumped and the store API is cross-checked.
//!
//! The model (lean/Driver/C22.lean) computes the admissible states (state after the operations
//! that had returned, or with the in-flight one in addition).  Which of the two the implementation
//! showed (`vis`) is recorded in the op line when the line is generated: the outcome of a crash
//! is nondeterministic, the line protocol needs one expected line, so the choice is an input of
//! the model step; the spec check does not use it.
use std::collections::HashMap;
use std::panic::{AssertUnwindSafe, catch_unwind};
use std::sync::{Arc, Mutex};

use celestia_types::ExtendedHeader;
use celestia_types::test_utils::ExtendedHeaderGenerator;
use cid::Cid;
use lumina_node::store::{RedbStore, Store, StoreError, StoreInsertionError};
use redb::{Database, ReadableTable, StorageBackend, TableDefinition, TableError};
use tendermint_proto::Protobuf;
use verif_harness::*;

const SCHEMA_VERSION_TABLE: TableDefinition<'static, (), u64> = TableDefinition::new("STORE.SCHEMA_VERSION");
const RANGES_TABLE: TableDefinition<'static, &str, Vec<(u64, u64)>> = TableDefinition::new("STORE.RANGES");
const HEIGHTS_TABLE: TableDefinition<'static, &[u8], u64> = TableDefinition::new("STORE.HEIGHTS");
const HEADERS_TABLE: TableDefinition<'static, u64, &[u8]> = TableDefinition::new("STORE.HEADERS");
const SAMPLING_METADATA_TABLE: TableDefinition<'static, u64, &[u8]> =
    TableDefinition::new("STORE.SAMPLING_METADATA");
const LIBP2P_IDENTITY_TABLE: TableDefinition<'static, (), &[u8]> = TableDefinition::new("LIBP2P.IDENTITY");

// ---------------- fault-injecting backend ----------------

#[derive(Clone, Debug)]
enum Ev {
    Write { off: u64, data: Vec<u8> },
    SetLen(u64),
    Sync,
}

#[derive(Debug, Default)]
struct Shared {
    data: Vec<u8>,
    log: Vec<Ev>,
    /// a throw-away reopened image: do not record events
    no_log: bool,
    /// the harness is done with this database: fail every further I/O so that redb's `Drop`
    /// (clean-shutdown bookkeeping, tens of ms) returns at once
    dead: bool,
}

#[derive(Debug, Clone, Default)]
struct FaultBackend(Arc<Mutex<Shared>>);

impl FaultBackend {
    fn from_image(data: Vec<u8>) -> Self {
        FaultBackend(Arc::new(Mutex::new(Shared { data, log: vec![], no_log: true, dead: false })))
    }
    fn log_len(&self) -> usize {
        self.0.lock().unwrap().log.len()
    }
}

fn oob() -> std::io::Error {
    std::io::Error::new(std::io::ErrorKind::InvalidInput, "out of range")
}

impl StorageBackend for FaultBackend {
    fn len(&self) -> Result<u64, std::io::Error> {
        Ok(self.0.lock().unwrap().data.len() as u64)
    }
    fn read(&self, offset: u64, len: usize) -> Result<Vec<u8>, std::io::Error> {
        let g = self.0.lock().unwrap();
        let off = offset as usize;
        if off + len <= g.data.len() { Ok(g.data[off..off + len].to_vec()) } else { Err(oob()) }
    }
    fn set_len(&self, len: u64) -> Result<(), std::io::Error> {
        let mut g = self.0.lock().unwrap();
        if g.dead {
            return Err(oob());
        }
        g.data.resize(len as usize, 0);
        if !g.no_log {
            g.log.push(Ev::SetLen(len));
        }
        Ok(())
    }
    fn sync_data(&self, _eventual: bool) -> Result<(), std::io::Error> {
        let mut g = self.0.lock().unwrap();
        if g.dead {
            return Err(oob());
        }
        if !g.no_log {
            g.log.push(Ev::Sync);
        }
        Ok(())
    }
    fn write(&self, offset: u64, data: &[u8]) -> Result<(), std::io::Error> {
        let mut g = self.0.lock().unwrap();
        let off = offset as usize;
        if g.dead || off + data.len() > g.data.len() {
            return Err(oob());
        }
        g.data[off..off + data.len()].copy_from_slice(data);
        if !g.no_log {
            g.log.push(Ev::Write { off: offset, data: data.to_vec() });
        }
        Ok(())
    }
}

fn apply(img: &mut Vec<u8>, e: &Ev) {
    match e {
        Ev::Write { off, data } => {
            let off = *off as usize;
            if img.len() < off + data.len() {
                // the `set_len` that made room was dropped: the file system extends the file
                img.resize(off + data.len(), 0);
            }
            img[off..off + data.len()].copy_from_slice(data);
        }
        Ev::SetLen(n) => img.resize(*n as usize, 0),
        Ev::Sync => {}
    }
}

/// S5 tie of the redb COMMIT-PROTOCOL model (lean/Lumina/Model/RedbCommit.lean) to the real redb:
/// the shape of the backend events ONE store operation issued.  Per sync epoch: `P` if it has
/// data-page writes (offset != 0), one `H` per header write (offset 0, 320 bytes = redb's
/// DB_HEADER_SIZE: god byte + both commit slots), `X` per other write at offset 0, then `S` for
/// the `sync_data` closing it (a trailing epoch without sync has no `S`).  `set_len` (file growth /
/// shrinking) is not part of the protocol model and is left out.  `-` = no event at all.  The
/// driver prints the shape the model's `commitEpochs` prescribes (one-phase commit: `PHS`, an
/// aborted transaction: `-`); any other order/number of header writes or syncs is a diff.
fn trace_shape(evs: &[Ev]) -> String {
    let mut out = String::new();
    let (mut p, mut h, mut x) = (0usize, 0usize, 0usize);
    let mut emit = |out: &mut String, p: &mut usize, h: &mut usize, x: &mut usize, sync: bool| {
        if *p > 0 {
            out.push('P');
        }
        out.push_str(&"H".repeat(*h));
        out.push_str(&"X".repeat(*x));
        if sync {
            out.push('S');
        }
        (*p, *h, *x) = (0, 0, 0);
    };
    for e in evs {
        match e {
            Ev::Write { off: 0, data } if data.len() == 320 => h += 1,
            Ev::Write { off: 0, .. } => x += 1,
            Ev::Write { .. } => p += 1,
            Ev::SetLen(_) => {}
            Ev::Sync => emit(&mut out, &mut p, &mut h, &mut x, true),
        }
    }
    emit(&mut out, &mut p, &mut h, &mut x, false);
    if out.is_empty() { "-".into() } else { out }
}

fn mix(mut z: u64) -> u64 {
    z = z.wrapping_add(0x9E37_79B9_7F4A_7C15);
    z = (z ^ (z >> 30)).wrapping_mul(0xBF58_476D_1CE4_E5B9);
    z = (z ^ (z >> 27)).wrapping_mul(0x94D0_49BB_1331_11EB);
    z ^ (z >> 31)
}

/// which of the unsynced events (index `i` of `n`) survive the crash
fn keep(mask: &str, i: usize, n: usize, e: &Ev) -> bool {
    let is_hdr = matches!(e, Ev::Write { off: 0, .. });
    match mask {
        "all" => true,
        "none" => false,
        "hdr" => is_hdr,
        "nohdr" => !is_hdr,
        "last" => i + 1 == n,
        "butlast" => i + 1 != n,
        s => {
            let seed: u64 = s.parse().unwrap_or(0);
            mix(seed ^ ((i as u64) << 32) ^ 0xABCD) & 1 == 1
        }
    }
}

/// signature of the STRUCTURE (kinds, offsets, lengths; not the bytes) of epochs `0..=e`
fn log_sig(eps: &[Vec<Ev>], e: usize) -> u64 {
    let mut h: u64 = 0xcbf29ce484222325;
    let mut f = |x: u64| {
        h ^= x;
        h = h.wrapping_mul(0x100000001b3);
    };
    for ep in eps.iter().take(e + 1) {
        f(3);
        for ev in ep {
            match ev {
                Ev::Write { off, data } => {
                    f(1);
                    f(*off);
                    f(data.len() as u64)
                }
                Ev::SetLen(n) => {
                    f(2);
                    f(*n)
                }
                Ev::Sync => f(3),
            }
        }
    }
    h
}

// ---------------- the world of one history ----------------

/// wire format of `SamplingMetadata` in STORE.SAMPLING_METADATA (the crate's raw type is private)
#[derive(Clone, PartialEq, prost::Message)]
struct RawMeta {
    #[prost(message, repeated, tag = "2")]
    cids: Vec<Vec<u8>>,
}

fn token_cid(t: u64) -> Cid {
    let mh = cid::multihash::Multihash::<64>::wrap(0x00, &t.to_be_bytes()).unwrap();
    Cid::new_v1(0x55, mh)
}
fn cid_token(c: &Cid) -> u64 {
    let d = c.hash().digest();
    if d.len() == 8 { u64::from_be_bytes(d.try_into().unwrap()) } else { 0 }
}

fn show_runs(v: &[(u64, u64)]) -> String {
    if v.is_empty() { "_".into() } else { v.iter().map(|(a, b)| format!("{a}-{b}")).collect::<Vec<_>>().join(".") }
}

fn exists<T>(r: Result<T, TableError>) -> Option<T> {
    match r {
        Ok(t) => Some(t),
        Err(TableError::TableDoesNotExist(_)) => None,
        Err(e) => panic!("dump: {e}"),
    }
}

struct World {
    rt: Arc<tokio::runtime::Runtime>,
    generator: ExtendedHeaderGenerator,
    /// name -> header, hash bytes -> name
    pool: HashMap<String, ExtendedHeader>,
    names: HashMap<Vec<u8>, String>,
    backend: Option<FaultBackend>,
    db: Option<Arc<Database>>,
    store: Option<RedbStore>,
    first_identity: Option<Vec<u8>>,
    /// number of syncs redb's own `Database::create` issued before `RedbStore::new` started
    create_syncs: usize,
    /// log length when op i returned (op 0 = open)
    marks: Vec<usize>,
    /// canonical dump the reopened store must show for prefix i (i = 0: empty disk)
    expect: Vec<String>,
    /// cache for image building: (index just after a sync, image at that point)
    cache: Option<(usize, Vec<u8>)>,
    eps_cache: Option<(usize, Arc<Vec<Vec<Ev>>>)>,
    /// header clock (seconds after a fixed instant), see `tick`
    clock: u64,
    /// number of crashes this history has lived through
    incarnation: usize,
    /// medium this incarnation started from (empty for the first one, the crash image after)
    base: Vec<u8>,
}

impl World {
    fn new(rt: Arc<tokio::runtime::Runtime>) -> Self {
        World {
            rt,
            generator: ExtendedHeaderGenerator::new(),
            pool: HashMap::new(),
            names: HashMap::new(),
            backend: None,
            db: None,
            store: None,
            first_identity: None,
            create_syncs: 0,
            marks: vec![],
            expect: vec![],
            cache: None,
            eps_cache: None,
            clock: 0,
            incarnation: 0,
            base: vec![],
        }
    }

    /// DETERMINISTIC header timestamps (one second apart, from a fixed instant).  With wall-clock
    /// times the protobuf size of a header varies by a few bytes from run to run (varint nanos),
    /// which now and then moves a B-tree page split, so that the generation-time run and the
    /// replayed run of the same history issue different page writes (`nondeterministic-log`).
    fn tick(&mut self) {
        self.clock += 10;
        let t = tendermint::Time::from_unix_timestamp(1_700_000_000 + self.clock as i64, 0).unwrap();
        self.generator.set_time(t, std::time::Duration::from_secs(1));
    }

    fn add_header(&mut self, name: &str, h: ExtendedHeader) {
        self.names.insert(h.hash().as_bytes().to_vec(), name.to_string());
        self.pool.insert(name.to_string(), h);
    }

    /// `universe chains=a:1-40,b@a7:8-20` — generate all headers of this history
    fn universe(&mut self, spec: &str) -> Option<()> {
        for ch in spec.split(',') {
            let (head, range) = ch.split_once(':')?;
            let (lo, hi) = range.split_once('-')?;
            let (lo, hi): (u64, u64) = (lo.parse().ok()?, hi.parse().ok()?);
            let (letter, from) = match head.split_once('@') {
                Some((l, f)) => (l, Some(f)),
                None => (head, None),
            };
            let mut prev: ExtendedHeader = match from {
                None => {
                    // the root chain starts at the genesis height
                    if lo != 1 {
                        return None;
                    }
                    self.tick();
                    let g = self.generator.next();
                    self.add_header(&format!("{letter}{lo}"), g.clone());
                    g
                }
                Some(f) => self.pool.get(f)?.clone(),
            };
            let start = if from.is_none() { lo + 1 } else { lo };
            for h in start..=hi {
                self.tick();
                let nh = self.generator.next_of(&prev);
                debug_assert_eq!(nh.height(), h);
                self.add_header(&format!("{letter}{h}"), nh.clone());
                prev = nh;
            }
        }
        Some(())
    }

    fn name_of(&self, hash: &[u8]) -> String {
        self.names.get(hash).cloned().unwrap_or_else(|| format!("?{}", hex::encode(&hash[..4])))
    }

    /// canonical dump of the raw tables
    fn dump(&self, db: &Database) -> String {
        let tx = db.begin_read().unwrap();
        let ver = match exists(tx.open_table(SCHEMA_VERSION_TABLE)) {
            Some(t) => t.get(()).unwrap().map(|g| g.value().to_string()).unwrap_or("none".into()),
            None => "none".into(),
        };
        let id = match exists(tx.open_table(LIBP2P_IDENTITY_TABLE)) {
            None => "none".to_string(),
            Some(t) => match t.get(()).unwrap() {
                None => "none".to_string(),
                Some(g) => {
                    if Some(g.value()) == self.first_identity.as_deref() { "id1".into() } else { "idnew".into() }
                }
            },
        };
        let mut hdr = vec![];
        if let Some(t) = exists(tx.open_table(HEADERS_TABLE)) {
            for e in t.iter().unwrap() {
                let (k, v) = e.unwrap();
                match ExtendedHeader::decode(v.value()) {
                    Ok(h) => {
                        let name = self.name_of(h.hash().as_bytes());
                        let parent = match h.last_header_hash() {
                            celestia_types::hash::Hash::Sha256(b) => self.names.get(&b.to_vec()).cloned(),
                            celestia_types::hash::Hash::None => None,
                        }
                        .unwrap_or("-".into());
                        hdr.push(format!("{}:{}^{}", k.value(), name, parent));
                    }
                    Err(_) => hdr.push(format!("{}:undecodable^-", k.value())),
                }
            }
        }
        let mut hts: Vec<(u64, String)> = vec![];
        if let Some(t) = exists(tx.open_table(HEIGHTS_TABLE)) {
            for e in t.iter().unwrap() {
                let (k, v) = e.unwrap();
                hts.push((v.value(), self.name_of(k.value())));
            }
        }
        hts.sort();
        let hts: Vec<String> = hts.into_iter().map(|(h, n)| format!("{n}:{h}")).collect();
        let ranges = |key: &str| -> String {
            match exists(tx.open_table(RANGES_TABLE)) {
                None => "_".into(),
                Some(t) => t.get(key).unwrap().map(|g| show_runs(&g.value())).unwrap_or("_".into()),
            }
        };
        let mut meta = vec![];
        if let Some(t) = exists(tx.open_table(SAMPLING_METADATA_TABLE)) {
            for e in t.iter().unwrap() {
                let (k, v) = e.unwrap();
                let cids = match <RawMeta as prost::Message>::decode(v.value()) {
                    Ok(m) => {
                        let toks: Option<Vec<String>> = m
                            .cids
                            .iter()
                            .map(|b| Cid::read_bytes(std::io::Cursor::new(b)).ok().map(|c| cid_token(&c).to_string()))
                            .collect();
                        match toks {
                            Some(t) if t.is_empty() => "_".to_string(),
                            Some(t) => t.join("."),
                            None => "undecodable".into(),
                        }
                    }
                    Err(_) => "undecodable".into(),
                };
                meta.push(format!("{}:{}", k.value(), cids));
            }
        }
        let l = |v: Vec<String>| if v.is_empty() { "_".to_string() } else { v.join(",") };
        format!(
            "ver={ver} id={id} hdr={} hts={} st={} sa={} pr={} meta={}",
            l(hdr),
            l(hts),
            ranges("KEY.HEADER_RANGES"),
            ranges("KEY.SAMPLED_RANGES"),
            ranges("KEY.PRUNED_RANGES"),
            l(meta)
        )
    }

    fn err_kind(e: &StoreError) -> String {
        match e {
            StoreError::NotFound => "NotFound".into(),
            StoreError::InsertionFailed(StoreInsertionError::HeadersVerificationFailed(_)) => "Verification".into(),
            StoreError::InsertionFailed(StoreInsertionError::NeighborsVerificationFailed(_)) => "Neighbors".into(),
            StoreError::InsertionFailed(StoreInsertionError::ConstraintsNotMet(_)) => "Constraints".into(),
            StoreError::InsertionFailed(StoreInsertionError::HashExists(_)) => "HashExists".into(),
            StoreError::StoredDataError(_) => "StoredData".into(),
            other => format!("Other({})", other.to_string().replace(' ', "_")),
        }
    }

    /// run one store operation line on the live store; record mark + expected reopen dump
    fn exec(&mut self, line: &str) -> String {
        let op = opname(line);
        if op == "universe" {
            return match arg(line, "chains").and_then(|s| self.universe(s)) {
                Some(()) => "ok".into(),
                None => "bad-op".into(),
            };
        }
        if op == "open" {
            let backend = FaultBackend::default();
            let db = match Database::builder().create_with_backend(backend.clone()) {
                Ok(db) => Arc::new(db),
                Err(e) => return format!("err CreateFailed({e})"),
            };
            self.create_syncs = backend.0.lock().unwrap().log.iter().filter(|e| matches!(e, Ev::Sync)).count();
            let store = match self.rt.block_on(RedbStore::new(db.clone())) {
                Ok(s) => s,
                Err(e) => return format!("err OpenFailed({e})"),
            };
            self.first_identity = {
                let tx = db.begin_read().unwrap();
                let t = tx.open_table(LIBP2P_IDENTITY_TABLE).unwrap();
                t.get(()).unwrap().map(|g| g.value().to_vec())
            };
            self.marks = vec![backend.log_len()];
            let d = self.dump(&db);
            self.expect = vec!["ver=3 id=idnew hdr=_ hts=_ st=_ sa=_ pr=_ meta=_".to_string(), d.clone()];
            self.backend = Some(backend);
            self.db = Some(db);
            self.store = Some(store);
            self.cache = None;
            self.eps_cache = None;
            return format!("ok {d}");
        }
        let Some(store) = self.store.as_ref() else { return "bad-op no-store".into() };
        let res: Result<(), StoreError> = match op {
            "insert" => {
                let Some(hs) = arg(line, "hs") else { return "bad-op".into() };
                let mut v = vec![];
                // S9: `hs=_` is the empty batch
                for e in hs.split(',').filter(|e| *e != "_") {
                    let name = e.split('^').next().unwrap_or("");
                    // S9: `base!hashof` = an UNVALIDATED copy of pool header `base` whose commit block-id hash
                    // (what `hash()` returns, i.e. the key of STORE.HEIGHTS) is that of pool header `hashof`
                    if let Some((base, hashof)) = name.split_once('!') {
                        match (self.pool.get(base), self.pool.get(hashof)) {
                            (Some(b), Some(ho)) => {
                                let mut m = b.clone();
                                m.commit.block_id.hash = ho.hash();
                                v.push(m);
                            }
                            _ => return format!("bad-op unknown-header-{name}"),
                        }
                        continue;
                    }
                    match self.pool.get(name) {
                        Some(h) => v.push(h.clone()),
                        None => return format!("bad-op unknown-header-{name}"),
                    }
                }
                self.rt.block_on(store.insert(v))
            }
            "mark" => {
                let Some(h) = arg_u64(line, "h") else { return "bad-op".into() };
                self.rt.block_on(store.mark_as_sampled(h))
            }
            "meta" => {
                let (Some(h), Some(c)) = (arg_u64(line, "h"), arg(line, "cids").and_then(unnatl)) else {
                    return "bad-op".into();
                };
                self.rt.block_on(store.update_sampling_metadata(h, c.into_iter().map(token_cid).collect()))
            }
            "remove" => {
                let Some(h) = arg_u64(line, "h") else { return "bad-op".into() };
                self.rt.block_on(store.remove_height(h))
            }
            _ => return "bad-op".into(),
        };
        self.marks.push(self.backend.as_ref().unwrap().log_len());
        // backend events of exactly this operation (its one write transaction)
        let tr = {
            let g = self.backend.as_ref().unwrap().0.lock().unwrap();
            let n = self.marks.len();
            trace_shape(&g.log[self.marks[n - 2]..self.marks[n - 1]])
        };
        let d = self.dump(self.db.as_ref().unwrap());
        self.expect.push(d.clone());
        match res {
            Ok(()) => format!("ok {d} tr={tr}"),
            Err(e) => format!("err {} {d} tr={tr}", Self::err_kind(&e)),
        }
    }

    /// The log cut into epochs: epoch `e` = the writes/set_lens issued between the `e`-th and the
    /// `e+1`-th `sync_data` (the last epoch may be open).  redb issues the writes of one flush in
    /// hash-map order, which differs from run to run; between two syncs the order carries no
    /// meaning for the fault model (any subset of the unsynced writes may survive), so inside an
    /// epoch the events are put in a canonical order (set_len first, then by offset, length) and
    /// "the first k events of epoch e were issued" is the crash point `(e, k)`.
    fn epochs(&mut self) -> Arc<Vec<Vec<Ev>>> {
        let be = self.backend.as_ref().unwrap().0.lock().unwrap();
        if let Some((n, eps)) = &self.eps_cache {
            if *n == be.log.len() {
                return eps.clone();
            }
        }
        let mut out = vec![vec![]];
        for e in &be.log {
            match e {
                Ev::Sync => out.push(vec![]),
                other => out.last_mut().unwrap().push(other.clone()),
            }
        }
        for ep in out.iter_mut() {
            ep.sort_by_key(|e| match e {
                Ev::SetLen(n) => (0u8, 0u64, *n),
                Ev::Write { off, data } => (1, *off, data.len() as u64),
                Ev::Sync => (2, 0, 0),
            });
        }
        let out = Arc::new(out);
        let n = be.log.len();
        drop(be);
        self.eps_cache = Some((n, out.clone()));
        out
    }

    /// number of completed syncs when op `i` returned
    fn mark_epochs(&self) -> Vec<usize> {
        let be = self.backend.as_ref().unwrap().0.lock().unwrap();
        self.marks.iter().map(|m| be.log[..*m].iter().filter(|e| matches!(e, Ev::Sync)).count()).collect()
    }

    /// number of ops that had returned at crash point `(e, k)`
    fn returned_at(&self, e: usize) -> usize {
        self.mark_epochs().iter().filter(|m| **m <= e).count()
    }

    fn image(&mut self, eps: &[Vec<Ev>], e: usize, k: usize, mask: &str) -> Vec<u8> {
        let (mut from, mut img) = match self.cache.take() {
            Some((at, img)) if at <= e => (at, img),
            _ => (0, self.base.clone()),
        };
        while from < e {
            for ev in &eps[from] {
                apply(&mut img, ev);
            }
            from += 1;
        }
        self.cache = Some((e, img.clone()));
        if e < eps.len() {
            let pending = &eps[e][..k.min(eps[e].len())];
            for (i, ev) in pending.iter().enumerate() {
                if keep(mask, i, pending.len(), ev) {
                    apply(&mut img, ev);
                }
            }
        }
        img
    }

    /// crash at point `(e, k)` with unsynced-write subset `mask`; reopen; dump
    fn crash(&mut self, eps: &[Vec<Ev>], e: usize, k: usize, mask: &str) -> String {
        let t0 = std::time::Instant::now();
        let img = self.image(eps, e, k, mask);
        let t_img = t0.elapsed();
        let timing = std::env::var("C22_TIMING").is_ok();
        let rt = self.rt.clone();
        let r = catch_unwind(AssertUnwindSafe(|| {
            let backend = FaultBackend::from_image(img);
            let handle = backend.clone();
            let db = match Database::builder().create_with_backend(backend) {
                Ok(db) => Arc::new(db),
                Err(e) => return Err(format!("redb-open:{}", e.to_string().replace(' ', "_"))),
            };
            let store = match rt.block_on(RedbStore::new(db.clone())) {
                Ok(s) => s,
                Err(e) => {
                    // a panic inside the open transaction poisons redb's locks; dropping the
                    // database would panic again and hide the cause
                    std::mem::forget(db);
                    return Err(format!("store-open:{}", e.to_string().replace(' ', "_")));
                }
            };
            let t_open = t0.elapsed();
            let d = self.dump(&db);
            let api = rt.block_on(self.api_check(&store, &db));
            let t_chk = t0.elapsed();
            let _ = rt.block_on(store.close());
            handle.0.lock().unwrap().dead = true;
            drop(db);
            if timing {
                eprintln!("img={:?} open={:?} check={:?} drop={:?}", t_img, t_open, t_chk, t0.elapsed());
            }
            Ok(format!("{d} api={api}"))
        }));
        match r {
            Ok(Ok(s)) => format!("reopen ok {s}"),
            // redb's allocator state on the medium is stale: the first write transaction
            // (RedbStore::new's) panics inside redb's page allocator (task id stripped).  `BuddyAllocator::free`
            // (redb 2.6.3 buddy_allocator.rs:533-538) opens with TWO consecutive assertions about the page being
            // freed: `debug_assert!(self.get_order_free_mut(order).get(page_number))` and
            // `debug_assert!(…allocated…, "Attempted to free page …, which is not allocated")`; which of the
            // two fires depends on the stale bitmaps (S9: the first one had not been seen before)
            Ok(Err(e))
                if e.starts_with("store-open:")
                    && (e.contains("which_is_not_allocated") || e.contains("self.get_order_free_mut(order).get(page_number)")) =>
            {
                "reopen err allocator-corrupt".to_string()
            }
            Ok(Err(e)) => format!("reopen err {e}"),
            Err(p) => {
                let msg = p
                    .downcast_ref::<String>()
                    .cloned()
                    .or_else(|| p.downcast_ref::<&str>().map(|s| s.to_string()))
                    .unwrap_or_default();
                let msg: String = msg.chars().take(120).map(|c| if c.is_whitespace() { '_' } else { c }).collect();
                format!("reopen err panic:{msg}")
            }
        }
    }

    /// MULTI-CRASH: crash at `(e, k)` with subset `mask`, reopen with real redb + `RedbStore::new`
    /// on a fresh LOGGING backend, and CONTINUE THE HISTORY on the recovered store: it becomes the
    /// live store of a new incarnation (whose operation 0 is the reopen itself), so that later
    /// operations and crash points — including crashes during redb's repair-on-open — run on a
    /// database that has already been through a crash.
    fn crash_go(&mut self, eps: &[Vec<Ev>], e: usize, k: usize, mask: &str) -> String {
        let img = self.image(eps, e, k, mask);
        let base = img.clone();
        let rt = self.rt.clone();
        let backend = FaultBackend(Arc::new(Mutex::new(Shared { data: img, log: vec![], no_log: false, dead: false })));
        let r = catch_unwind(AssertUnwindSafe(|| {
            let db = match Database::builder().create_with_backend(backend.clone()) {
                Ok(db) => Arc::new(db),
                Err(e) => return Err(format!("redb-open:{}", e.to_string().replace(' ', "_"))),
            };
            // syncs issued by redb's own repair-on-open, before RedbStore::new starts
            let repair_syncs = backend.0.lock().unwrap().log.iter().filter(|e| matches!(e, Ev::Sync)).count();
            let store = match rt.block_on(RedbStore::new(db.clone())) {
                Ok(s) => s,
                Err(e) => {
                    std::mem::forget(db);
                    return Err(format!("store-open:{}", e.to_string().replace(' ', "_")));
                }
            };
            Ok((db, store, repair_syncs))
        }));
        match r {
            Ok(Ok((db, store, repair_syncs))) => {
                let d = self.dump(&db);
                let api = rt.block_on(self.api_check(&store, &db));
                // retire the crashed incarnation (its process is gone: no clean shutdown)
                if let Some(old) = self.backend.take() {
                    old.0.lock().unwrap().dead = true;
                }
                self.store = None;
                self.db = None;
                self.marks = vec![backend.log_len()];
                self.create_syncs = repair_syncs;
                self.expect = vec![d.clone(), d.clone()];
                self.cache = None;
                self.eps_cache = None;
                self.incarnation += 1;
                self.base = base;
                self.backend = Some(backend);
                self.db = Some(db);
                self.store = Some(store);
                format!("reopen ok {d} api={api}")
            }
            Ok(Err(e)) => format!("reopen err {e}"),
            Err(p) => {
                let msg = p
                    .downcast_ref::<String>()
                    .cloned()
                    .or_else(|| p.downcast_ref::<&str>().map(|s| s.to_string()))
                    .unwrap_or_default();
                let msg: String = msg.chars().take(120).map(|c| if c.is_whitespace() { '_' } else { c }).collect();
                format!("reopen err panic:{msg}")
            }
        }
    }

    /// the store API must agree with the tables: every stored height resolves by height and by
    /// hash to the same header, nothing else resolves, head = max stored
    async fn api_check(&self, store: &RedbStore, db: &Database) -> String {
        let stored = match store.get_stored_header_ranges().await {
            Ok(r) => r,
            Err(e) => return format!("bad-stored-ranges({})", Self::err_kind(&e)),
        };
        let sampled = match store.get_sampled_ranges().await {
            Ok(r) => r,
            Err(_) => return "bad-sampled-ranges".into(),
        };
        let pruned = match store.get_pruned_ranges().await {
            Ok(r) => r,
            Err(_) => return "bad-pruned-ranges".into(),
        };
        let mut max = 0;
        for r in stored.clone().into_inner().iter() {
            for h in *r.start()..=*r.end() {
                max = max.max(h);
                let Ok(hd) = store.get_by_height(h).await else { return format!("bad-get-by-height-{h}") };
                if hd.height() != h {
                    return format!("bad-height-{h}");
                }
                let Ok(hd2) = store.get_by_hash(&hd.hash()).await else { return format!("bad-get-by-hash-{h}") };
                if hd2 != hd || !store.has(&hd.hash()).await || !store.has_at(h).await {
                    return format!("bad-hash-index-{h}");
                }
                if h > 1 && stored.contains(h - 1) {
                    let p = store.get_by_height(h - 1).await.unwrap();
                    if p.verify(&hd).is_err() {
                        return format!("bad-link-{h}");
                    }
                }
            }
        }
        for r in pruned.into_inner().iter().chain(sampled.clone().into_inner().iter()) {
            let _ = r;
        }
        for r in sampled.into_inner().iter() {
            for h in *r.start()..=*r.end() {
                if !stored.contains(h) {
                    return format!("bad-sampled-not-stored-{h}");
                }
            }
        }
        match store.head_height().await {
            Ok(h) if h == max => {}
            Err(StoreError::NotFound) if max == 0 => {}
            _ => return "bad-head".into(),
        }
        if store.get_identity().await.is_err() {
            return "bad-identity".into();
        }
        // heights just outside the stored set do not resolve
        let tx = db.begin_read().unwrap();
        if let Some(t) = exists(tx.open_table(HEADERS_TABLE)) {
            for e in t.iter().unwrap() {
                let (k, _) = e.unwrap();
                if !stored.contains(k.value()) {
                    return format!("bad-orphan-header-{}", k.value());
                }
            }
        }
        "ok".into()
    }
}

// ---------------- the property ----------------

struct C22 {
    rt: Arc<tokio::runtime::Runtime>,
    world: World,
}

/// name^parent of the header of `chain` at height `h` (chain b forks from a at `fork_at`)
fn header(chain: char, h: u64, fork_at: u64) -> String {
    let parent = if h <= 1 {
        "-".to_string()
    } else if chain == 'b' && h == fork_at + 1 {
        format!("a{}", h - 1)
    } else {
        format!("{chain}{}", h - 1)
    };
    format!("{chain}{h}^{parent}")
}

/// stored height -> chain letter, read back from the canonical dump of the real store
fn stored_of(dump: &str) -> std::collections::BTreeMap<u64, char> {
    let mut m = std::collections::BTreeMap::new();
    if let Some(h) = arg(dump, "hdr") {
        if h != "_" {
            for e in h.split(',') {
                if let Some((k, np)) = e.split_once(':') {
                    if let (Ok(k), Some(c)) = (k.parse::<u64>(), np.chars().next()) {
                        m.insert(k, c);
                    }
                }
            }
        }
    }
    m
}

/// choose the next operation from the real store's current content (mostly valid operations,
/// plus every kind of rejected one)
/// heights that carry sampling metadata, from the canonical dump
fn meta_heights(dump: &str) -> Vec<u64> {
    match arg(dump, "meta") {
        Some(m) if m != "_" => m.split(',').filter_map(|e| e.split_once(':').and_then(|(h, _)| h.parse().ok())).collect(),
        _ => vec![],
    }
}

/// S9: a batch at the head whose LAST header repeats the hash of a stored header (`base!hashof`): the redb
/// transaction has already written the headers before it when `HashExists` aborts it
fn dup_hash_op(rng: &mut Rng, st: &std::collections::BTreeMap<u64, char>, fork_at: u64, lead: u64) -> (String, &'static str) {
    let stored: Vec<u64> = st.keys().cloned().collect();
    let max = *stored.last().unwrap();
    let c = st[&max];
    let src = *rng.pick(&stored);
    let mut hs: Vec<String> = (max + 1..max + 1 + lead).map(|h| header(c, h, fork_at)).collect();
    let last = header(c, max + 1 + lead, fork_at);
    let (name, parent) = last.split_once('^').unwrap();
    hs.push(format!("{name}!{}{src}^{parent}", st[&src]));
    (format!("insert hs={}", hs.join(",")), if lead == 0 { "insert/dup-hash-single" } else { "insert/dup-hash-batch-tail" })
}

/// S9: `meta` on a height that already has metadata, the new list overlapping the stored one (and itself)
fn meta_again_op(rng: &mut Rng, dump: &str, h: u64) -> (String, &'static str) {
    let have: Vec<u64> = arg(dump, "meta")
        .and_then(|m| m.split(',').find_map(|e| e.split_once(':').filter(|(k, _)| k.parse() == Ok(h)).map(|(_, c)| c.to_string())))
        .map(|c| c.split('.').filter_map(|x| x.parse().ok()).collect())
        .unwrap_or_default();
    let mut cids: Vec<u64> = vec![];
    if let Some(&x) = have.first() {
        cids.push(x); // already stored: must not be appended again
    }
    let fresh = rng.range(7, 9);
    cids.push(fresh);
    cids.push(fresh); // repeated inside the new list: appended once
    if let Some(&x) = have.last() {
        cids.push(x);
    }
    cids.push(rng.range(1, 6));
    (format!("meta h={h} cids={}", natl(&cids)), "meta/merge-overlapping")
}

fn next_op(rng: &mut Rng, dump: &str, fork_at: u64) -> (String, &'static str) {
    let st = &stored_of(dump);
    let stored: Vec<u64> = st.keys().cloned().collect();
    let k = rng.below(100);
    if stored.is_empty() {
        // first insert: from genesis, or from a later height
        let start = if rng.chance(1, 3) { rng.range(2, 6) } else { 1 };
        let len = rng.range(1, 4);
        let hs: Vec<String> = (start..start + len).map(|h| header('a', h, fork_at)).collect();
        return (format!("insert hs={}", hs.join(",")), "insert/first");
    }
    let max = *stored.last().unwrap();
    let head_chain = st[&max];
    if k < 28 {
        let len = rng.range(1, 4);
        let chain = if head_chain == 'a' && max == fork_at && rng.chance(1, 3) { 'b' } else { head_chain };
        let hs: Vec<String> = (max + 1..max + 1 + len).map(|h| header(chain, h, fork_at)).collect();
        (format!("insert hs={}", hs.join(",")), "insert/append")
    } else if k < 38 {
        let start = max + 1 + rng.range(1, 4);
        let len = rng.range(1, 3);
        let hs: Vec<String> = (start..start + len).map(|h| header(head_chain, h, fork_at)).collect();
        (format!("insert hs={}", hs.join(",")), "insert/new-head-after-gap")
    } else if k < 55 {
        let holes: Vec<u64> = (1..max).filter(|h| !st.contains_key(h)).collect();
        if holes.is_empty() {
            return (format!("mark h={}", rng.pick(&stored)), "mark");
        }
        let h0 = *rng.pick(&holes);
        let (mut lo, mut hi) = (h0, h0);
        while rng.chance(2, 3) && lo > 1 && !st.contains_key(&(lo - 1)) {
            lo -= 1;
        }
        while rng.chance(2, 3) && !st.contains_key(&(hi + 1)) {
            hi += 1;
        }
        // chain of the batch: that of a neighbour (so that it links), sometimes the other one
        let nb = st.get(&(hi + 1)).or(st.get(&(lo.saturating_sub(1)))).cloned().unwrap_or('a');
        let chain = if rng.chance(1, 6) { if nb == 'a' { 'b' } else { 'a' } } else { nb };
        let chain = if chain == 'b' && lo <= fork_at { 'a' } else { chain };
        let hs: Vec<String> = (lo..=hi).map(|h| header(chain, h, fork_at)).collect();
        (format!("insert hs={}", hs.join(",")), "insert/gap-fill")
    } else if k < 64 {
        match rng.below(7) {
            4 => ("insert hs=_".to_string(), "insert/empty-batch"),
            5 => dup_hash_op(rng, st, fork_at, 0),
            6 => {
                let lead = rng.range(1, 2);
                dup_hash_op(rng, st, fork_at, lead)
            }
            0 => {
                let h = *rng.pick(&stored);
                (format!("insert hs={},{}", header(st[&h], h, fork_at), header(st[&h], h + 1, fork_at)), "insert/overlap")
            }
            1 => {
                let other = if head_chain == 'a' { 'b' } else { 'a' };
                let h = (max + 1).max(fork_at + 2);
                (format!("insert hs={}", header(other, h, fork_at)), "insert/fork-at-head")
            }
            2 => {
                let h = max + 2;
                (format!("insert hs={},{}", header(head_chain, h, fork_at), header(head_chain, h + 2, fork_at)), "insert/broken-batch")
            }
            _ => {
                let h = max + 3;
                (format!("insert hs={},{}", header(head_chain, h + 1, fork_at), header(head_chain, h, fork_at)), "insert/descending-batch")
            }
        }
    } else if k < 75 {
        let h = if rng.chance(4, 5) { *rng.pick(&stored) } else { rng.range(1, 59) };
        (format!("mark h={h}"), "mark")
    } else if k < 88 {
        let with_meta: Vec<u64> = meta_heights(dump).into_iter().filter(|h| st.contains_key(h)).collect();
        if !with_meta.is_empty() && rng.chance(1, 2) {
            let h = *rng.pick(&with_meta);
            return meta_again_op(rng, dump, h);
        }
        let h = if rng.chance(4, 5) { *rng.pick(&stored) } else { rng.range(1, 59) };
        let n = rng.usize(0, 3);
        let cids: Vec<u64> = (0..n).map(|_| rng.range(1, 6)).collect();
        (format!("meta h={h} cids={}", natl(&cids)), "meta")
    } else {
        let h = match rng.below(5) {
            0 | 1 => stored[0],
            2 => max,
            3 => *rng.pick(&stored),
            _ => rng.range(1, 59),
        };
        (format!("remove h={h}"), "remove")
    }
}

#[derive(Clone)]
struct CrashPoint {
    e: usize,
    k: usize,
    mask: String,
    n: usize,
    sig: u64,
    vis: usize,
    in_flight: bool,
}

/// every event boundary of the operation that has just run on `w` is a crash point; emits one
/// `crash` (or `crash0`) line per point and surviving-subset mask, returns the `crash` points
fn emit_crash_points(w: &mut World, rng: &mut Rng, out: &mut Emitter, prev_ep: &mut usize, seeds: usize) -> Vec<CrashPoint> {
    let mut cands = vec![];
    let idx = w.marks.len() - 1; // index of this op in its incarnation (0 = open / reopen)
    let eps = w.epochs();
    let cur_ep = w.mark_epochs()[idx];
    // crash points of this operation: (e, k) for its epochs; (cur_ep, 0) = it has returned
    let mut points: Vec<(usize, usize)> = vec![];
    for e in *prev_ep..cur_ep {
        let lo = if e == *prev_ep && idx != 0 { 1 } else { 0 };
        for k in lo..=eps[e].len() {
            points.push((e, k));
        }
    }
    if cur_ep != *prev_ep || idx == 0 {
        points.push((cur_ep, 0));
    }
    for (e, k) in points {
        let n = w.returned_at(e);
        let in_flight = e < cur_ep;
        let sig = log_sig(&eps, e);
        let mut masks: Vec<String> = vec!["all".into()];
        if k > 0 {
            masks.push("none".into());
            masks.push("hdr".into());
            masks.push("nohdr".into());
            if k > 1 {
                masks.push("last".into());
                masks.push("butlast".into());
                for _ in 0..seeds {
                    masks.push(rng.range(1, 1 << 40).to_string());
                }
            }
        }
        for m in masks {
            let obs = w.crash(&eps, e, k, &m);
            if idx == 0 && e < w.create_syncs && w.incarnation == 0 {
                // redb's own Database::create is still running: RedbStore::new has not
                // started, the store does not exist yet (outside the property)
                let outc = if obs.starts_with("reopen ok") { "ok" } else { "invalid" };
                out.op(format!("crash0 ep={e} k={k} mask={m} sig={sig} out={outc}"), "crash0/during-redb-create", false);
                continue;
            }
            if idx == 0 && e < w.create_syncs {
                // SECOND crash, while redb's repair-on-open of the FIRST crash is running (before
                // RedbStore::new starts).  The store exists and holds acknowledged data: the
                // property applies.  redb's outcome is nondeterministic input of the model line
                // (`out=`); the spec judges it.
                let outc = if obs.starts_with("reopen ok") {
                    "ok"
                } else if obs == "reopen err allocator-corrupt" {
                    "corrupt"
                } else {
                    "other"
                };
                out.op(
                    format!("crashr ep={e} k={k} mask={m} n={n} sig={sig} out={outc}"),
                    &format!("crashr/during-redb-repair-on-open/{outc}"),
                    true,
                );
                continue;
            }
            let o = obs.strip_prefix("reopen ok ").unwrap_or("").rsplit_once(" api=").map(|x| x.0).unwrap_or("");
            let vis = if o == w.expect[n] {
                0
            } else if n + 1 < w.expect.len() && o == w.expect[n + 1] {
                1
            } else {
                0
            };
            let later = w.incarnation > 0;
            let tag = if idx == 0 && in_flight {
                if later { "crash/during-reopen-after-crash" } else { "crash/during-first-open" }
            } else if in_flight {
                match (vis == 1, later) {
                    (true, false) => "crash/in-flight-visible",
                    (false, false) => "crash/in-flight-invisible",
                    (true, true) => "crash/later-incarnation-in-flight-visible",
                    (false, true) => "crash/later-incarnation-in-flight-invisible",
                }
            } else if later {
                "crash/later-incarnation-between-ops"
            } else {
                "crash/between-ops"
            };
            out.op(format!("crash ep={e} k={k} mask={m} n={n} sig={sig} vis={vis}"), tag, in_flight);
            cands.push(CrashPoint { e, k, mask: m, n, sig, vis, in_flight });
        }
    }
    *prev_ep = cur_ep;
    cands
}

impl Prop for C22 {
    fn id(&self) -> &'static str {
        "C22"
    }
    fn rule(&self) -> &'static str {
        "histories of real RedbStore operations (open; insert of verified batches: append, new head after a gap, \
         gap fill from either side, merge of two ranges, overlapping / non-adjacent / forked / internally broken \
         batches; mark_as_sampled; update_sampling_metadata; remove_height; operations on missing heights) over a \
         fault-injecting in-memory redb::StorageBackend; after every operation EVERY write/set_len/sync boundary \
         of its backend events is a crash point, each with the unsynced writes kept all / none / only the header \
         page / all but the header page / only the last / all but the last / random subsets; the image is reopened \
         with real redb + RedbStore::new, raw tables dumped, store API cross-checked; twice per history a `crashgo` \
         continues the history ON the recovered database (multi-crash: later operations, and crash points during \
         redb's repair-on-open, run on a store that has already crashed). Non-trivial = a crash point \
         strictly inside an operation's events (an operation is in flight) or any store operation line."
    }
    fn gen_ops(&mut self, rng: &mut Rng, tier: Tier, out: &mut Emitter) {
        let (histories, max_ops, seeds) = if tier == Tier::Thorough { (40, 24, 8) } else { (5, 10, 2) };
        for hist in 0..histories {
            let mut w = World::new(self.rt.clone());
            out.op("reset", "reset", false);
            let fork_at = rng.range(3, 12);
            let uni = format!("universe chains=a:1-60,b@a{fork_at}:{}-60", fork_at + 1);
            w.exec(&uni);
            out.op(uni, "universe", false);
            let n_ops = rng.usize(max_ops / 2, max_ops);
            // after these operations the history goes through a crash and CONTINUES on the recovered
            // database (multi-crash); most histories crash twice
            let go_at: Vec<usize> = vec![rng.usize(1, n_ops.max(1)), rng.usize(1, n_ops.max(1))];
            let mut prev_ep = 0usize;
            // S9: every history REPLACES two of its random operations (so the number of operations, and with it
            // the number of crash points, stays what it was) by the classes the random mix rarely reaches in
            // 5..10 operations: a second `meta` on a height that has metadata (merge branch), an insert whose last
            // header repeats a stored hash (`HashExists` after the transaction has written), the empty batch
            let forced_at = [n_ops.saturating_sub(1).max(2), n_ops.max(3)];
            for i in 0..=n_ops {
                // choose the next operation from what the real store holds now, run it
                let dump = w.expect.last().cloned().unwrap_or_default();
                let st = stored_of(&dump);
                let forced = if i >= 2 && forced_at.contains(&i) && !st.is_empty() {
                    let with_meta: Vec<u64> = meta_heights(&dump).into_iter().filter(|h| st.contains_key(h)).collect();
                    let second = i == forced_at[1];
                    Some(match (hist % 3, second) {
                        (0, false) if with_meta.is_empty() => {
                            let h = *st.keys().next_back().unwrap();
                            (format!("meta h={h} cids=1,2"), "meta")
                        }
                        (0, _) if !with_meta.is_empty() => {
                            let h = *rng.pick(&with_meta);
                            meta_again_op(rng, &dump, h)
                        }
                        (0, _) => (format!("meta h={} cids=2,3", st.keys().next().unwrap()), "meta"),
                        (1, false) => dup_hash_op(rng, &st, fork_at, 0),
                        (1, true) => ("insert hs=_".to_string(), "insert/empty-batch"),
                        (_, false) => {
                            let lead = rng.range(1, 2);
                            dup_hash_op(rng, &st, fork_at, lead)
                        }
                        (_, true) => match with_meta.first() {
                            Some(&h) => meta_again_op(rng, &dump, h),
                            None => (format!("meta h={} cids=4,4,5", st.keys().next_back().unwrap()), "meta"),
                        },
                    })
                } else {
                    None
                };
                let (line, tag) = if i == 0 {
                    ("open".to_string(), "open")
                } else if let Some(f) = forced {
                    f
                } else {
                    next_op(rng, &dump, fork_at)
                };
                let res = w.exec(&line);
                if res.starts_with("bad-op") {
                    continue;
                }
                out.op(line.clone(), tag, true);
                let cands = emit_crash_points(&mut w, rng, out, &mut prev_ep, seeds);
                if i >= 1 && go_at.contains(&i) && !cands.is_empty() {
                    // prefer a point where the operation is in flight
                    let inflight: Vec<&CrashPoint> = cands.iter().filter(|c| c.in_flight).collect();
                    let c = if !inflight.is_empty() && rng.chance(3, 4) {
                        (*rng.pick(&inflight)).clone()
                    } else {
                        rng.pick(&cands).clone()
                    };
                    let eps = w.epochs();
                    let obs = w.crash_go(&eps, c.e, c.k, &c.mask);
                    out.op(
                        format!("crashgo ep={} k={} mask={} n={} sig={} vis={}", c.e, c.k, c.mask, c.n, c.sig, c.vis),
                        if c.in_flight { "crashgo/in-flight" } else { "crashgo/between-ops" },
                        true,
                    );
                    if !obs.starts_with("reopen ok") {
                        break;
                    }
                    // the reopen (redb repair-on-open + RedbStore::new) is operation 0 of the new
                    // incarnation: its event boundaries are crash points too (crash during recovery)
                    prev_ep = 0;
                    emit_crash_points(&mut w, rng, out, &mut prev_ep, seeds);
                }
            }
        }
    }
    fn run(&mut self, line: &str) -> String {
        match opname(line) {
            "reset" => {
                self.world = World::new(self.rt.clone());
                "ok".into()
            }
            "points" => {
                // debugging aid (never generated): epochs of the log with their sizes and signatures
                if self.world.backend.is_none() {
                    return "bad-op no-history".into();
                }
                let eps = self.world.epochs();
                let v: Vec<String> =
                    (0..eps.len()).map(|e| format!("ep={e}:len={}:sig={}", eps[e].len(), log_sig(&eps, e))).collect();
                format!("mark_epochs={:?} {}", self.world.mark_epochs(), v.join(" "))
            }
            "logdump" => {
                // debugging aid (never generated): structure of the backend event log
                let Some(be) = self.world.backend.as_ref() else { return "bad-op no-history".into() };
                let g = be.0.lock().unwrap();
                let v: Vec<String> = g
                    .log
                    .iter()
                    .map(|e| match e {
                        Ev::Write { off, data } => format!("W{off}+{}", data.len()),
                        Ev::SetLen(n) => format!("L{n}"),
                        Ev::Sync => "S".into(),
                    })
                    .collect();
                format!("marks={:?} {}", self.world.marks, v.join(","))
            }
            v @ ("crash" | "crash0" | "crashgo" | "crashr") => {
                let (Some(e), Some(k), Some(mask), Some(sig)) =
                    (arg_u64(line, "ep"), arg_u64(line, "k"), arg(line, "mask"), arg_u64(line, "sig"))
                else {
                    return "bad-op".into();
                };
                let (e, k) = (e as usize, k as usize);
                if self.world.backend.is_none() {
                    return "bad-op no-history".into();
                }
                let eps = self.world.epochs();
                if e >= eps.len() || k > eps[e].len() {
                    return format!("bad-crash-point epochs={}", eps.len());
                }
                if log_sig(&eps, e) != sig {
                    return "nondeterministic-log".into();
                }
                if v != "crash0" {
                    let Some(n) = arg_u64(line, "n") else { return "bad-op".into() };
                    if self.world.returned_at(e) != n as usize {
                        return format!("bad-crash-point returned={}", self.world.returned_at(e));
                    }
                }
                if v == "crashgo" { self.world.crash_go(&eps, e, k, mask) } else { self.world.crash(&eps, e, k, mask) }
            }
            _ => self.world.exec(line),
        }
    }
    fn result_tag(&self, line: &str, result: &str) -> Option<String> {
        let mut w = result.split(' ');
        let a = w.next().unwrap_or("");
        let b = w.next().unwrap_or("");
        Some(match (opname(line), a) {
            ("crash" | "crash0" | "crashgo" | "crashr", _) => format!("{a}-{b}"),
            (_, "err") => format!("err-{b}"),
            _ => a.to_string(),
        })
    }
}

fn main() {
    let rt = Arc::new(tokio::runtime::Builder::new_multi_thread().worker_threads(1).enable_all().build().unwrap());
    let world = World::new(rt.clone());
    main_for(C22 { rt, world });
}

//! C26 — A header session returns exactly the requested range.
//!
//! The REAL `HeaderSession` (lumina_node::verif::p2p::header_session) runs on a command channel
//! owned by the harness.  Its `run()` future is polled by hand with a no-op waker: one op =
//! answer exactly one outstanding request, poll until the session is idle again, collect the
//! requests it issued meanwhile.  The scheduler is therefore entirely the op list.
use std::future::Future;
use std::pin::Pin;
use std::sync::OnceLock;
use std::task::{Context, Poll};

use celestia_types::ExtendedHeader;
use celestia_types::test_utils::ExtendedHeaderGenerator;
use lumina_node::verif::p2p::header_session as hs;
use lumina_node::node::{HeaderExError, P2pError};
use verif_harness::*;

const POOL: u64 = 2700;

/// one header per height 1..=POOL (a single valid chain)
fn pool() -> &'static Vec<ExtendedHeader> {
    static P: OnceLock<Vec<ExtendedHeader>> = OnceLock::new();
    P.get_or_init(|| ExtendedHeaderGenerator::new().next_many_empty(POOL))
}

fn header(h: u64) -> Option<ExtendedHeader> {
    if h >= 1 && h <= POOL { Some(pool()[(h - 1) as usize].clone()) } else { None }
}

/// `a-b,c,d-e` ↦ heights
fn parse_runs(s: &str) -> Option<Vec<u64>> {
    if s == "-" {
        return Some(vec![]);
    }
    let mut out = vec![];
    for item in s.split(',') {
        match item.split_once('-') {
            None => out.push(item.parse().ok()?),
            Some((a, b)) => {
                let (a, b): (u64, u64) = (a.parse().ok()?, b.parse().ok()?);
                if a > b || b - a > 100_000 {
                    return None;
                }
                out.extend(a..=b);
            }
        }
    }
    Some(out)
}

fn show_runs(v: &[u64]) -> String {
    if v.is_empty() {
        return "-".into();
    }
    let mut items = vec![];
    let (mut lo, mut hi) = (v[0], v[0]);
    let push = |items: &mut Vec<String>, lo: u64, hi: u64| {
        items.push(if lo == hi { lo.to_string() } else { format!("{lo}-{hi}") })
    };
    for &x in &v[1..] {
        if hi.checked_add(1) == Some(x) {
            hi = x;
        } else {
            push(&mut items, lo, hi);
            lo = x;
            hi = x;
        }
    }
    push(&mut items, lo, hi);
    items.join(",")
}

fn show_reqs(mut v: Vec<(u64, u64)>) -> String {
    if v.is_empty() {
        return "-".into();
    }
    v.sort();
    v.iter().map(|(h, a)| format!("{h}+{a}")).collect::<Vec<_>>().join(",")
}

fn err_kind(e: &P2pError) -> String {
    let s = format!("{e:?}");
    s.split(|c: char| !c.is_alphanumeric()).next().unwrap_or("?").to_string()
}

type RunFut = Pin<Box<dyn Future<Output = Result<Vec<ExtendedHeader>, P2pError>>>>;

struct Live {
    fut: Option<RunFut>,
    rx: hs::CmdRx,
    outstanding: Vec<(u64, u64, hs::Responder)>,
    batch_size: u64,
}

impl Live {
    fn start(s: u64, e: u64, cap: usize) -> Live {
        let (session, rx) = hs::session(s, e, cap.max(1));
        let batch_size = session.batch_size();
        let fut: RunFut = Box::pin(async move {
            let mut session = session;
            session.run().await
        });
        Live { fut: Some(fut), rx, outstanding: vec![], batch_size }
    }

    /// poll until idle; returns (newly issued requests, completion)
    fn settle(&mut self) -> (Vec<(u64, u64)>, Option<Result<Vec<ExtendedHeader>, P2pError>>) {
        let waker = futures::task::noop_waker();
        let mut cx = Context::from_waker(&waker);
        let mut issued = vec![];
        let mut done = None;
        for _round in 0..64 {
            if let Some(f) = self.fut.as_mut() {
                if let Poll::Ready(r) = f.as_mut().poll(&mut cx) {
                    done = Some(r);
                    self.fut = None;
                }
            }
            let mut got = false;
            while let Some((req, tx)) = self.rx.try_next() {
                let origin = match req.data {
                    Some(celestia_proto::p2p::pb::header_request::Data::Origin(o)) => o,
                    _ => u64::MAX,
                };
                issued.push((origin, req.amount));
                self.outstanding.push((origin, req.amount, tx));
                got = true;
            }
            if !got || self.fut.is_none() {
                break;
            }
        }
        if self.fut.is_none() {
            self.outstanding.clear();
        }
        (issued, done)
    }

    fn take(&mut self, h: u64, a: u64) -> Option<hs::Responder> {
        let i = self.outstanding.iter().position(|(hh, aa, _)| *hh == h && *aa == a)?;
        Some(self.outstanding.remove(i).2)
    }
}

fn finish_line(issued: Vec<(u64, u64)>, done: Option<Result<Vec<ExtendedHeader>, P2pError>>) -> String {
    let mut line = format!("reqs={}", show_reqs(issued));
    match done {
        None => {}
        Some(Ok(hdrs)) => {
            let hts: Vec<u64> = hdrs.iter().map(|h| h.height()).collect();
            line.push_str(&format!(" done={}", show_runs(&hts)));
        }
        Some(Err(e)) => line.push_str(&format!(" fail={}", err_kind(&e))),
    }
    line
}

fn hx_err(kind: &str) -> Option<HeaderExError> {
    Some(match kind {
        "HeaderNotFound" => HeaderExError::HeaderNotFound,
        "InvalidResponse" => HeaderExError::InvalidResponse,
        "InvalidRequest" => HeaderExError::InvalidRequest,
        "RequestCancelled" => HeaderExError::RequestCancelled,
        "OutboundFailure" => HeaderExError::OutboundFailure(libp2p::request_response::OutboundFailure::Timeout),
        _ => return None,
    })
}

struct C26 {
    live: Option<Live>,
}

impl C26 {
    fn exec(&mut self, line: &str) -> String {
        match opname(line) {
            "reset" => {
                self.live = None;
                "ok".into()
            }
            "start" => {
                let (Some(s), Some(e)) = (arg_u64(line, "s"), arg_u64(line, "e")) else { return "bad-op".into() };
                let cap = arg_u64(line, "cap").unwrap_or(16) as usize;
                self.live = None;
                let mut live = Live::start(s, e, cap);
                let (issued, done) = live.settle();
                let bs = live.batch_size;
                self.live = Some(live);
                format!("bs={bs} {}", finish_line(issued, done))
            }
            "tnb" => {
                let (Some(r), Some(limit)) = (arg(line, "r"), arg_u64(line, "limit")) else { return "bad-op".into() };
                let r = if r == "none" {
                    None
                } else {
                    let Some((a, b)) = r.split_once('-') else { return "bad-op".into() };
                    let (Ok(a), Ok(b)) = (a.parse::<u64>(), b.parse::<u64>()) else { return "bad-op".into() };
                    Some((a, b))
                };
                let (rest, batch) = hs::take_next_batch_pairs(r, limit);
                let sh = |x: Option<(u64, u64)>| x.map(|(a, b)| format!("{a}-{b}")).unwrap_or("none".into());
                format!("rest={} batch={}", sh(rest), sh(batch))
            }
            op @ ("resp" | "err" | "fatal") => {
                let (Some(h), Some(a)) = (arg_u64(line, "h"), arg_u64(line, "a")) else { return "bad-op".into() };
                // parse the payload before touching the session
                let payload: Result<Vec<ExtendedHeader>, Option<P2pError>> = match op {
                    "resp" => {
                        let Some(hts) = arg(line, "hs").and_then(parse_runs) else { return "bad-op".into() };
                        let Some(hdrs) = hts.iter().map(|&x| header(x)).collect::<Option<Vec<_>>>() else {
                            return "bad-op".into();
                        };
                        Ok(hdrs)
                    }
                    "err" => match arg(line, "kind").and_then(hx_err) {
                        Some(e) => Err(Some(P2pError::HeaderEx(e))),
                        None => return "bad-op".into(),
                    },
                    _ => match arg(line, "kind") {
                        Some("ChannelClosedUnexpectedly") => Err(None),
                        Some("WorkerDied") => Err(Some(P2pError::WorkerDied)),
                        Some("RequestTimedOut") => Err(Some(P2pError::RequestTimedOut)),
                        _ => return "bad-op".into(),
                    },
                };
                let Some(live) = self.live.as_mut() else { return "bad-ev".into() };
                let Some(tx) = live.take(h, a) else { return "bad-ev".into() };
                match payload {
                    Ok(hdrs) => {
                        let _ = tx.send(Ok(hdrs));
                    }
                    Err(Some(e)) => {
                        let _ = tx.send(Err(e));
                    }
                    Err(None) => drop(tx),
                }
                let (issued, done) = live.settle();
                finish_line(issued, done)
            }
            _ => "bad-op".into(),
        }
    }

    /// generate one session history by driving a live session
    fn gen_session(&mut self, rng: &mut Rng, out: &mut Emitter, s: u64, e: u64, mode: u64, tagp: &str) {
        out.op("reset", "reset", false);
        let cap = *rng.pick(&[1u64, 2, 3, 8, 16, 16, 16, 64]);
        let start = format!("start s={s} e={e} cap={cap}");
        self.exec("reset");
        self.exec(&start);
        out.op(start, &format!("{tagp}/start"), true);
        let mut steps = 0u64;
        // modes: 0 full in FIFO, 1 full LIFO, 2 random full, 3 random mix (prefixes, empties, errors),
        //        4 mix + one inadmissible event, 5 mix + fatal, 6 trickle (1 header at a time)
        let mut inadmissible_left = if mode == 4 { 1 } else { 0 };
        let mut fatal_at = if mode == 5 { Some(rng.range(0, 30)) } else { None };
        let mut next_foreign = e + 1;
        loop {
            let n = match self.live.as_ref() {
                Some(l) if l.fut.is_some() && !l.outstanding.is_empty() => l.outstanding.len(),
                _ => break,
            };
            steps += 1;
            if steps > 6000 {
                break;
            }
            let i = match mode {
                0 => 0,
                1 => n - 1,
                _ => rng.usize(0, n - 1),
            };
            let (h, a) = {
                let o = &self.live.as_ref().unwrap().outstanding[i];
                (o.0, o.1)
            };
            let line;
            let tag;
            if fatal_at == Some(steps) {
                fatal_at = None;
                let k = *rng.pick(&["ChannelClosedUnexpectedly", "WorkerDied", "RequestTimedOut"]);
                line = format!("fatal h={h} a={a} kind={k}");
                tag = "ev/fatal";
            } else if inadmissible_left > 0 && rng.chance(1, 2) && a >= 1 && h + a + 8 <= POOL {
                inadmissible_left -= 1;
                if rng.bool() {
                    // over-long answer starting at the right height
                    let k = a + rng.range(1, 8);
                    line = format!("resp h={h} a={a} hs={}", show_runs(&(h..h + k).collect::<Vec<_>>()));
                    tag = "ev/inadmissible-overlong";
                } else {
                    // headers of the wrong heights (fresh first height so that sort keys stay distinct)
                    let k = rng.range(1, a.min(6));
                    let f = next_foreign;
                    next_foreign += k + 1;
                    if f + k > POOL {
                        break;
                    }
                    line = format!("resp h={h} a={a} hs={}", show_runs(&(f..f + k).collect::<Vec<_>>()));
                    tag = "ev/inadmissible-wrong-heights";
                }
            } else {
                let roll = if mode <= 2 { 0 } else if mode == 6 { 50 } else { rng.below(100) };
                if a == 0 {
                    // empty request (only for empty ranges): the real client answers InvalidRequest
                    line = format!("err h={h} a={a} kind=InvalidRequest");
                    tag = "ev/err";
                    if steps > 12 {
                        out.op(line, tag, true);
                        break;
                    }
                } else if roll < 45 {
                    line = format!("resp h={h} a={a} hs={}", show_runs(&(h..h + a).collect::<Vec<_>>()));
                    tag = "ev/full";
                } else if roll < 75 {
                    let k = if mode == 6 { 1.min(a) } else { rng.range(1, a) };
                    line = format!("resp h={h} a={a} hs={}", show_runs(&(h..h + k).collect::<Vec<_>>()));
                    tag = if k == a { "ev/full" } else { "ev/prefix" };
                } else if roll < 83 {
                    line = format!("resp h={h} a={a} hs=-");
                    tag = "ev/empty";
                } else {
                    let k = *rng.pick(&["HeaderNotFound", "InvalidResponse", "OutboundFailure", "RequestCancelled", "InvalidRequest"]);
                    line = format!("err h={h} a={a} kind={k}");
                    tag = "ev/err";
                }
            }
            self.exec(&line);
            out.op(line, tag, true);
        }
        // a stale event after the end of the session
        if rng.chance(1, 4) {
            out.op(format!("resp h={s} a=1 hs={s}"), "ev/stale", false);
        }
        self.exec("reset");
    }
}

impl Prop for C26 {
    fn id(&self) -> &'static str {
        "C26"
    }
    fn rule(&self) -> &'static str {
        "Histories of the real HeaderSession on a harness-owned command channel (channel capacity 1..64), one op = one \
         answered request: ranges of every length 1..130 and random lengths up to 2000 (thorough: every length 1..2000) \
         at random start heights; schedulers FIFO / LIFO / random; answers full, proper prefixes, empty, one header at a \
         time, every HeaderEx error kind; plus out-of-property streams (over-long answers, wrong heights, fatal errors, \
         empty ranges, stale events) and direct take_next_batch calls incl. limit 0, None and u64::MAX boundaries; S10 \
         size-threshold sessions (tags thr/…): lengths 55..57, 255..257, 503..505, 511..513, 519..521, 575..577, 1023..1025, \
         2000, 2001, 2047..2049, 2499, 2600, 2690 (every boundary of the 8..=64 batch-size clamp and of the 8 concurrent \
         requests, powers of two +-1, 2000+ headers), full answers in the three orderings plus the random mix for 511..513 \
         (thorough: all), and take_next_batch at limits 127..129 / 511..513 with ranges of limit-1 / limit / limit+1 / 2*limit / 2000+. \
         Non-trivial = every session op (start / answered request); distinct = distinct (op, result) lines."
    }
    fn gen_ops(&mut self, rng: &mut Rng, tier: Tier, out: &mut Emitter) {
        let thorough = tier == Tier::Thorough;
        // take_next_batch directly
        let tn = if thorough { 3000 } else { 300 };
        for _ in 0..tn {
            let rl = rng.range(0, 100);
            let limit = *rng.pick(&[0u64, 1, 2, 7, 8, 9, 63, 64, 65, u64::MAX, rl]);
            let r = match rng.below(12) {
                0 => "none".to_string(),
                1 => format!("0-{}", u64::MAX),
                2 => format!("1-{}", u64::MAX),
                3 => {
                    let e = u64::MAX - rng.below(3);
                    format!("{}-{e}", e - rng.below(200).min(e))
                }
                4 => {
                    // empty / reversed
                    let s = rng.range(1, 100);
                    format!("{s}-{}", s - rng.range(1, s))
                }
                _ => {
                    let s = rng.range(0, 50);
                    format!("{s}-{}", s + rng.below(200))
                }
            };
            out.op(format!("tnb r={r} limit={limit}"), "tnb", true);
        }
        out.op(format!("start s=0 e={}", u64::MAX), "start/len-overflow", true);
        // every small length, full answers, three orderings
        let small = if thorough { 2000 } else { 130 };
        for len in 1..=small {
            let mode = len % 3;
            let s = if len % 5 == 0 { rng.range(1, POOL - 2100) } else { 1 };
            self.gen_session(rng, out, s, s + len - 1, mode, "exh");
        }
        // random sessions
        let n = if thorough { 1500 } else { 60 };
        for k in 0..n {
            let len = match rng.below(6) {
                0 => rng.range(1, 20),
                1 => rng.range(60, 70),
                2 => rng.range(500, 530),
                3 => rng.range(1, 2000),
                _ => rng.range(1, 700),
            };
            let s = rng.range(1, POOL - 2100);
            let mode = match k % 10 {
                0 | 3 => 4,
                1 => 5,
                2 => 6,
                _ => 3,
            };
            let len = if mode == 6 { len.min(120) } else { len };
            self.gen_session(rng, out, s, s + len - 1, mode, "rnd");
        }
        // S10 size-threshold stress: range lengths straddling every boundary of the batch-size clamp
        // (ceil(len/8) clamped to 8..=64: 56/57, 64/65, 504/505, 512/513), of the 8 concurrent requests
        // (8*64 = 512, 9*64 = 576) and powers of two, plus 2000+ header ranges; full answers in the three
        // orderings, and the random mix (prefixes / empties / errors) for 511/512/513 (thorough: for all)
        let thr: [u64; 29] = [
            55, 56, 57, 255, 256, 257, 503, 504, 505, 511, 512, 513, 519, 520, 521, 575, 576, 577, 1023, 1024, 1025, 2000, 2001,
            2047, 2048, 2049, 2499, 2600, 2690,
        ];
        for (k, &len) in thr.iter().enumerate() {
            let s = if k % 2 == 0 { 1 } else { rng.range(1, POOL - len - 9) };
            self.gen_session(rng, out, s, s + len - 1, (k % 3) as u64, "thr");
            if thorough || (511..=513).contains(&len) {
                let s = rng.range(1, POOL - len - 9);
                self.gen_session(rng, out, s, s + len - 1, 3, "thr-mix");
            }
        }
        // take_next_batch at limits 127..129 / 511..513 with ranges of limit-1, limit, limit+1, 2*limit and 2000+ heights
        for limit in [127u64, 128, 129, 511, 512, 513] {
            for l in [limit - 1, limit, limit + 1, 2 * limit, 2 * limit + 1, 2000 + rng.below(700)] {
                let s = rng.range(0, 50);
                out.op(format!("tnb r={s}-{} limit={limit}", s + l - 1), "thr/tnb", true);
            }
        }
        // empty ranges (outside the property: the session asks for 0 headers and retries)
        for _ in 0..3 {
            let s = rng.range(2, 50);
            self.gen_session(rng, out, s, s - 1, 3, "empty-range");
        }
    }
    fn run(&mut self, line: &str) -> String {
        self.exec(line)
    }
    fn result_tag(&self, _line: &str, result: &str) -> Option<String> {
        let class = if result.contains(" done=") {
            "done"
        } else if result.contains(" fail=") {
            "fail"
        } else if result.contains("reqs=-") {
            "no-new-request"
        } else if result.contains("reqs=") {
            "new-request"
        } else {
            result.split(' ').next().unwrap_or("")
        };
        Some(class.to_string())
    }
}

fn main() {
    let _ = pool();
    main_for(C26 { live: None });
}

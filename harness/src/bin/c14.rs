//! C14 — Namespaces are validated, ordered and round-trip.
use celestia_types::nmt::{NS_ID_SIZE, NS_SIZE, Namespace};
use verif_harness::*;

struct C14;

fn show(r: celestia_types::Result<Namespace>) -> String {
    match r {
        Ok(ns) => format!("ok {}", hx(ns.as_bytes())),
        Err(e) => {
            use celestia_types::Error::*;
            let k = match e {
                InvalidNamespaceSize => "InvalidNamespaceSize".to_string(),
                InvalidNamespaceV0 => "InvalidNamespaceV0".to_string(),
                InvalidNamespaceV255 => "InvalidNamespaceV255".to_string(),
                UnsupportedNamespaceVersion(n) => format!("UnsupportedNamespaceVersion({n})"),
                other => format!("Other({other})"),
            };
            format!("err {k}")
        }
    }
}

/// a namespace value from raw bytes WITHOUT validation is not constructible through the
/// public API, so ops that take `ns=` are only generated for valid namespaces.
fn ns_of(hexs: &str) -> Option<Namespace> {
    Namespace::from_raw(&unhx(hexs)?).ok()
}

fn valid_ns(rng: &mut Rng) -> Vec<u8> {
    let mut b = vec![0u8; NS_SIZE];
    match rng.below(10) {
        0 => {
            // small primary-reserved-ish
            b[NS_SIZE - 1] = rng.byte();
        }
        1 => {
            b = vec![0xff; NS_SIZE];
            b[NS_SIZE - 1] = rng.byte();
        }
        2 => {
            // around the primary reserved boundary: id = 0x00..00 01 xx or 00 ff / 01 00
            b[NS_SIZE - 1] = *rng.pick(&[0x00, 0x01, 0xfe, 0xff]);
            b[NS_SIZE - 2] = *rng.pick(&[0x00, 0x00, 0x01]);
        }
        3 => {
            b = vec![0xff; NS_SIZE];
            b[NS_SIZE - 1] = *rng.pick(&[0x00, 0x01, 0xfe, 0xff]);
        }
        _ => {
            let n = rng.usize(1, 10);
            for i in 0..n {
                b[NS_SIZE - 1 - i] = rng.byte();
            }
        }
    }
    b
}

impl Prop for C14 {
    fn id(&self) -> &'static str {
        "C14"
    }
    fn rule(&self) -> &'static str {
        "from_raw/new/new_v0/new_v255 on valid v0/v255 namespaces, every single-byte corruption of every \
         prefix position, every id length 0..40, all 256 versions; cmp on pairs that share a random-length \
         prefix; is_reserved around both reserved boundaries; serde round trips and mutated base64. \
         Non-trivial = any case other than a plain random-bytes rejection; distinct = distinct (op, result) lines."
    }
    fn gen_ops(&mut self, rng: &mut Rng, tier: Tier, out: &mut Emitter) {
        let rounds = if tier == Tier::Thorough { 400 } else { 12 };
        // every version with a full-length id (zeros / ff / random)
        for v in 0..=255u32 {
            for id in [vec![0u8; NS_ID_SIZE], vec![0xffu8; NS_ID_SIZE], rng.bytes(NS_ID_SIZE)] {
                out.op(format!("new v={v} id={}", hx(&id)), "new/all-versions", true);
            }
        }
        for _ in 0..rounds {
            // every length 0..40 for every constructor
            for len in 0..=40usize {
                let zeros_then = |rng: &mut Rng, len: usize| {
                    let mut id = vec![0u8; len];
                    for b in id.iter_mut().skip(len.saturating_sub(10)) {
                        *b = rng.byte();
                    }
                    id
                };
                let id = zeros_then(rng, len);
                out.op(format!("new_v0 id={}", hx(&id)), "new_v0/len", true);
                out.op(format!("new v=0 id={}", hx(&id)), "new/len", true);
                let idf = vec![0xffu8; len];
                out.op(format!("new_v255 id={}", hx(&idf)), "new_v255/len", true);
                out.op(format!("new v=255 id={}", hx(&idf)), "new/len", true);
                let mut raw = vec![if rng.bool() { 0u8 } else { 0xff }; len];
                if len > 0 && raw[0] == 0 {
                    let l = raw.len();
                    raw[l - 1] = rng.byte();
                }
                out.op(format!("from_raw hex={}", hx(&raw)), "from_raw/len", true);
                out.op(format!("from_raw hex={}", hx(&rng.bytes(len))), "from_raw/random", false);
            }
            // every single-byte corruption of a valid namespace
            for base_v255 in [false, true] {
                let mut base = valid_ns(rng);
                while (base[0] == 0xff) != base_v255 {
                    base = valid_ns(rng);
                }
                out.op(format!("from_raw hex={}", hx(&base)), "from_raw/valid", true);
                for pos in 0..NS_SIZE {
                    let mut m = base.clone();
                    let delta = rng.range(1, 255) as u8;
                    m[pos] = m[pos].wrapping_add(delta);
                    out.op(format!("from_raw hex={}", hx(&m)), "from_raw/corrupt-1-byte", true);
                    out.op(format!("new v={} id={}", m[0], hx(&m[1..])), "new/corrupt-1-byte", true);
                    if base_v255 {
                        out.op(format!("new_v255 id={}", hx(&m[1..])), "new_v255/corrupt", true);
                    } else {
                        out.op(format!("new_v0 id={}", hx(&m[1..])), "new_v0/corrupt", true);
                    }
                }
            }
            // valid namespace queries
            for _ in 0..20 {
                let a = valid_ns(rng);
                out.op(format!("id_v0 ns={}", hx(&a)), "id_v0", true);
                out.op(format!("is_reserved ns={}", hx(&a)), "is_reserved", true);
                out.op(format!("serde ns={}", hx(&a)), "serde", true);
                // cmp with: itself, a one-byte neighbour, an independent namespace
                out.op(format!("cmp a={} b={}", hx(&a), hx(&a)), "cmp/eq", true);
                let mut b = a.clone();
                let pos = rng.usize(if a[0] == 0 { 19 } else { 28 }, NS_SIZE - 1);
                b[pos] = b[pos].wrapping_add(rng.range(1, 255) as u8);
                out.op(format!("cmp a={} b={}", hx(&a), hx(&b)), "cmp/one-byte", true);
                out.op(format!("cmp a={} b={}", hx(&b), hx(&a)), "cmp/one-byte", true);
                let c = valid_ns(rng);
                out.op(format!("cmp a={} b={}", hx(&a), hx(&c)), "cmp/indep", true);
            }
            // mutated serde strings
            for _ in 0..10 {
                let a = valid_ns(rng);
                let ns = Namespace::from_raw(&a).unwrap();
                let s = serde_json::to_string(&ns).unwrap();
                let mut chars: Vec<char> = s.trim_matches('"').chars().collect();
                match rng.below(5) {
                    0 => {
                        let i = rng.usize(0, chars.len() - 1);
                        chars[i] = *rng.pick(&['A', 'B', '/', '+', '=', 'z', '9', '-', '_', '*']);
                    }
                    1 => {
                        chars.pop();
                    }
                    2 => {
                        let i = rng.usize(0, chars.len());
                        chars.insert(i, *rng.pick(&['A', '=', 'Q']));
                    }
                    3 => {
                        chars.truncate(rng.usize(0, chars.len()));
                    }
                    _ => {}
                }
                let s: String = chars.into_iter().collect();
                let s = if s.is_empty() { "-".to_string() } else { s };
                out.op(format!("de s={s}"), "de/mutated", true);
            }
        }
    }
    fn run(&mut self, line: &str) -> String {
        match opname(line) {
            "reset" => "ok".into(),
            "from_raw" => match arg_hex(line, "hex") {
                Some(b) => show(Namespace::from_raw(&b)),
                None => "bad-op".into(),
            },
            "new" => match (arg_u64(line, "v"), arg_hex(line, "id")) {
                (Some(v), Some(id)) if v < 256 => show(Namespace::new(v as u8, &id)),
                _ => "bad-op".into(),
            },
            "new_v0" => match arg_hex(line, "id") {
                Some(id) => show(Namespace::new_v0(&id)),
                None => "bad-op".into(),
            },
            "new_v255" => match arg_hex(line, "id") {
                Some(id) => show(Namespace::new_v255(&id)),
                None => "bad-op".into(),
            },
            "id_v0" => match arg(line, "ns").and_then(ns_of) {
                Some(ns) => match ns.id_v0() {
                    Some(x) => format!("some {}", hx(x)),
                    None => "none".into(),
                },
                None => "bad-op".into(),
            },
            "cmp" => match (arg(line, "a").and_then(ns_of), arg(line, "b").and_then(ns_of)) {
                (Some(a), Some(b)) => match a.cmp(&b) {
                    std::cmp::Ordering::Less => "lt",
                    std::cmp::Ordering::Equal => "eq",
                    std::cmp::Ordering::Greater => "gt",
                }
                .into(),
                _ => "bad-op".into(),
            },
            "is_reserved" => match arg(line, "ns").and_then(ns_of) {
                Some(ns) => ns.is_reserved().to_string(),
                None => "bad-op".into(),
            },
            "serde" => match arg(line, "ns").and_then(ns_of) {
                Some(ns) => {
                    let s = serde_json::to_string(&ns).unwrap();
                    let inner = s.trim_matches('"').to_string();
                    match serde_json::from_str::<Namespace>(&s) {
                        Ok(x) => format!("ok {} s={inner}", hx(x.as_bytes())),
                        Err(_) => format!("err s={inner}"),
                    }
                }
                None => "bad-op".into(),
            },
            "de" => match arg(line, "s") {
                Some(s) => {
                    let s = if s == "-" { "" } else { s };
                    match serde_json::from_str::<Namespace>(&format!("\"{s}\"")) {
                        Ok(x) => format!("ok {}", hx(x.as_bytes())),
                        Err(_) => "err".into(),
                    }
                }
                None => "bad-op".into(),
            },
            _ => "bad-op".into(),
        }
    }
}

fn main() {
    main_for(C14);
}

//! C04 — A verified sample is the share at the requested coordinates.
#[path = "../d_common.rs"]
mod d_common;

use bytes::BytesMut;
use celestia_proto::proof::pb::Proof as RawProof;
use celestia_types::sample::{RawSample, Sample, SampleId};
use celestia_types::{AxisType, DataAvailabilityHeader, ExtendedDataSquare, RawShare};
use d_common::*;
use verif_harness::*;

struct C04 {
    /// generator only (S10): number of user namespaces of the next squares (None = the default 1..9)
    users: Option<usize>,
    eds: Option<ExtendedDataSquare>,
    dah: Option<DataAvailabilityHeader>,
}

fn axis_of(s: &str) -> Option<AxisType> {
    match s {
        "row" => Some(AxisType::Row),
        "col" => Some(AxisType::Col),
        _ => None,
    }
}
fn axis_name(a: AxisType) -> &'static str {
    match a {
        AxisType::Row => "row",
        AxisType::Col => "col",
    }
}

/// fields of an honest sample as a `verify` op for coordinates (r, c)
fn verify_line(r: u16, c: u16, s: &Sample) -> String {
    format!(
        "verify r={r} c={c} axis={} parity={} share={} {}",
        axis_name(s.proof_type),
        s.share.is_parity() as u8,
        hx(s.share.as_ref()),
        proof_fields(&s.proof)
    )
}

/// rewrite one `key=value` of an op line
fn set(line: &str, key: &str, val: &str) -> String {
    line.split(' ')
        .map(|w| match w.split_once('=') {
            Some((k, _)) if k == key => format!("{key}={val}"),
            _ => w.to_string(),
        })
        .collect::<Vec<_>>()
        .join(" ")
}

impl C04 {
    fn gen_for_square(&mut self, rng: &mut Rng, w: usize, per_square: usize, out: &mut Emitter) {
        let (eds, _) = gen_eds_users(rng, w, self.users);
        out.op(eds_line(&eds), &format!("eds/w{w}{}", if self.users.is_some() { "-many-ns" } else { "" }), true);
        let w16 = w as u16;
        // honest samples: every coordinate and both axes for small squares, a sample of them otherwise
        let mut coords: Vec<(u16, u16)> = vec![];
        if w <= 8 {
            for r in 0..w16 {
                for c in 0..w16 {
                    coords.push((r, c));
                }
            }
        } else {
            for _ in 0..per_square {
                coords.push((rng.below(w as u64) as u16, rng.below(w as u64) as u16));
            }
            coords.extend([(0, 0), (0, w16 - 1), (w16 - 1, 0), (w16 - 1, w16 - 1), (w16 / 2, w16 / 2), (w16 / 2 - 1, w16 / 2)]);
        }
        for &(r, c) in &coords {
            for ax in ["row", "col"] {
                out.op(format!("new r={r} c={c} axis={ax}"), &format!("new/honest/{ax}"), true);
            }
        }
        // out-of-range honest constructions
        out.op(format!("new r={} c=0 axis=row", w), "new/out-of-range", true);
        out.op(format!("new r={} c={} axis=col", w - 1, w), "new/out-of-range", true);
        out.op(format!("new r=0 c={} axis=col", w), "new/out-of-range", true);

        // adversarial `verify` ops built from honest samples of this square
        let n_adv = if w <= 8 { per_square.max(12) } else { per_square };
        for _ in 0..n_adv {
            let r0 = rng.below(w as u64) as u16;
            let c0 = rng.below(w as u64) as u16;
            let ax = if rng.bool() { AxisType::Row } else { AxisType::Col };
            let s = Sample::new(r0, c0, ax, &eds).unwrap();
            let base = verify_line(r0, c0, &s);
            out.op(base.clone(), "verify/honest", true);
            // other coordinate on the SAME tree (what a withholding peer would send)
            let other = |rng: &mut Rng, x: u16| loop {
                let y = rng.below(w as u64) as u16;
                if y != x {
                    break y;
                }
            };
            let (r1, c1) = match ax {
                AxisType::Row => (r0, other(rng, c0)),
                AxisType::Col => (other(rng, r0), c0),
            };
            out.op(set(&set(&base, "r", &r1.to_string()), "c", &c1.to_string()), "verify/other-position-same-tree", true);
            // other tree
            let (r2, c2) = match ax {
                AxisType::Row => (other(rng, r0), c0),
                AxisType::Col => (r0, other(rng, c0)),
            };
            out.op(set(&set(&base, "r", &r2.to_string()), "c", &c2.to_string()), "verify/other-tree", true);
            // claimed position rewritten together with the coordinate (proof index forged)
            out.op(
                set(&set(&set(&set(&base, "r", &r1.to_string()), "c", &c1.to_string()), "start", &(if ax == AxisType::Row { c1 } else { r1 }).to_string()), "end", &((if ax == AxisType::Row { c1 } else { r1 }) + 1).to_string()),
                "verify/forged-index",
                true,
            );
            // out of range ids
            out.op(set(&base, "r", &(w as u16 + rng.below(3) as u16).to_string()), "verify/row-out-of-range", true);
            out.op(set(&base, "c", &(w as u16 + rng.below(3) as u16).to_string()), "verify/col-out-of-range", true);
            // altered share
            let mut sh = s.share.as_ref().to_vec();
            let pos = if rng.chance(1, 4) { rng.usize(19, 28) } else { rng.usize(30, 511) };
            sh[pos] ^= 1 << rng.below(8);
            out.op(set(&base, "share", &hx(&sh)), "verify/altered-share", true);
            // share of another position with this proof
            let o = eds.share(r2, c2).unwrap();
            out.op(
                set(&set(&base, "share", &hx(o.as_ref())), "parity", &(o.is_parity() as u8).to_string()),
                "verify/substituted-share",
                true,
            );
            // parity flag flipped
            out.op(set(&base, "parity", &((!s.share.is_parity()) as u8).to_string()), "verify/parity-flipped", true);
            // ranges
            let st = s.proof.start_idx() as i64;
            for (ds, de, tag) in [(1, 1, "shift+1"), (-1, -1, "shift-1"), (0, -1, "empty"), (0, 1, "len2"), (0, 4_000_000_000i64, "huge-end")] {
                let ns = st + ds;
                let ne = st + 1 + de;
                if ns < 0 || ne < 0 {
                    continue;
                }
                out.op(set(&set(&base, "start", &ns.to_string()), "end", &ne.to_string()), &format!("verify/range-{tag}"), true);
            }
            // sibling lists
            let nodes: Vec<Vec<u8>> = s.proof.siblings().iter().map(nh).collect();
            let mut variants: Vec<(Vec<Vec<u8>>, &str)> = vec![];
            let mut v = nodes.clone();
            v.pop();
            variants.push((v, "drop-last"));
            let mut v = nodes.clone();
            v.remove(0);
            variants.push((v, "drop-first"));
            let mut v = nodes.clone();
            v.push(nodes[rng.usize(0, nodes.len() - 1)].clone());
            variants.push((v, "extra"));
            if nodes.len() >= 2 {
                let mut v = nodes.clone();
                v.swap(0, 1);
                variants.push((v, "swap"));
                let mut v = nodes.clone();
                v.reverse();
                variants.push((v, "reverse"));
            }
            let mut v = nodes.clone();
            let i = rng.usize(0, v.len() - 1);
            v[i] = random_node(rng);
            variants.push((v, "random-node"));
            let mut v = nodes.clone();
            let i = rng.usize(0, v.len() - 1);
            v[i] = unordered_node(rng);
            variants.push((v, "unordered-node"));
            let mut v = nodes.clone();
            let i = rng.usize(0, v.len() - 1);
            let j = rng.usize(58, 89);
            v[i][j] ^= 0x10;
            variants.push((v, "bitflip-node-hash"));
            variants.push((vec![], "no-siblings"));
            for (v, tag) in variants {
                out.op(set(&base, "nodes", &hxl(&v)), &format!("verify/siblings-{tag}"), true);
            }
            // ignore_max_ns flipped, absence proofs
            out.op(set(&base, "ign", "0"), "verify/ign-flipped", true);
            let leaf = nodes[0].clone();
            out.op(set(&base, "leaf", &hx(&leaf)), "verify/absence-proof", true);
            out.op(format!("{base} absent=2"), "verify/absence-proof-no-leaf", true);
        }

        // wire-level `recv` ops (from_raw + verify, as the shrex codec and the bitswap multihasher do)
        for _ in 0..n_adv {
            let r0 = rng.below(w as u64) as u16;
            let c0 = rng.below(w as u64) as u16;
            let ax = if rng.bool() { AxisType::Row } else { AxisType::Col };
            let s = Sample::new(r0, c0, ax, &eds).unwrap();
            let base = format!(
                "recv r={r0} c={c0} axis={} share={} hasproof=1 {}",
                s.proof_type as i32,
                hx(s.share.as_ref()),
                proof_fields(&s.proof)
            );
            out.op(base.clone(), "recv/honest", true);
            let (r1, c1) = match ax {
                AxisType::Row => (r0, (c0 + 1 + rng.below(w as u64 - 1) as u16) % w16),
                AxisType::Col => ((r0 + 1 + rng.below(w as u64 - 1) as u16) % w16, c0),
            };
            out.op(set(&set(&base, "r", &r1.to_string()), "c", &c1.to_string()), "recv/other-position-same-tree", true);
            out.op(set(&base, "share", "none"), "recv/missing-share", true);
            out.op(set(&base, "hasproof", "0"), "recv/missing-proof", true);
            out.op(set(&base, "axis", &rng.range(2, 5).to_string()), "recv/bad-axis", true);
            out.op(set(&base, "axis", &(1 - s.proof_type as i32).to_string()), "recv/other-axis", true);
            let mut sh = s.share.as_ref().to_vec();
            sh.pop();
            out.op(set(&base, "share", &hx(&sh)), "recv/short-share", true);
            let mut sh = s.share.as_ref().to_vec();
            sh[0] = 7;
            out.op(set(&base, "share", &hx(&sh)), "recv/bad-namespace-version", true);
            let nodes: Vec<Vec<u8>> = s.proof.siblings().iter().map(nh).collect();
            let mut v = nodes.clone();
            v[0].pop();
            out.op(set(&base, "nodes", &hxl(&v)), "recv/short-node", true);
            out.op(set(&base, "leaf", &hx(&nodes[0])), "recv/leaf-hash-set", true);
            out.op(set(&base, "end", &(s.proof.end_idx() + 1).to_string()), "recv/two-leaf-range", true);
            // start/end with high bits set: `as u32` truncation
            let hi = 1u64 << 32;
            out.op(
                set(&set(&base, "start", &(hi + s.proof.start_idx() as u64).to_string()), "end", &(hi * 5 + s.proof.end_idx() as u64).to_string()),
                "recv/i64-truncation",
                true,
            );
            // fewer siblings: from_raw derives a smaller square and may flip the parity decision
            let mut v = nodes.clone();
            v.pop();
            out.op(set(&base, "nodes", &hxl(&v)), "recv/fewer-siblings", true);
            let mut v = nodes.clone();
            v.push(random_node(rng));
            out.op(set(&base, "nodes", &hxl(&v)), "recv/more-siblings", true);
            if rng.chance(1, 6) {
                let v: Vec<Vec<u8>> = (0..64).map(|_| nodes[0].clone()).collect();
                out.op(set(&base, "nodes", &hxl(&v)), "recv/64-siblings", true);
            }
        }
    }
}

impl Prop for C04 {
    fn id(&self) -> &'static str {
        "C04"
    }
    fn rule(&self) -> &'static str {
        "Squares of EDS width 2..64 built from random namespace-sorted ODS by the real ExtendedDataSquare::from_ods \
         (real leopard codec). Per square: honest Sample::new -> encode -> decode -> verify at every coordinate and both \
         axes (width <= 8) or a random sample plus corners/quadrant borders; adversarial Sample::verify calls built from \
         honest samples (other position on the same tree, other tree, forged index, altered/substituted share, flipped \
         parity flag, shifted/empty/long ranges, dropped/extra/swapped/random/unordered/bit-flipped siblings, ignore_max_ns \
         flipped, absence proofs, out-of-range ids); wire-level from_raw+verify with missing fields, bad axis, short share, \
         bad namespace, short node, leaf hash set, truncated i64 indices, fewer/more/64 siblings. S10 size-threshold stress: squares of width \
         8, 16, 32 (thorough also 64, 128) with about 3 user namespaces per 4 ODS shares (up to w/2 distinct namespaces per row/column; tags \
         eds/wN-many-ns; before at most 13 namespaces per square); EDS width 128 (ODS width 64) in the thorough tier only (driver cost). Non-trivial = every case \
         (all are structured); distinct = distinct (op, result) lines."
    }
    fn gen_ops(&mut self, rng: &mut Rng, tier: Tier, out: &mut Emitter) {
        let plan: Vec<(usize, usize, usize)> = if tier == Tier::Thorough {
            // (eds width, squares, per-square cases)
            vec![(2, 12, 24), (4, 12, 40), (8, 8, 60), (16, 6, 80), (32, 3, 80), (64, 2, 80), (128, 1, 40)]
        } else {
            vec![(2, 3, 8), (4, 3, 10), (8, 2, 12), (16, 2, 14), (32, 1, 10), (64, 1, 8)]
        };
        for (w, squares, per) in plan {
            for _ in 0..squares {
                self.gen_for_square(rng, w, per, out);
            }
        }
        // S10 size-threshold stress: squares with about 3 user namespaces per 4 ODS shares (up to w/2 distinct
        // namespaces in one row/column; before: at most 13 namespaces in the whole square)
        let many: Vec<(usize, usize, usize)> =
            if tier == Tier::Thorough { vec![(8, 4, 30), (16, 3, 40), (32, 2, 40), (64, 1, 40), (128, 1, 20)] } else { vec![(8, 1, 8), (16, 1, 8), (32, 1, 6)] };
        for (w, squares, per) in many {
            let k = w / 2;
            self.users = Some(k * k * 3 / 4);
            for _ in 0..squares {
                self.gen_for_square(rng, w, per, out);
            }
        }
        self.users = None;
        // (EDS width 128 = ODS width 64 stays in the thorough tier only: one such square costs ~25 s in the harness
        // and ~45 s in the Lean driver — the eds line alone is 16 MB — against ~15 s for the whole quick run)
    }
    fn run(&mut self, line: &str) -> String {
        match opname(line) {
            "reset" => {
                self.eds = None;
                self.dah = None;
                "ok".into()
            }
            "eds" => match parse_eds_line(line) {
                Some(e) => {
                    let dah = DataAvailabilityHeader::from_eds(&e);
                    let l = dah_line(&dah);
                    self.eds = Some(e);
                    self.dah = Some(dah);
                    l
                }
                None => {
                    self.eds = None;
                    self.dah = None;
                    "err".into()
                }
            },
            "new" => {
                let (Some(eds), Some(dah)) = (&self.eds, &self.dah) else { return "no-square".into() };
                let (Some(r), Some(c), Some(ax)) = (arg_u64(line, "r"), arg_u64(line, "c"), arg(line, "axis").and_then(axis_of)) else {
                    return "bad-op".into();
                };
                let (r, c) = (r as u16, c as u16);
                match Sample::new(r, c, ax, eds) {
                    Err(e) => format!("err {}", err_kind(&e)),
                    Ok(s) => {
                        let id = SampleId::new(r, c, HEIGHT).unwrap();
                        let mut buf = BytesMut::new();
                        s.encode(&mut buf);
                        match Sample::decode(id, &buf) {
                            Err(e) => format!("err decode:{}", err_kind(&e)),
                            Ok(d) => {
                                let v = res_line(d.verify(id, dah)).replace(' ', ":");
                                format!("ok share={} {} verify={v}", hx(d.share.as_ref()), proof_fields(&d.proof))
                            }
                        }
                    }
                }
            }
            "verify" => {
                let Some(dah) = &self.dah else { return "no-square".into() };
                let (Some(r), Some(c), Some(ax), Some(par), Some(share), Some(proof)) = (
                    arg_u64(line, "r"),
                    arg_u64(line, "c"),
                    arg(line, "axis").and_then(axis_of),
                    arg_u64(line, "parity"),
                    arg_hex(line, "share"),
                    proof_from_line(line),
                ) else {
                    return "bad-op".into();
                };
                let Some(share) = share_of(&share, par == 1) else { return "bad-share".into() };
                let id = SampleId::new(r as u16, c as u16, HEIGHT).unwrap();
                let s = Sample { proof_type: ax, share, proof };
                res_line(s.verify(id, dah))
            }
            "recv" => {
                let Some(dah) = &self.dah else { return "no-square".into() };
                let (Some(r), Some(c), Some(axis)) = (arg_u64(line, "r"), arg_u64(line, "c"), arg_u64(line, "axis")) else {
                    return "bad-op".into();
                };
                let share = match arg(line, "share") {
                    Some("none") => None,
                    Some(h) => match unhx(h) {
                        Some(d) => Some(RawShare { data: d }),
                        None => return "bad-op".into(),
                    },
                    None => return "bad-op".into(),
                };
                let proof = if arg_u64(line, "hasproof") == Some(1) {
                    let (Some(st), Some(en), Some(nodes), Some(leaf), Some(ign)) = (
                        arg_u64(line, "start"),
                        arg_u64(line, "end"),
                        arg(line, "nodes").and_then(unhxl),
                        arg_hex(line, "leaf"),
                        arg_u64(line, "ign"),
                    ) else {
                        return "bad-op".into();
                    };
                    Some(RawProof { start: st as i64, end: en as i64, nodes, leaf_hash: leaf, is_max_namespace_ignored: ign == 1 })
                } else {
                    None
                };
                let raw = RawSample { share, proof, proof_type: axis as i32 };
                let id = SampleId::new(r as u16, c as u16, HEIGHT).unwrap();
                match Sample::from_raw(id, raw) {
                    Err(e) => format!("err decode:{}", err_kind(&e)),
                    Ok(s) => res_line(s.verify(id, dah)),
                }
            }
            _ => "bad-op".into(),
        }
    }
    fn result_tag(&self, _line: &str, result: &str) -> Option<String> {
        let mut it = result.split(' ');
        let a = it.next().unwrap_or("");
        if a == "err" { Some(format!("err:{}", it.next().unwrap_or(""))) } else { Some(a.to_string()) }
    }
}

fn main() {
    main_for(C04 { users: None, eds: None, dah: None });
}

//! C47 — Bech32 addresses round-trip and reject wrong kinds.
//!
//! Real code: `celestia_types::state::{Address, AccAddress, ValAddress, ConsAddress}`
//! (`Display`, `FromStr`), which sit on `bech32::encode::<Bech32>` / `bech32::decode`.
use bech32::primitives::iter::Fe32IterExt;
use bech32::{Bech32, Bech32m, Fe32, Hrp};
use celestia_types::state::{AccAddress, Address, AddressKind, AddressTrait, ConsAddress, Id, ValAddress};
use verif_harness::*;

struct C47;

const CHARSET: &str = "qpzry9x8gf2tvdw0s3jn54khce6mua7l";
const KINDS: [&str; 3] = ["acc", "val", "cons"];
const AS: [&str; 4] = ["any", "acc", "val", "cons"];

fn cps(s: &str) -> String {
    if s.is_empty() { "-".into() } else { natl(&s.chars().map(|c| c as u32).collect::<Vec<_>>()) }
}
fn uncps(s: &str) -> Option<String> {
    unnatl(s)?.into_iter().map(|c| char::from_u32(c as u32)).collect()
}

fn kind_name(k: AddressKind) -> &'static str {
    match k {
        AddressKind::Account => "acc",
        AddressKind::Validator => "val",
        AddressKind::Consensus => "cons",
    }
}

/// Cross-checks of the OTHER constructors of a typed address (added after tools/coverage.sh showed that
/// `TryFrom<&[u8]>`, `TryFrom<Vec<u8>>` and the serde path `TryFrom<Raw>` / `From<_> for Raw` were never run):
/// every way of building the address of `id` must give the value `new(Id)` gives, the byte constructors
/// must reject every length but 20 with `InvalidAddressSize(len)`, and the JSON form must be the quoted
/// bech32 string and parse back.  A violation is made visible in the result line (which the model then
/// contradicts); it never panics.
macro_rules! ctor_check {
    ($t:ty, $id:expr) => {{
        let id: [u8; 20] = $id;
        let want = <$t>::new(Id::new(id));
        let mut bad: Vec<String> = vec![];
        if <$t>::try_from(&id[..]).ok() != Some(want.clone()) {
            bad.push("slice20".into());
        }
        if <$t>::try_from(id.to_vec()).ok() != Some(want.clone()) {
            bad.push("vec20".into());
        }
        if <$t>::from(id) != want {
            bad.push("array".into());
        }
        let mut long = id.to_vec();
        long.push(id[0]);
        for wrong in [&id[..0], &id[..1], &id[..19], &long[..]] {
            let n = wrong.len();
            match <$t>::try_from(wrong) {
                Err(celestia_types::Error::InvalidAddressSize(m)) if m == n => {}
                _ => bad.push(format!("slice{n}")),
            }
            match <$t>::try_from(wrong.to_vec()) {
                Err(celestia_types::Error::InvalidAddressSize(m)) if m == n => {}
                _ => bad.push(format!("vec{n}")),
            }
        }
        let shown = want.to_string();
        match serde_json::to_string(&want) {
            Ok(j) if j == format!("\"{shown}\"") => match serde_json::from_str::<$t>(&j) {
                Ok(back) if back == want => {}
                _ => bad.push("json-back".into()),
            },
            _ => bad.push("json".into()),
        }
        match (serde_json::to_string(&Address::from(want.clone())), serde_json::from_str::<Address>(&format!("\"{shown}\""))) {
            (Ok(j), Ok(back)) if j == format!("\"{shown}\"") && back == Address::from(want.clone()) => {}
            _ => bad.push("json-any".into()),
        }
        bad
    }};
}

/// the serde path (`TryFrom<Raw>`) must agree with `FromStr` on every string
fn json_agrees(as_: &str, s: &str, from_str: &str) -> bool {
    let Ok(j) = serde_json::to_string(s) else { return true };
    fn ok(k: AddressKind, id: &[u8]) -> String {
        format!("ok kind={} id={}", kind_name(k), hx(id))
    }
    let via = match as_ {
        "any" => serde_json::from_str::<Address>(&j).map(|a| ok(a.kind(), a.as_bytes())).ok(),
        "acc" => serde_json::from_str::<AccAddress>(&j).map(|a| ok(a.kind(), a.as_bytes())).ok(),
        "val" => serde_json::from_str::<ValAddress>(&j).map(|a| ok(a.kind(), a.as_bytes())).ok(),
        "cons" => serde_json::from_str::<ConsAddress>(&j).map(|a| ok(a.kind(), a.as_bytes())).ok(),
        _ => return true,
    };
    match via {
        Some(v) => v == from_str,
        None => from_str.starts_with("err"),
    }
}

fn display(kind: &str, id: [u8; 20]) -> Option<String> {
    let bad = match kind {
        "acc" => ctor_check!(AccAddress, id),
        "val" => ctor_check!(ValAddress, id),
        "cons" => ctor_check!(ConsAddress, id),
        _ => return None,
    };
    if !bad.is_empty() {
        return Some(format!("constructor-mismatch:{}", bad.join("+")));
    }
    let id = Id::new(id);
    let (typed, any): (String, Address) = match kind {
        "acc" => (AccAddress::new(id).to_string(), AccAddress::new(id).into()),
        "val" => (ValAddress::new(id).to_string(), ValAddress::new(id).into()),
        "cons" => (ConsAddress::new(id).to_string(), ConsAddress::new(id).into()),
        _ => return None,
    };
    // the enum's Display dispatches to the typed one; make a difference visible
    let s2 = any.to_string();
    Some(if s2 == typed { typed } else { format!("{typed}≠{s2}") })
}

fn show_err(e: celestia_types::Error) -> String {
    use celestia_types::Error::*;
    match e {
        InvalidAddress(_) => "err InvalidAddress".into(),
        InvalidAddressPrefix(p) => format!("err InvalidAddressPrefix p={}", cps(&p)),
        InvalidAddressSize(n) => format!("err InvalidAddressSize n={n}"),
        other => format!("err Other({other})"),
    }
}

fn parse(as_: &str, s: &str) -> String {
    let r = parse_from_str(as_, s);
    if json_agrees(as_, s, &r) { r } else { format!("{r} serde-path-differs") }
}

fn parse_from_str(as_: &str, s: &str) -> String {
    fn ok(k: AddressKind, id: &[u8]) -> String {
        format!("ok kind={} id={}", kind_name(k), hx(id))
    }
    match as_ {
        "any" => match s.parse::<Address>() {
            Ok(a) => ok(a.kind(), a.as_bytes()),
            Err(e) => show_err(e),
        },
        "acc" => match s.parse::<AccAddress>() {
            Ok(a) => ok(a.kind(), a.as_bytes()),
            Err(e) => show_err(e),
        },
        "val" => match s.parse::<ValAddress>() {
            Ok(a) => ok(a.kind(), a.as_bytes()),
            Err(e) => show_err(e),
        },
        "cons" => match s.parse::<ConsAddress>() {
            Ok(a) => ok(a.kind(), a.as_bytes()),
            Err(e) => show_err(e),
        },
        _ => "bad-op".into(),
    }
}

fn id20(b: &[u8]) -> Option<[u8; 20]> {
    b.try_into().ok()
}

fn rand_id(rng: &mut Rng) -> [u8; 20] {
    let mut id = [0u8; 20];
    match rng.below(8) {
        0 => {}
        1 => id = [0xff; 20],
        2 => id[rng.usize(0, 19)] = 1 << rng.below(8),
        3 => {
            id = [0xff; 20];
            id[rng.usize(0, 19)] ^= 1 << rng.below(8);
        }
        _ => id.copy_from_slice(&rng.bytes(20)),
    }
    id
}

/// a checksummed string from raw field elements (no length check, any padding), lower case
fn encode_fes(hrp: &str, fes: &[u8], m: bool) -> Option<String> {
    let hrp = Hrp::parse(hrp).ok()?;
    let it = fes.iter().map(|&f| Fe32::try_from(f).unwrap());
    Some(if m { it.with_checksum::<Bech32m>(&hrp).chars().collect() } else { it.with_checksum::<Bech32>(&hrp).chars().collect() })
}

const HRPS: [&str; 14] = [
    "celestia", "celestiavaloper", "celestiavalcons", "celestiapub", "celestiavaloperpub", "celestiavalconspub",
    "celesti", "celestiaa", "cosmos", "celestiaval", "cel1estia", "c", "celestiavaloperr", "celestiavalcon",
];

impl Prop for C47 {
    fn id(&self) -> &'static str {
        "C47"
    }
    fn rule(&self) -> &'static str {
        "display + roundtrip (as Address and as each typed address) for boundary and random 20-byte ids of the three \
         kinds; single-character corruptions of displayed addresses: every position x every other alphabet character \
         (quick: for 2 ids per kind; thorough: 40), plus upper-case, separator and non-alphabet/non-ASCII replacements; \
         parse of crafted strings: bech32m checksums, upper/mixed case, 14 other prefixes, every data length 0..45 \
         with a valid checksum, non-zero padding groups, >1023 characters, insertions/deletions, garbage. \
         Non-trivial = everything except plain garbage strings; distinct = distinct (op, result) lines."
    }
    fn gen_ops(&mut self, rng: &mut Rng, tier: Tier, out: &mut Emitter) {
        let thorough = tier == Tier::Thorough;
        let n_ids = if thorough { 3000 } else { 150 };
        for i in 0..n_ids {
            let id = rand_id(rng);
            let kind = KINDS[i % 3];
            out.op(format!("display kind={kind} id={}", hx(&id)), "display", true);
            for a in AS {
                let tag = if a == "any" || a == kind { "roundtrip/own-kind" } else { "roundtrip/other-kind" };
                out.op(format!("roundtrip kind={kind} id={} as={a}", hx(&id)), tag, true);
            }
        }
        // single-character corruptions
        let n_cor = if thorough { 40 } else { 2 };
        for kind in KINDS {
            for _ in 0..n_cor {
                let id = rand_id(rng);
                let s = display(kind, id).unwrap();
                let chars: Vec<char> = s.chars().collect();
                for pos in 0..chars.len() {
                    for c in CHARSET.chars() {
                        if c != chars[pos] {
                            out.op(format!("corrupt s={} pos={pos} c={}", cps(&s), c as u32), "corrupt/alphabet", true);
                        }
                    }
                    let extra = [chars[pos].to_ascii_uppercase(), '1', 'b', 'i', 'o', 'B', ' ', '\u{e9}', '\u{1F600}', '\0', '~'];
                    for c in extra {
                        if c != chars[pos] {
                            out.op(format!("corrupt s={} pos={pos} c={}", cps(&s), c as u32), "corrupt/other", true);
                        }
                    }
                }
            }
        }
        // random single-character corruptions over many ids
        for _ in 0..(if thorough { 40000 } else { 1500 }) {
            let kind = *rng.pick(&KINDS);
            let s = display(kind, rand_id(rng)).unwrap();
            let pos = rng.usize(0, s.len() - 1);
            let c = if rng.chance(3, 4) { CHARSET.as_bytes()[rng.usize(0, 31)] as u32 } else { rng.range(0, 300) as u32 };
            out.op(format!("corrupt s={} pos={pos} c={c}", cps(&s)), "corrupt/random", true);
        }
        // crafted strings
        let rounds = if thorough { 300 } else { 12 };
        for _ in 0..rounds {
            for hrp in HRPS {
                let id = rand_id(rng);
                let fes20: Vec<u8> = {
                    // 32 groups of five bits
                    let s = bech32::encode::<Bech32>(Hrp::parse("x").unwrap(), &id).unwrap();
                    s[2..34].chars().map(|c| CHARSET.find(c).unwrap() as u8).collect()
                };
                for m in [false, true] {
                    let s = encode_fes(hrp, &fes20, m).unwrap();
                    let a = *rng.pick(&AS);
                    out.op(format!("parse as={a} s={}", cps(&s)), if m { "parse/bech32m" } else { "parse/hrp" }, true);
                    let up = s.to_ascii_uppercase();
                    out.op(format!("parse as=any s={}", cps(&up)), "parse/uppercase", true);
                    // upper-case data part only / hrp only (mixed case)
                    let (h, d) = s.rsplit_once('1').unwrap();
                    out.op(format!("parse as=any s={}", cps(&format!("{h}1{}", d.to_ascii_uppercase()))), "parse/mixed-case", true);
                    out.op(format!("parse as=any s={}", cps(&format!("{}1{d}", h.to_ascii_uppercase()))), "parse/mixed-case", true);
                }
            }
            // every data length with a valid checksum, by bytes and by groups (non-zero padding)
            for kind_hrp in ["celestia", "celestiavaloper", "celestiavalcons"] {
                for len in 0..=45usize {
                    let data = rng.bytes(len);
                    let s = bech32::encode::<Bech32>(Hrp::parse(kind_hrp).unwrap(), &data).unwrap();
                    out.op(format!("parse as={} s={}", rng.pick(&AS), cps(&s)), "parse/data-length", true);
                }
                for nfe in 28..=36usize {
                    let fes: Vec<u8> = (0..nfe).map(|_| rng.below(32) as u8).collect();
                    let s = encode_fes(kind_hrp, &fes, rng.chance(1, 4)).unwrap();
                    out.op(format!("parse as={} s={}", rng.pick(&AS), cps(&s)), "parse/groups-padding", true);
                }
            }
            // very long strings (code length 1023) with valid checksums
            for total in [1022usize, 1023, 1024, 1100] {
                let hrp = "celestia";
                let nfe = total - hrp.len() - 1 - 6;
                let fes: Vec<u8> = (0..nfe).map(|_| rng.below(32) as u8).collect();
                let s = encode_fes(hrp, &fes, false).unwrap();
                out.op(format!("parse as=any s={}", cps(&s)), "parse/code-length", true);
            }
            // insertions / deletions / truncations / swaps on a displayed address
            for _ in 0..20 {
                let kind = *rng.pick(&KINDS);
                let s = display(kind, rand_id(rng)).unwrap();
                let mut chars: Vec<char> = s.chars().collect();
                let tag;
                match rng.below(5) {
                    0 => {
                        let i = rng.usize(0, chars.len());
                        chars.insert(i, CHARSET.as_bytes()[rng.usize(0, 31)] as char);
                        tag = "parse/insert";
                    }
                    1 => {
                        let i = rng.usize(0, chars.len() - 1);
                        chars.remove(i);
                        tag = "parse/delete";
                    }
                    2 => {
                        chars.truncate(rng.usize(0, chars.len()));
                        tag = "parse/truncate";
                    }
                    3 => {
                        let i = rng.usize(0, chars.len() - 2);
                        chars.swap(i, i + 1);
                        tag = "parse/swap";
                    }
                    _ => {
                        let i = rng.usize(0, chars.len() - 1);
                        let j = rng.usize(0, chars.len() - 1);
                        chars[i] = CHARSET.as_bytes()[rng.usize(0, 31)] as char;
                        chars[j] = CHARSET.as_bytes()[rng.usize(0, 31)] as char;
                        tag = "parse/two-chars";
                    }
                }
                let s: String = chars.into_iter().collect();
                out.op(format!("parse as={} s={}", rng.pick(&AS), cps(&s)), tag, true);
            }
            // garbage
            for _ in 0..30 {
                let n = rng.usize(0, 60);
                let s: String = (0..n)
                    .map(|_| match rng.below(6) {
                        0 => '1',
                        1 => char::from_u32(rng.range(0, 0x2ff) as u32).unwrap_or('x'),
                        2 => *rng.pick(&['A', 'Q', 'é', ' ', '\u{7f}', '!', '~', '\u{80}']),
                        _ => CHARSET.as_bytes()[rng.usize(0, 31)] as char,
                    })
                    .collect();
                out.op(format!("parse as={} s={}", rng.pick(&AS), cps(&s)), "parse/garbage", false);
            }
            for s in ["", "1", "11", "celestia", "celestia1", "1qqqqqq", "celestia1qqqqqq", "a1lqfn3a", "A1LQFN3A", "a1lqfn3A"] {
                out.op(format!("parse as=any s={}", cps(s)), "parse/fixed", true);
            }
            // hrp with odd ASCII, length 83 / 84
            for hl in [1usize, 82, 83, 84, 90] {
                let hrp: String = (0..hl).map(|_| rng.range(33, 126) as u8 as char).map(|c| c.to_ascii_lowercase()).collect();
                if let Some(s) = encode_fes(&hrp, &[1, 2, 3], false) {
                    out.op(format!("parse as=any s={}", cps(&s)), "parse/odd-hrp", true);
                } else {
                    out.op(format!("parse as=any s={}", cps(&format!("{hrp}1qqqqqq"))), "parse/odd-hrp", true);
                }
            }
        }
    }
    fn run(&mut self, line: &str) -> String {
        match opname(line) {
            "reset" => "ok".into(),
            "display" => match (arg(line, "kind"), arg_hex(line, "id").as_deref().and_then(id20)) {
                (Some(k), Some(id)) => match display(k, id) {
                    Some(s) => format!("ok s={}", cps(&s)),
                    None => "bad-op".into(),
                },
                _ => "bad-op".into(),
            },
            "roundtrip" => match (arg(line, "kind"), arg_hex(line, "id").as_deref().and_then(id20), arg(line, "as")) {
                (Some(k), Some(id), Some(a)) => match display(k, id) {
                    Some(s) => parse(a, &s),
                    None => "bad-op".into(),
                },
                _ => "bad-op".into(),
            },
            "parse" => match (arg(line, "as"), arg(line, "s").and_then(uncps)) {
                (Some(a), Some(s)) => parse(a, &s),
                _ => "bad-op".into(),
            },
            "corrupt" => match (arg(line, "s").and_then(uncps), arg_u64(line, "pos"), arg_u64(line, "c")) {
                (Some(s), Some(pos), Some(c)) => {
                    let mut chars: Vec<char> = s.chars().collect();
                    if let (Some(slot), Some(c)) = (chars.get_mut(pos as usize), char::from_u32(c as u32)) {
                        *slot = c;
                    }
                    let m: String = chars.into_iter().collect();
                    format!("{} | {}", parse("any", &s), parse("any", &m))
                }
                _ => "bad-op".into(),
            },
            _ => "bad-op".into(),
        }
    }
}

fn main() {
    main_for(C47);
}

//! C39 — Peer tracker counts match peer states.
//!
//! Runs random event histories against the real `lumina_node::peer_tracker::PeerTracker`
//! (through the cfg-guarded `verif::Tracker` wrapper) and prints, after every event, the
//! return value, the emitted node events, the published `PeerTrackerInfo`, the raw protect
//! counter and a canonical dump of every tracked peer.
use std::time::Duration;

use libp2p::PeerId;
use libp2p::ping;
use libp2p::swarm::ConnectionId;
use lumina_node::verif::peer_tracker::Tracker;
use verif_harness::*;

const N_PEERS: usize = 8;

struct C39 {
    tracker: Tracker,
    ids: Vec<PeerId>,
}

impl C39 {
    fn new() -> Self {
        C39 { tracker: Tracker::new(), ids: (0..64).map(|_| PeerId::random()).collect() }
    }
    fn peer(&self, line: &str) -> PeerId {
        let p = arg_u64(line, "p").expect("p") as usize;
        self.ids[p % self.ids.len()]
    }
    fn idx(&self, id: &PeerId) -> usize {
        self.ids.iter().position(|x| x == id).expect("known peer")
    }
    fn dump(&mut self, ret: Option<bool>) -> String {
        let ev: Vec<String> = self
            .tracker
            .drain_events()
            .into_iter()
            .map(|(c, id, t)| format!("{}{}{}", if c { "C" } else { "D" }, self.idx(&id), if t { "T" } else { "t" }))
            .collect();
        let r = match ret {
            None => "-",
            Some(true) => "t",
            Some(false) => "f",
        };
        format!("ret={r} ev={} {}", join_or_dash("+", &ev), self.state())
    }
    fn state(&self) -> String {
        let i = self.tracker.info();
        let mut prot = self.tracker.protect_counter();
        prot.sort();
        let prot: Vec<String> = prot.iter().map(|(k, v)| format!("{k}:{v}")).collect();
        let mut peers = self.tracker.peers();
        peers.sort_by_key(|p| self.idx(&p.id));
        let peers: Vec<String> = peers
            .iter()
            .map(|p| {
                let mut conns: Vec<(usize, Option<u128>)> = p
                    .connections
                    .iter()
                    .map(|(c, ping)| (conn_num(c), ping.map(|d| d.as_millis())))
                    .collect();
                conns.sort();
                let conns: Vec<String> = conns.iter().map(|(c, p)| format!("{c}.{}", opt(p))).collect();
                let mut tags = p.protected.clone();
                tags.sort();
                let tags: Vec<String> = tags.iter().map(|t| t.to_string()).collect();
                let disc = match p.disconnected_for {
                    None => "c".to_string(),
                    Some(d) => d.as_secs().to_string(),
                };
                format!(
                    "{}/{}/{}/{}{}/{}/{}/{}",
                    self.idx(&p.id),
                    join_or_dash("+", &conns),
                    join_or_dash("+", &tags),
                    if p.trusted { "T" } else { "t" },
                    if p.archival { "A" } else { "a" },
                    p.node_kind,
                    opt(&p.best_ping.map(|d| d.as_millis())),
                    disc
                )
            })
            .collect();
        format!(
            "info={},{},{},{} prot={} peers={}",
            i.num_connected_peers,
            i.num_connected_trusted_peers,
            i.num_connected_full_nodes,
            i.num_connected_archival_nodes,
            join_or_dash("+", &prot),
            join_or_dash("|", &peers)
        )
    }
}

fn opt<T: ToString>(o: &Option<T>) -> String {
    match o {
        None => "x".into(),
        Some(v) => v.to_string(),
    }
}

fn join_or_dash(sep: &str, l: &[String]) -> String {
    if l.is_empty() { "-".into() } else { l.join(sep) }
}

/// `ConnectionId` only exposes its number through `Display`/`Debug`
fn conn_num(c: &ConnectionId) -> usize {
    let s = format!("{c}");
    s.trim_matches(|ch: char| !ch.is_ascii_digit()).parse().expect("connection id number")
}

const AGENTS: &[&str] = &[
    "lumina/celestia/0.14.0",
    "celestia-node/celestia/bridge/v0.24.1/fb95d45",
    "celestia-node/celestia/full/v0.24.1/fb95d45",
    "celestia-node/celestia/light/v0.24.1/fb95d45",
    "celestia-node/celestia/ant/v1",
    "celestia-node/full",
    "celestia-node/celestia",
    "celestia-node",
    "celestia-node//full",
    "probelab-node/celestia/ant/v0.1.0",
    "lumina",
    "@",
    "/lumina/x",
    "full/celestia-node/full",
    "celestia-node/x/bridge",
];

impl Prop for C39 {
    fn id(&self) -> &'static str {
        "C39"
    }
    fn rule(&self) -> &'static str {
        "Random event histories (connect, disconnect, trust, protect/unprotect, archival, agent version, ping, \
         add_peer_id, gc, passage of time, protected_len queries) over up to 8 peers x 3 connections each and \
         tags 0..3 (plus rare foreign connection ids / large tags), 30..120 events per history, histories \
         separated by `reset`; phases biased towards connecting, disconnecting, protecting and expiring. \
         Non-trivial = an event at position >= 6 of its history (the tracker holds several peers by then); \
         distinct = distinct (event, full observed tracker state) lines."
    }
    fn gen_ops(&mut self, rng: &mut Rng, tier: Tier, out: &mut Emitter) {
        let histories = if tier == Tier::Thorough { 1500 } else { 60 };
        for h in 0..histories {
            let len = rng.usize(30, 120);
            let npeers = if h % 5 == 0 { rng.usize(1, 3) } else { N_PEERS };
            // a phase biases the op mix so that the tracker fills up, empties, and expires
            let mut phase = rng.below(4);
            for i in 0..len {
                if rng.chance(1, 15) {
                    phase = rng.below(4);
                }
                let p = rng.usize(0, npeers - 1);
                let k = rng.usize(0, 2);
                let c = if rng.chance(1, 25) { rng.usize(0, 3 * N_PEERS - 1) } else { p * 3 + k };
                let tag = if rng.chance(1, 30) { *rng.pick(&[4u64, 7, 4294967295]) } else { rng.below(4) };
                let nt = i >= 6;
                let w = rng.below(100);
                let (line, tagname): (String, &str) = match phase {
                    // connect-heavy
                    0 if w < 35 => (format!("conn p={p} c={c}"), "conn"),
                    // disconnect-heavy
                    1 if w < 35 => (format!("disc p={p} c={c}"), "disc"),
                    // protect-heavy
                    2 if w < 20 => (format!("protect p={p} tag={tag}"), "protect"),
                    2 if w < 35 => (format!("unprotect p={p} tag={tag}"), "unprotect"),
                    // expiry-heavy
                    3 if w < 12 => (format!("advance secs={}", *rng.pick(&[1u64, 30, 59, 60, 61, 119, 120, 121, 200])), "advance"),
                    3 if w < 30 => ("gc".to_string(), "gc"),
                    3 if w < 35 => (format!("disc p={p} c={c}"), "disc"),
                    _ => match rng.below(100) {
                        0..=17 => (format!("conn p={p} c={c}"), "conn"),
                        18..=31 => (format!("disc p={p} c={c}"), "disc"),
                        32..=39 => (format!("trust p={p} v={}", rng.below(2)), "trust"),
                        40..=49 => (format!("protect p={p} tag={tag}"), "protect"),
                        50..=59 => (format!("unprotect p={p} tag={tag}"), "unprotect"),
                        60..=65 => (format!("archival p={p}"), "archival"),
                        66..=75 => (format!("agent p={p} s={}", rng.pick(AGENTS)), "agent"),
                        76..=80 => {
                            let ms = if rng.chance(1, 5) { "fail".to_string() } else { rng.range(1, 500).to_string() };
                            (format!("ping p={p} c={c} ms={ms}"), "ping")
                        }
                        81..=84 => (format!("add_peer p={p}"), "add_peer"),
                        85..=91 => ("gc".to_string(), "gc"),
                        92..=95 => (format!("advance secs={}", *rng.pick(&[1u64, 60, 119, 120, 121, 500])), "advance"),
                        _ => (format!("plen tag={tag}"), "plen"),
                    },
                };
                out.op(line, tagname, nt);
            }
            out.op("reset", "reset", false);
        }
    }
    fn run(&mut self, line: &str) -> String {
        match opname(line) {
            "reset" => {
                self.tracker = Tracker::new();
                "ok".into()
            }
            "add_peer" => {
                let id = self.peer(line);
                let r = self.tracker.add_peer_id(&id);
                self.dump(Some(r))
            }
            "trust" => {
                let id = self.peer(line);
                self.tracker.set_trusted(&id, arg_u64(line, "v").expect("v") != 0);
                self.dump(None)
            }
            "protect" => {
                let id = self.peer(line);
                let r = self.tracker.protect(&id, arg_u64(line, "tag").expect("tag") as u32);
                self.dump(Some(r))
            }
            "unprotect" => {
                let id = self.peer(line);
                let r = self.tracker.unprotect(&id, arg_u64(line, "tag").expect("tag") as u32);
                self.dump(Some(r))
            }
            "conn" => {
                let id = self.peer(line);
                let c = ConnectionId::new_unchecked(arg_u64(line, "c").expect("c") as usize);
                self.tracker.add_connection(&id, c);
                self.dump(None)
            }
            "disc" => {
                let id = self.peer(line);
                let c = ConnectionId::new_unchecked(arg_u64(line, "c").expect("c") as usize);
                self.tracker.remove_connection(&id, c);
                self.dump(None)
            }
            "agent" => {
                let id = self.peer(line);
                let s = arg(line, "s").expect("s");
                self.tracker.on_agent_version(&id, if s == "@" { "" } else { s });
                self.dump(None)
            }
            "ping" => {
                let id = self.peer(line);
                let c = ConnectionId::new_unchecked(arg_u64(line, "c").expect("c") as usize);
                let result = match arg(line, "ms").expect("ms").parse::<u64>() {
                    Ok(ms) => Ok(Duration::from_millis(ms)),
                    Err(_) => Err(ping::Failure::Timeout),
                };
                self.tracker.on_ping_event(&ping::Event { peer: id, connection: c, result });
                self.dump(None)
            }
            "archival" => {
                let id = self.peer(line);
                self.tracker.mark_as_archival(&id);
                self.dump(None)
            }
            "gc" => {
                self.tracker.gc();
                self.dump(None)
            }
            "advance" => {
                self.tracker.advance_time(Duration::from_secs(arg_u64(line, "secs").expect("secs")));
                self.dump(None)
            }
            "plen" => {
                let n = self.tracker.protected_len(arg_u64(line, "tag").expect("tag") as u32);
                format!("n={n} {}", self.state())
            }
            _ => "bad-op".into(),
        }
    }
    fn result_tag(&self, _line: &str, result: &str) -> Option<String> {
        // histogram by number of connected peers
        let info = arg(result, "info")?;
        Some(format!("connected={}", info.split(',').next()?))
    }
}

fn main() {
    main_for(C39::new());
}
